"""CLI:  python -m vf.runner <Cxx> [--tier quick|thorough] [--replay FILE] [--cells GLOB]

Exit 0: property held on everything explored (open known findings are printed
as KNOWN-FINDING lines).  Exit 1: at least one `VIOLATION property=<id>
replay=<path>` line.  Exit 2: harness error (never a VIOLATION).
"""

from __future__ import annotations

import argparse
import fnmatch
import json
import multiprocessing as mp
import os
import sys
import time
from collections import Counter

from . import core
from .core import CELLS, VERIF_DIR, canon, case_hash, evaluate, load_findings, nan_to_str


QUICK_SCALE = {"C01": 4, "C02": 1, "C03": 3, "C04": 3, "C05": 3, "C06": 3, "C07": 3, "C08": 2, "C09": 2, "C10": 3, "C11": 6,
               "C12": 4, "C13": 6, "C14": 8, "C15": 5, "C16": 6, "C17": 4, "C18": 2, "C19": 5, "C20": 8}


# (halved on Oct 4 after the round-3/4 cells were added: ~14 min per property idle before, ~7-8 min now, so that all 20 fit in 3 h)
THOROUGH_SCALE = {"C01": 4, "C02": 1, "C03": 1.5, "C04": 1, "C05": 3.5, "C06": 2, "C07": 4.5, "C08": 4.5, "C09": 2, "C10": 3, "C11": 6,
                  "C12": 3, "C13": 6, "C14": 4, "C15": 10, "C16": 7.5, "C17": 5, "C18": 1.25, "C19": 6, "C20": 7.5}


def _write_replay(prop, cell, kind, detail, info, case, sub="found"):
    d = os.path.join(VERIF_DIR, "replays", sub)
    os.makedirs(d, exist_ok=True)
    h = case_hash({"c": cell, "k": kind, "d": detail, "case": case}).hex()
    path = os.path.join(d, f"{prop}-{h}.json")
    with open(path, "w") as f:
        json.dump(
            dict(property=prop, cell=cell, kind=kind, detail=detail, info=info, case=case),
            f,
            indent=1,
            default=core._json_default,
        )
    return os.path.relpath(path, VERIF_DIR)


def _trim_sample(case, limit=1200):
    s = canon(case)
    if len(s) <= limit:
        return nan_to_str(json.loads(s))
    return s[:limit] + "...(truncated)"


def replay_file(prop, mod, path, findings, preds, tier):
    with open(os.path.join(VERIF_DIR, path) if not os.path.isabs(path) else path) as f:
        r = json.load(f)
    c = CELLS.get(r["cell"])
    if c is None:
        print(f"HARNESS-ERROR: replay {path}: unknown cell {r['cell']}")
        return None
    ctx = evaluate(c, r["case"], tier)
    return r, ctx


def main(argv=None) -> int:
    ap = argparse.ArgumentParser()
    ap.add_argument("prop")
    ap.add_argument("--tier", default=None, choices=["quick", "thorough"])
    ap.add_argument("--replay", default=None)
    ap.add_argument("--cells", default=None, help="dev: only cells matching this glob")
    ap.add_argument("--seed", type=int, default=None)
    ap.add_argument("--jobs", type=int, default=int(os.environ.get("VERIF_JOBS", "16")))
    ap.add_argument("--scale", type=float, default=1.0, help="dev: scale example budgets")
    ap.add_argument("--no-shrink", action="store_true")
    ap.add_argument("--verbose", action="store_true")
    a = ap.parse_args(argv)

    prop = a.prop.upper()
    tier = a.tier or os.environ.get("VERIF_TIER") or "quick"
    if tier not in ("quick", "thorough"):
        tier = "quick"
    seed = a.seed if a.seed is not None else int(os.environ.get("VERIF_SEED", "1") or "1")
    t0 = time.time()

    if not core.sut_location_ok():
        print(f"HARNESS-ERROR: pyttb imported from {core._PYTTB_DIR}, expected under {core.REPO}")
        return 2
    try:
        mod = core._load(prop)
    except Exception:  # noqa: BLE001
        import traceback

        traceback.print_exc()
        print(f"HARNESS-ERROR: cannot import property module for {prop}")
        return 2
    preds = getattr(mod, "PREDICATES", {})
    findings = load_findings(prop)
    cells = [c for n, c in CELLS.items() if c.prop == prop]
    if a.cells:
        cells = [c for c in cells if fnmatch.fnmatchcase(c.name, a.cells)]
    if a.scale != 1.0:
        for c in cells:
            c.quick = max(1, int(c.quick * a.scale))
            c.thorough = max(1, int(c.thorough * a.scale))
    # quick-tier budgets were sized by the module authors on a heavily loaded machine; on an idle 16-core machine
    # they leave most of the per-change time budget unused, so generated (not enumerated) cells are scaled up here
    qs = QUICK_SCALE.get(prop, 1)
    if tier == "quick" and qs != 1:
        for c in cells:
            if c.enum is None:
                c.quick = int(c.quick * qs)
                c.shards = (min(16, c.shards[0] * min(qs, 4)), c.shards[1])
    # thorough tier: sized so that each property takes roughly 8-12 minutes on an idle 16-core machine
    ts = THOROUGH_SCALE.get(prop, 1)
    if tier == "thorough" and ts != 1:
        for c in cells:
            if c.enum is None:
                c.thorough = int(c.thorough * ts)
                c.shards = (c.shards[0], min(32, max(c.shards[1], int(c.shards[1] * min(ts, 4)))))

    def known(cell_name, kind, detail, case):
        for f in findings:
            if f.matches(cell_name, kind, detail, case, preds):
                return f
        return None

    # ---------------------------------------------------------------- replay
    if a.replay:
        out = replay_file(prop, mod, a.replay, findings, preds, tier)
        if out is None:
            return 2
        r, ctx = out
        if ctx.harness_error:
            print(ctx.harness_error)
            print("HARNESS-ERROR: replay raised inside the harness")
            return 2
        rc = 0
        for kind, detail, info in ctx.violations:
            k = known(r["cell"], kind, detail, r["case"])
            if k is not None:
                print(f"KNOWN-FINDING: property={prop} {k.line}")
            else:
                print(f"  {r['cell']} {kind} {detail} :: {info}")
                print(f"VIOLATION property={prop} replay={a.replay}")
                rc = 1
        if not ctx.violations:
            print(f"replay {a.replay}: no violation")
        return rc

    violations = []  # (cell, kind, detail, info, replay)
    harness_errors = []
    known_hits = Counter()

    # ------------------------------------------- stage 1: committed replays
    replayed = 0
    for f in findings:
        if not f.replay:
            continue
        if a.cells:
            try:
                with open(os.path.join(VERIF_DIR, f.replay)) as fh:
                    if not fnmatch.fnmatchcase(json.load(fh)["cell"], a.cells):
                        continue
            except Exception:  # noqa: BLE001
                pass
        out = replay_file(prop, mod, f.replay, findings, preds, tier)
        if out is None:
            harness_errors.append(f"replay {f.replay}")
            continue
        r, ctx = out
        replayed += 1
        if ctx.harness_error:
            harness_errors.append(f"replay {f.replay}: {ctx.harness_error}")
            continue
        hit = False
        for kind, detail, info in ctx.violations:
            k = known(r["cell"], kind, detail, r["case"])
            if k is not None:
                if k.id == f.id:
                    hit = True
            else:
                violations.append((r["cell"], kind, detail, info, f.replay))
        if f.status == "open":
            if hit:
                print(f"KNOWN-FINDING: property={prop} {f.line}")
            else:
                print(f"KNOWN-FINDING-NOT-REPRODUCED: property={prop} {f.id} {f.line}")
    for f in findings:
        if f.status == "open" and not f.replay and not a.cells:
            print(f"KNOWN-FINDING: property={prop} {f.line}")

    # ------------------------------------------- stage 2: generated search
    tasks = []
    for c in cells:
        ns = max(1, c.nshards(tier))
        for s in range(ns):
            tasks.append(
                dict(
                    prop=prop,
                    cell=c.name,
                    tier=tier,
                    seed=seed,
                    shard=s,
                    nshards=ns,
                    budget_s=float(os.environ.get("VERIF_CELL_BUDGET_S", "240" if tier == "quick" else "3000")),
                )
            )
    # longest first
    tasks.sort(key=lambda t: -CELLS[t["cell"]].budget(tier) / t["nshards"])
    ctxmp = mp.get_context("fork")
    results = []
    timed_out = []
    if tasks:
        # apply_async + deadline: a worker that dies or hangs must not hang the check
        hard = float(os.environ.get("VERIF_HARD_TIMEOUT_S", "900" if tier == "quick" else "7200"))
        pool = ctxmp.Pool(min(a.jobs, len(tasks)), maxtasksperchild=1)
        try:
            asyncs = [(t, pool.apply_async(core.run_task, (t,))) for t in tasks]
            pool.close()
            for t, ar in asyncs:
                left = max(1.0, hard - (time.time() - t0))
                try:
                    res = ar.get(timeout=left)
                except mp.TimeoutError:
                    timed_out.append(f"{t['cell']}#{t['shard']}")
                    continue
                results.append(res)
                if a.verbose:
                    print(
                        f"  done {res['cell']}#{res['shard']}: {res['evaluations']} evals, "
                        f"{len(res['nt_hashes'])} nt, {len(res['sigs'])} sigs, {res['wall']:.1f}s",
                        flush=True,
                    )
        finally:
            pool.terminate()

    per_cell = {}
    unknown = {}  # (cell, kind, detail) -> dict(case, info, shard, nshards)
    for res in results:
        pc = per_cell.setdefault(
            res["cell"],
            dict(evaluations=0, skipped=0, nt=set(), allh=set(), labels=Counter(), samples=[], wall=0.0,
                 exhaustive=CELLS[res["cell"]].enum is not None, over_budget=False, signatures={}),
        )
        pc["evaluations"] += res["evaluations"]
        pc["skipped"] += res["skipped"]
        pc["nt"] |= res["nt_hashes"]
        pc["allh"] |= res["all_hashes"]
        pc["labels"].update(res["labels"])
        pc["wall"] = max(pc["wall"], res["wall"])
        pc["over_budget"] |= res["over_budget"]
        if CELLS[res["cell"]].enum is not None:
            pc["exhaustive"] &= res["exhaustive"]
        for s in res["samples"]:
            if len(pc["samples"]) < 3:
                pc["samples"].append(s)
        for he in res["harness_errors"]:
            harness_errors.append((res["cell"], he))
        for (kind, detail), e in res["sigs"].items():
            sk = f"{kind}:{detail}"
            pc["signatures"][sk] = pc["signatures"].get(sk, 0) + e["count"]
            for fid, n in e["known"].items():
                known_hits[fid] += n
            if e["unknown"]:
                key = (res["cell"], kind, detail)
                cur = unknown.get(key)
                if cur is None or e["size"] < cur["size"]:
                    unknown[key] = dict(case=e["case"], info=e["info"], size=e["size"], shard=res["shard"],
                                        nshards=len([t for t in tasks if t["cell"] == res["cell"]]),
                                        count=e["unknown"] + (cur["count"] if cur else 0))
                else:
                    cur["count"] += e["unknown"]

    # ------------------------------------------- stage 3: shrink unknown signatures
    if unknown:
        keys = sorted(unknown)
        shrunk = {}
        if not a.no_shrink:
            # at most 6 per cell get the Hypothesis shrinker, the rest keep the smallest collected case
            per = Counter()
            todo = []
            for key in keys:
                per[key[0]] += 1
                if per[key[0]] <= 6 and CELLS[key[0]].enum is None:
                    u = unknown[key]
                    todo.append(
                        dict(prop=prop, cell=key[0], tier=tier, seed=seed, shard=u["shard"], nshards=u["nshards"],
                             sig=(key[1], key[2]), cap_s=20 if tier == "quick" else 120, key=key)
                    )
            if todo:
                with ctxmp.Pool(min(a.jobs, len(todo)), maxtasksperchild=1) as pool:
                    asyncs = [(t["key"], pool.apply_async(core.run_shrink, (t,))) for t in todo]
                    for key, ar in asyncs:
                        try:
                            got = ar.get(timeout=90 if tier == "quick" else 400)
                        except Exception:  # noqa: BLE001
                            got = None
                        if got is not None and known(key[0], key[1], key[2], got) is None:
                            if len(canon(got)) <= len(canon(unknown[key]["case"])):
                                shrunk[key] = got
        for key in keys:
            u = unknown[key]
            case = shrunk.get(key, u["case"])
            path = _write_replay(prop, key[0], key[1], key[2], u["info"], case)
            violations.append((key[0], key[1], key[2], u["info"], path))

    # ------------------------------------------------------------ evidence
    evaluations = sum(p["evaluations"] for p in per_cell.values())
    distinct_nt = sum(len(p["nt"]) for p in per_cell.values())
    samples = []
    for n in sorted(per_cell):
        for s in per_cell[n]["samples"][:2]:
            samples.append(dict(cell=n, case=_trim_sample(s)))
    rule = getattr(mod, "RULE", "")
    ev = dict(
        property_id=prop,
        tier=tier,
        seed=seed,
        level="exploration",
        coverage=dict(
            evaluations=evaluations,
            distinct_nontrivial=distinct_nt,
            rule=rule,
            samples=samples[:60],
            exhaustive=bool(per_cell) and all(p["exhaustive"] for p in per_cell.values()),
            exhaustive_cells=sorted(n for n, p in per_cell.items() if p["exhaustive"]),
            per_cell={
                n: dict(
                    evaluations=p["evaluations"],
                    distinct=len(p["allh"]),
                    distinct_nontrivial=len(p["nt"]),
                    skipped=p["skipped"],
                    wall_s=round(p["wall"], 2),
                    inconclusive_budget=p["over_budget"],
                    labels=dict(p["labels"].most_common(150)),
                    signatures=p["signatures"],
                )
                for n, p in sorted(per_cell.items())
            },
            known_findings_hit=dict(known_hits),
            known_findings_replayed=replayed,
            inconclusive_timeouts=timed_out,
            cells=len(per_cell),
        ),
        assumptions=list(getattr(mod, "ASSUMPTIONS", [])),
        wall_s=round(time.time() - t0, 2),
        violations=len(violations),
    )
    if a.cells is None and a.scale == 1.0 and core.REPO == "/repo":
        evp = os.path.join(VERIF_DIR, "evidence", f"{prop}.json")
    else:
        evp = os.path.join("/tmp", f"evidence-dev-{prop}.json")
    os.makedirs(os.path.dirname(evp), exist_ok=True)
    with open(evp, "w") as f:
        json.dump(nan_to_str(ev), f, indent=1, allow_nan=False)

    # -------------------------------------------------------------- verdict
    print(
        f"{prop} tier={tier} seed={seed}: {len(per_cell)} cells, {evaluations} cases, "
        f"{distinct_nt} distinct non-trivial, known-finding hits {sum(known_hits.values())}, "
        f"{time.time() - t0:.1f}s"
    )
    if a.verbose:
        for n, p in sorted(per_cell.items()):
            print(f"  {n}: evals={p['evaluations']} nt={len(p['nt'])} skipped={p['skipped']} "
                  f"wall={p['wall']:.1f}s sigs={p['signatures']}")
            print(f"      labels={dict(p['labels'].most_common(12))}")
    seen_paths = set()
    for cname, kind, detail, info, path in violations:
        print(f"  {cname} {kind} {detail} :: {info}")
        print(f"VIOLATION property={prop} replay={path}")
    if timed_out:
        print(f"INCONCLUSIVE: {len(timed_out)} cell shards hit the hard time limit: {timed_out[:6]}")
    if violations:
        return 1
    if harness_errors:
        for he in harness_errors[:5]:
            print("HARNESS-ERROR:", he if isinstance(he, str) else (he[0], (he[1] or {}).get("tb", ""), canon((he[1] or {}).get("case"))[:2000]))
        print(f"HARNESS-ERROR: {len(harness_errors)} harness errors (not a verdict on the property)")
        return 2
    return 0


if __name__ == "__main__":
    sys.exit(main())
