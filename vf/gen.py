"""Hypothesis strategies shared by the property modules.

Every strategy yields plain JSON-able values (ints, floats, lists, dicts);
pyttb objects are built from them by the ``build_*`` helpers so that a case is
hashable, printable and replayable without Hypothesis.
"""

from __future__ import annotations

import itertools
from typing import List, Optional, Sequence

import numpy as np
from hypothesis import strategies as st

import pyttb as ttb

from .ref import prod

# --------------------------------------------------------------------------
# shapes
# --------------------------------------------------------------------------


def tier_limits(tier: str):
    """(max order, max mode size, max cells)"""
    return (4, 4, 64) if tier == "quick" else (5, 6, 400)


@st.composite
def shapes(draw, tier="quick", min_order=1, max_order=None, max_size=None, max_cells=None, min_size=1):
    mo, ms, mc = tier_limits(tier)
    max_order = max_order or mo
    max_size = max_size or ms
    max_cells = max_cells or mc
    n = draw(st.integers(min_order, max_order))
    shape: List[int] = []
    cells = 1
    for _ in range(n):
        cap = max(min_size, min(max_size, max_cells // max(cells, 1)))
        s = draw(st.integers(min_size, cap))
        shape.append(s)
        cells *= s
    # shuffle so that the large modes are not always first
    perm = draw(st.permutations(range(n)))
    return [shape[i] for i in perm]


def shape_classes(shape: Sequence[int]) -> List[str]:
    out = [f"order{len(shape)}"]
    if any(s == 1 for s in shape):
        out.append("has-singleton")
    if len(set(shape)) >= 2:
        out.append("distinct-sizes")
    if len(shape) >= 2 and len(set(shape)) < len(shape):
        out.append("repeated-sizes")
    return out


# --------------------------------------------------------------------------
# values
# --------------------------------------------------------------------------

INT_VALUES = st.integers(-6, 6).map(float)
NZ_INT_VALUES = st.sampled_from([-6.0, -5.0, -4.0, -3.0, -2.0, -1.0, 1.0, 2.0, 3.0, 4.0, 5.0, 6.0])
# general floats: magnitudes in [1e-3, 1e3] (or exact zero) so that products of a few factors neither
# underflow nor overflow and the rounding bounds of ref.same_bound are rigorous
NZ_GEN_VALUES = st.one_of(
    st.floats(1e-3, 1e3, allow_nan=False, allow_infinity=False, width=64),
    st.floats(-1e3, -1e-3, allow_nan=False, allow_infinity=False, width=64),
)
GEN_VALUES = st.one_of(st.just(0.0), NZ_GEN_VALUES, NZ_GEN_VALUES, NZ_GEN_VALUES)


def values(kind: str, nonzero: bool = False):
    if kind == "int":
        return NZ_INT_VALUES if nonzero else INT_VALUES
    return NZ_GEN_VALUES if nonzero else GEN_VALUES


@st.composite
def dense_case(draw, tier="quick", kinds=("int", "float"), **shape_kw):
    """A dense array as dict(shape, data=flat F-order list, vkind)."""
    shape = draw(shapes(tier, **shape_kw))
    vkind = draw(st.sampled_from(list(kinds)))
    n = prod(shape)
    pattern = draw(st.sampled_from(["none", "one", "some", "all"]))
    data = _pattern_values(draw, n, pattern, vkind)
    prov = draw(st.sampled_from(["ctor", "ctor", "grown"]))
    return dict(shape=shape, data=data, vkind=vkind, pattern=pattern, prov=prov)


def _pattern_values(draw, n, pattern, vkind):
    """Flat list of n values with the requested zero pattern."""
    if n == 0:
        return []
    if pattern == "none":
        return [0.0] * n
    if pattern == "all":
        return draw(st.lists(values(vkind, nonzero=True), min_size=n, max_size=n))
    if pattern == "one":
        pos = draw(st.integers(0, n - 1))
        v = draw(values(vkind, nonzero=True))
        out = [0.0] * n
        out[pos] = v
        return out
    # some: each cell zero with prob ~ 1/2 via sampled mask
    mask = draw(st.lists(st.booleans(), min_size=n, max_size=n))
    vals = draw(st.lists(values(vkind, nonzero=True), min_size=n, max_size=n))
    return [v if m else 0.0 for m, v in zip(mask, vals)]


def arr_F(shape: Sequence[int], data: Sequence[float]) -> np.ndarray:
    """Dense ndarray from a flat list in F order."""
    return np.reshape(np.array(data, dtype=float), tuple(shape), order="F") if len(shape) else np.array(data, dtype=float)


def build_tensor(case) -> ttb.tensor:
    """Dense tensor for a case dict.  ``case["prov"]`` (provenance) selects how the object comes into being:

    * absent / "ctor": the constructor (data always F-contiguous);
    * "grown": the same tensor reached through the documented growth path - construct it without the last index of one
      mode, then assign the missing slab by subscripts, which enlarges the tensor.  Growth leaves the object in a state
      no constructor produces (pyttb allocates the enlarged buffer in C order), and every operation must still treat
      it as the same tensor.  The state is produced through the public API only, never by poking attributes.
    """
    A = arr_F(case["shape"], case["data"])
    T = None
    if case.get("prov") == "grown":
        T = _grow_into(A)
    if T is None:
        T = ttb.tensor(A.copy(order="F"), tuple(case["shape"]))
    return T


def _grow_into(A: np.ndarray):
    """tensor equal to A built by growing a smaller tensor; None when no mode can be shortened or growth misbehaves
    (growth itself is judged by C04; users of this helper only need an object in the grown state)."""
    shape = A.shape
    cand = [m for m, s in enumerate(shape) if s >= 2]
    if not cand or A.size == 0:
        return None
    m = cand[-1]
    small = np.take(A, range(shape[m] - 1), axis=m)
    try:
        T = ttb.tensor(small.copy(order="F"), small.shape)
        subs = np.array([s for s in itertools.product(*[range(n) for n in shape]) if s[m] == shape[m] - 1], dtype=int)
        vals = np.array([A[tuple(s)] for s in subs], dtype=float)
        T[subs] = vals
    except Exception:  # noqa: BLE001
        return None
    if tuple(int(x) for x in T.shape) != shape or not np.array_equal(np.asarray(T.data), A):
        return None
    return T


def is_grown(T) -> bool:
    """label helper: True when the data buffer is not F-contiguous (the state growth leaves behind)"""
    d = np.asarray(T.data)
    return d.ndim >= 2 and not d.flags["F_CONTIGUOUS"]


# --------------------------------------------------------------------------
# sparse tensors: explicit subs / vals in a generated stored order
# --------------------------------------------------------------------------


@st.composite
def sparse_case(draw, tier="quick", kinds=("int", "float"), patterns=("none", "one", "some", "all"), **shape_kw):
    """dict(shape, subs=[[..]..], vals=[..], vkind, pattern, order) — subs distinct, vals nonzero,
    stored in a generated order (identity = F order / reverse / random)."""
    shape = draw(shapes(tier, **shape_kw))
    vkind = draw(st.sampled_from(list(kinds)))
    n = prod(shape)
    pattern = draw(st.sampled_from(list(patterns)))
    flat = _pattern_values(draw, n, pattern, vkind)
    from .ref import all_subs_F

    subsF = all_subs_F(shape)
    entries = [(list(s), v) for s, v in zip(subsF, flat) if v != 0.0]
    order = draw(st.sampled_from(["sorted", "reverse", "random"]))
    if order == "reverse":
        entries = entries[::-1]
    elif order == "random" and len(entries) > 1:
        p = draw(st.permutations(range(len(entries))))
        entries = [entries[i] for i in p]
    return dict(
        shape=shape,
        subs=[e[0] for e in entries],
        vals=[e[1] for e in entries],
        vkind=vkind,
        pattern=pattern,
        order=order,
    )


def build_sptensor(case) -> ttb.sptensor:
    shape = tuple(case["shape"])
    if len(case["subs"]) == 0:
        return ttb.sptensor(shape=shape)
    subs = np.array(case["subs"], dtype=int).reshape(len(case["subs"]), len(shape))
    vals = np.array(case["vals"], dtype=float).reshape(-1, 1)
    return ttb.sptensor(subs, vals, shape)


def dense_of_sparse_case(case) -> np.ndarray:
    A = np.zeros(tuple(case["shape"]))
    for s, v in zip(case["subs"], case["vals"]):
        A[tuple(s)] = v
    return A


def sparse_case_from_dense(A: np.ndarray, order_perm: Optional[Sequence[int]] = None) -> dict:
    from .ref import all_subs_F

    entries = [(list(s), float(A[s])) for s in all_subs_F(A.shape) if A[s] != 0]
    if order_perm is not None:
        entries = [entries[i] for i in order_perm]
    return dict(shape=list(A.shape), subs=[e[0] for e in entries], vals=[e[1] for e in entries])


# --------------------------------------------------------------------------
# Kruskal / Tucker
# --------------------------------------------------------------------------


@st.composite
def ktensor_case(draw, tier="quick", kinds=("int", "float"), min_order=1, max_order=None, max_rank=None,
                 shape=None, weights="any"):
    if shape is None:
        shape = draw(shapes(tier, min_order=min_order, max_order=max_order or (4 if tier == "quick" else 5)))
    vkind = draw(st.sampled_from(list(kinds)))
    r = draw(st.integers(1, max_rank or 4))
    if weights == "unit":
        w = [1.0] * r
    elif weights == "positive":
        w = draw(st.lists(values(vkind, nonzero=True).map(abs), min_size=r, max_size=r))
    else:
        w = draw(st.lists(values(vkind), min_size=r, max_size=r))
    factors = []
    for n in shape:
        f = draw(st.lists(st.lists(values(vkind), min_size=r, max_size=r), min_size=n, max_size=n))
        factors.append(f)
    zero_col = draw(st.booleans()) and draw(st.booleans())
    if zero_col:
        k = draw(st.integers(0, len(shape) - 1))
        c = draw(st.integers(0, r - 1))
        for row in factors[k]:
            row[c] = 0.0
    return dict(shape=list(shape), rank=r, weights=w, factors=factors, vkind=vkind)


def build_ktensor(case) -> ttb.ktensor:
    fm = [np.array(f, dtype=float).reshape(n, case["rank"]) for f, n in zip(case["factors"], case["shape"])]
    return ttb.ktensor(fm, np.array(case["weights"], dtype=float))


@st.composite
def ttensor_case(draw, tier="quick", kinds=("int", "float"), min_order=1, max_order=None, sparse_core=None):
    shape = draw(shapes(tier, min_order=min_order, max_order=max_order or (3 if tier == "quick" else 4)))
    vkind = draw(st.sampled_from(list(kinds)))
    cshape = [draw(st.integers(1, 3)) for _ in shape]
    n = prod(cshape)
    pattern = draw(st.sampled_from(["one", "some", "all", "all"]))
    core = _pattern_values(draw, n, pattern, vkind)
    factors = [
        draw(st.lists(st.lists(values(vkind), min_size=c, max_size=c), min_size=s, max_size=s))
        for s, c in zip(shape, cshape)
    ]
    sc = draw(st.booleans()) if sparse_core is None else sparse_core
    return dict(shape=list(shape), cshape=cshape, core=core, factors=factors, vkind=vkind, sparse_core=sc)


def build_ttensor(case) -> ttb.ttensor:
    core = arr_F(case["cshape"], case["core"])
    fm = [np.array(f, dtype=float).reshape(s, c) for f, s, c in zip(case["factors"], case["shape"], case["cshape"])]
    if case.get("sparse_core"):
        sc = sparse_case_from_dense(core)
        c = build_sptensor(sc)
    else:
        c = ttb.tensor(core.copy(order="F"), tuple(case["cshape"]))
    return ttb.ttensor(c, fm)


# --------------------------------------------------------------------------
# mode designations
# --------------------------------------------------------------------------


def all_orders(n: int):
    return [list(p) for p in itertools.permutations(range(n))]


def ordered_partitions(n: int):
    """All (rdims, cdims): every subset of modes as rows in every order, the rest as columns in every order."""
    out = []
    modes = list(range(n))
    for k in range(n + 1):
        for rset in itertools.combinations(modes, k):
            cset = [m for m in modes if m not in rset]
            for r in itertools.permutations(rset):
                for c in itertools.permutations(cset):
                    out.append((list(r), list(c)))
    return out


@st.composite
def ordered_partition(draw, n: int):
    modes = draw(st.permutations(range(n)))
    k = draw(st.integers(0, n))
    return list(modes[:k]), list(modes[k:])


@st.composite
def mode_subset(draw, n: int, min_size=1, max_size=None, ordered=True):
    max_size = n if max_size is None else max_size
    k = draw(st.integers(min_size, max_size))
    p = draw(st.permutations(range(n)))
    sel = list(p[:k])
    return sel if ordered else sorted(sel)


def is_involution(p: Sequence[int]) -> bool:
    return all(p[p[i]] == i for i in range(len(p)))


def vec(draw_or_none, n, vkind):  # helper for composite strategies
    return draw_or_none(st.lists(values(vkind), min_size=n, max_size=n))
