"""Core of the property-based checking framework (see DESIGN.md section 2).

A *property module* (vf/props/cNN.py) registers *cells*.  A cell is one
operation variant with its own generator (a Hypothesis strategy producing a
JSON-able ``case`` dict, or a finite enumeration), an oracle (the cell body)
and a non-triviality rule (the body sets ``ctx.nt``).

The driver runs every cell in *collect mode*: oracle failures are recorded as
signatures ``(cell, kind, detail)`` and generation goes on, so one shallow
defect does not hide the rest.  Signatures matched by an *open* entry of
``known_findings/<prop>.json`` are counted; every other signature is shrunk
with Hypothesis, written to ``replays/found/`` and reported as
``VIOLATION property=<id> replay=<path>``.
"""

from __future__ import annotations

import contextlib
import fnmatch
import hashlib
import importlib
import io
import json
import logging
import math
import os
import re
import sys
import time
import traceback
import warnings
import zlib
from collections import Counter
from dataclasses import dataclass, field
from typing import Any, Callable, Dict, List, Optional, Tuple

VERIF_DIR = os.path.dirname(os.path.dirname(os.path.abspath(__file__)))
REPO = os.path.abspath(os.environ.get("VERIF_REPO", "/repo"))
if REPO not in sys.path:
    sys.path.insert(0, REPO)

import numpy as np  # noqa: E402

import hypothesis  # noqa: E402
from hypothesis import HealthCheck, Phase, given, settings  # noqa: E402

import pyttb  # noqa: E402

_PYTTB_DIR = os.path.dirname(os.path.abspath(pyttb.__file__))


def sut_location_ok() -> bool:
    return _PYTTB_DIR.startswith(REPO + os.sep)


# --------------------------------------------------------------------------
# per-case context
# --------------------------------------------------------------------------


class Abort(Exception):
    """The case cannot continue (a violation was already recorded)."""


class Skip(Exception):
    """The generated case is outside the sound domain of the cell (counted)."""


def _sut_frame(tb) -> str:
    """Innermost traceback frame inside the pyttb package: 'file.py:function'."""
    best = "outside-pyttb"
    for fs in traceback.extract_tb(tb):
        fn = os.path.abspath(fs.filename)
        if fn.startswith(_PYTTB_DIR + os.sep):
            best = f"{os.path.relpath(fn, _PYTTB_DIR)}:{fs.name}"
    return best


class Ctx:
    def __init__(self, cell: "Cell", case: Any, tier: str):
        self.cell = cell
        self.case = case
        self.tier = tier
        self.violations: List[Tuple[str, str, str]] = []
        self.labels: List[str] = []
        self.nt: Optional[bool] = None
        self.harness_error: Optional[str] = None
        self.skipped: Optional[str] = None
        self.notes: Dict[str, Any] = {}

    # -- recording -------------------------------------------------------
    def fail(self, kind: str, detail: str, info: Any = "") -> None:
        self.violations.append((kind, str(detail), _short(info)))

    def check(self, cond: Any, clause: str, info: Any = "") -> bool:
        ok = bool(cond)
        if not ok:
            self.fail("mismatch", clause, info)
        return ok

    def require(self, cond: Any, clause: str, info: Any = "") -> None:
        """check(), and abort the case when it fails (later clauses need it)."""
        if not self.check(cond, clause, info):
            raise Abort()

    def label(self, *labels: str) -> None:
        self.labels.extend(str(x) for x in labels)

    def skip(self, why: str) -> None:
        raise Skip(why)

    # -- calling the code under test ------------------------------------
    @contextlib.contextmanager
    def sut(self, what: str):
        """Run code under test; an exception is a violation (value expected)."""
        try:
            yield
        except (Abort, Skip):
            raise
        except Exception as e:  # noqa: BLE001
            frame = _sut_frame(e.__traceback__)
            self.fail(
                "exception",
                f"{what}:{type(e).__name__}@{frame}",
                f"{type(e).__name__}: {e}",
            )
            raise Abort() from None

    def call(self, what: str, fn: Callable, *a, **k):
        with self.sut(what):
            return fn(*a, **k)

    def raises(self, what: str, fn: Callable, *a, **k) -> bool:
        """The property says this call must be rejected (C19)."""
        try:
            r = fn(*a, **k)
        except Exception:  # noqa: BLE001
            return True
        self.fail("no-exception", what, f"returned {type(r).__name__}: {_short(r)}")
        return False


def _short(x: Any, n: int = 400) -> str:
    try:
        s = x if isinstance(x, str) else repr(x)
    except Exception:  # noqa: BLE001
        s = "<unrepr>"
    s = s.replace("\n", " ")
    return s if len(s) <= n else s[: n - 3] + "..."


# --------------------------------------------------------------------------
# cells
# --------------------------------------------------------------------------


@dataclass
class Cell:
    name: str
    prop: str
    fn: Callable[[Ctx, Any], None]
    strategy: Optional[Callable[[str], Any]] = None  # tier -> hypothesis strategy
    enum: Optional[Callable[[str], Any]] = None  # tier -> iterable of cases
    quick: int = 200
    thorough: int = 4000
    shards: Tuple[int, int] = (1, 4)
    doc: str = ""

    def budget(self, tier: str) -> int:
        return self.quick if tier == "quick" else self.thorough

    def nshards(self, tier: str) -> int:
        return self.shards[0] if tier == "quick" else self.shards[1]


CELLS: Dict[str, Cell] = {}


def cell(
    name: str,
    strategy: Optional[Callable[[str], Any]] = None,
    enum: Optional[Callable[[str], Any]] = None,
    quick: int = 200,
    thorough: int = 4000,
    shards: Tuple[int, int] = (1, 4),
):
    """Register a cell.  ``name`` starts with the property id: 'C07/permute/tensor'."""

    def deco(fn):
        assert name not in CELLS, f"duplicate cell {name}"
        assert (strategy is None) != (enum is None), name
        CELLS[name] = Cell(
            name=name,
            prop=name.split("/")[0],
            fn=fn,
            strategy=strategy,
            enum=enum,
            quick=quick,
            thorough=thorough,
            shards=shards,
            doc=(fn.__doc__ or "").strip(),
        )
        return fn

    return deco


def canon(case: Any) -> str:
    return json.dumps(case, sort_keys=True, separators=(",", ":"), default=_json_default)


def _json_default(o):
    if isinstance(o, (np.integer,)):
        return int(o)
    if isinstance(o, (np.floating,)):
        return float(o)
    if isinstance(o, np.bool_):
        return bool(o)
    if isinstance(o, np.ndarray):
        return o.tolist()
    if isinstance(o, (set, frozenset)):
        return sorted(o)
    if isinstance(o, tuple):
        return list(o)
    raise TypeError(f"not JSON-able: {type(o)}")


def case_hash(case: Any) -> bytes:
    return hashlib.blake2b(canon(case).encode(), digest_size=8).digest()


def evaluate(c: Cell, case: Any, tier: str) -> Ctx:
    """Run the cell body on one case; never raises."""
    ctx = Ctx(c, case, tier)
    out = io.StringIO()
    logging.disable(logging.WARNING)  # pyttb logs a warning for every copy=False it cannot honour
    try:
        with warnings.catch_warnings(), np.errstate(all="ignore"), contextlib.redirect_stdout(out):
            warnings.simplefilter("ignore")
            c.fn(ctx, case)
    except Abort:
        pass
    except Skip as s:
        ctx.skipped = str(s) or "skip"
    except Exception:  # noqa: BLE001
        ctx.harness_error = traceback.format_exc(limit=12)
    return ctx


# --------------------------------------------------------------------------
# known findings
# --------------------------------------------------------------------------


@dataclass
class Finding:
    id: str
    property: str
    status: str  # open | fixed
    line: str
    cell: str = "*"
    kind: str = "*"
    detail: str = ".*"
    predicate: Optional[str] = None
    replay: Optional[str] = None
    commit: Optional[str] = None
    extra_matchers: List[Dict[str, str]] = field(default_factory=list)

    def matches(self, cell_name: str, kind: str, detail: str, case: Any, preds) -> bool:
        if self.status != "open":
            return False
        alts = [dict(cell=self.cell, kind=self.kind, detail=self.detail, predicate=self.predicate)]
        alts += self.extra_matchers
        for m in alts:
            if not fnmatch.fnmatchcase(cell_name, m.get("cell", "*")):
                continue
            if m.get("kind", "*") != "*" and m.get("kind") != kind:
                continue
            if not re.search(m.get("detail", ".*"), detail):
                continue
            p = m.get("predicate")
            if p:
                f = preds.get(p)
                if f is None:
                    continue
                try:
                    if not f(case):
                        continue
                except Exception:  # noqa: BLE001
                    continue
            return True
        return False


def load_findings(prop: str) -> List[Finding]:
    path = os.path.join(VERIF_DIR, "known_findings", f"{prop}.json")
    if not os.path.exists(path):
        return []
    with open(path) as f:
        raw = json.load(f)
    out = []
    for e in raw:
        e = dict(e)
        e.pop("comment", None)
        out.append(Finding(**e))
    return out


# --------------------------------------------------------------------------
# running one (cell, shard)
# --------------------------------------------------------------------------


def derive_seed(seed: int, cell_name: str, shard: int) -> int:
    return (zlib.crc32(cell_name.encode()) ^ (seed * 2654435761) ^ (shard * 97003)) & 0xFFFFFFFF


def _settings(n: int, phases) -> settings:
    return settings(
        max_examples=max(1, n),
        database=None,
        deadline=None,
        derandomize=False,
        report_multiple_bugs=False,
        phases=phases,
        suppress_health_check=list(HealthCheck),
        print_blob=False,
        verbosity=hypothesis.Verbosity.quiet,
    )


def _load(prop: str):
    return importlib.import_module(f"vf.props.{prop.lower()}")


def run_task(task: Dict[str, Any]) -> Dict[str, Any]:
    """Collect-mode run of one cell shard.  Executed in a worker process."""
    prop, name, tier = task["prop"], task["cell"], task["tier"]
    seed, shard, nshards = task["seed"], task["shard"], task["nshards"]
    budget_s = task.get("budget_s", 1e9)
    mod = _load(prop)
    c = CELLS[name]
    findings = load_findings(prop)
    preds = getattr(mod, "PREDICATES", {})
    res: Dict[str, Any] = dict(
        cell=name,
        shard=shard,
        evaluations=0,
        skipped=0,
        nt_hashes=set(),
        all_hashes=set(),
        labels=Counter(),
        sigs={},  # (kind, detail) -> dict(count, case, info)
        samples=[],
        harness_errors=[],
        over_budget=False,
        exhaustive=False,
        wall=0.0,
    )
    t0 = time.time()

    def one(case):
        if time.time() - t0 > budget_s:
            res["over_budget"] = True
            return
        ctx = evaluate(c, case, tier)
        if ctx.skipped is not None:
            res["skipped"] += 1
            res["labels"]["skipped:" + ctx.skipped] += 1
            return
        res["evaluations"] += 1
        h = case_hash(case)
        res["all_hashes"].add(h)
        for lab in ctx.labels:
            res["labels"][lab] += 1
        if ctx.harness_error is not None:
            if len(res["harness_errors"]) < 3:
                res["harness_errors"].append(dict(case=case, tb=ctx.harness_error))
            else:
                res["harness_errors"].append(None)
            return
        if ctx.nt:
            if h not in res["nt_hashes"]:
                res["nt_hashes"].add(h)
                if len(res["samples"]) < 3:
                    res["samples"].append(case)
        seen = set()
        for kind, detail, info in ctx.violations:
            key = (kind, detail)
            if key in seen:
                continue
            seen.add(key)
            e = res["sigs"].get(key)
            if e is None:
                e = res["sigs"][key] = dict(count=0, known={}, unknown=0, case=None, info=None, size=None)
            e["count"] += 1
            # every case is classified here, against the open known findings and their predicates
            hit = None
            for f in findings:
                if f.matches(name, kind, detail, case, preds):
                    hit = f.id
                    break
            if hit is not None:
                e["known"][hit] = e["known"].get(hit, 0) + 1
                continue
            e["unknown"] += 1
            size = len(canon(case))
            if e["size"] is None or size < e["size"]:
                e.update(case=case, info=info, size=size)

    if c.enum is not None:
        cases = c.enum(tier)
        n = 0
        for i, case in enumerate(cases):
            if i % nshards != shard:
                continue
            one(case)
            n += 1
        res["exhaustive"] = not res["over_budget"]
    else:
        n = max(1, c.budget(tier) // nshards)
        strat = c.strategy(tier)

        @hypothesis.seed(derive_seed(seed, name, shard))
        @_settings(n, [Phase.generate])
        @given(strat)
        def t(case):
            one(case)

        try:
            t()
        except Exception:  # noqa: BLE001  (generator failure = harness error)
            res["harness_errors"].append(dict(case=None, tb=traceback.format_exc(limit=12)))
    if not res["samples"] and res["evaluations"]:
        pass
    res["wall"] = time.time() - t0
    return res


def run_shrink(task: Dict[str, Any]) -> Optional[Any]:
    """Find and shrink a case showing signature (kind, detail).  Worker process."""
    prop, name, tier = task["prop"], task["cell"], task["tier"]
    seed, shard, nshards = task["seed"], task["shard"], task["nshards"]
    kind, detail = task["sig"]
    cap = task.get("cap_s", 60)
    _load(prop)
    c = CELLS[name]
    if c.enum is not None:
        return None
    import hypothesis.internal.conjecture.engine as eng

    eng.MAX_SHRINKING_SECONDS = cap
    n = max(1, c.budget(tier) // nshards)
    last = {"case": None}

    class Found(Exception):
        pass

    @hypothesis.seed(derive_seed(seed, name, shard))
    @_settings(n, [Phase.generate, Phase.shrink])
    @given(c.strategy(tier))
    def t(case):
        ctx = evaluate(c, case, tier)
        if any(k == kind and d == detail for k, d, _ in ctx.violations):
            last["case"] = case
            raise Found()

    try:
        t()
    except Found:
        pass
    except Exception:  # noqa: BLE001
        pass
    return last["case"]


def nan_to_str(o):
    """JSON writer helper: evidence must be strict JSON."""
    if isinstance(o, float) and (math.isnan(o) or math.isinf(o)):
        return repr(o)
    if isinstance(o, dict):
        return {str(k): nan_to_str(v) for k, v in o.items()}
    if isinstance(o, (list, tuple)):
        return [nan_to_str(v) for v in o]
    if isinstance(o, (np.integer,)):
        return int(o)
    if isinstance(o, (np.floating,)):
        return nan_to_str(float(o))
    if isinstance(o, np.ndarray):
        return nan_to_str(o.tolist())
    return o
