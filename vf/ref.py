"""Reference semantics in plain NumPy — independent of the methods under test.

``den(x)``: the N-way float64 array an object denotes.  Nothing in here calls
a pyttb method; only the public *attributes* that define each class's state
are read (data/shape, subs/vals/shape, weights/factor_matrices, core/factors,
parts, rindices/cindices/tshape).
"""

from __future__ import annotations

import itertools
from typing import Iterable, List, Sequence, Tuple

import numpy as np

import pyttb as ttb

EPS = np.finfo(float).eps


# --------------------------------------------------------------------------
# index arithmetic (my own; first index fastest)
# --------------------------------------------------------------------------


def lin_index(sub: Sequence[int], shape: Sequence[int]) -> int:
    idx, mult = 0, 1
    for s, n in zip(sub, shape):
        idx += int(s) * mult
        mult *= int(n)
    return idx


def all_subs_F(shape: Sequence[int]) -> List[Tuple[int, ...]]:
    """All subscripts of ``shape`` with the first index varying fastest."""
    if len(shape) == 0:
        return [()]
    rev = itertools.product(*[range(n) for n in reversed(shape)])
    return [tuple(reversed(r)) for r in rev]


def prod(xs: Iterable[int]) -> int:
    p = 1
    for x in xs:
        p *= int(x)
    return p


# --------------------------------------------------------------------------
# well-formedness of sparse objects
# --------------------------------------------------------------------------


def sptensor_problems(S, allow_explicit_zero: bool = False) -> List[str]:
    """List of ways in which ``S`` is not a well-formed sptensor ([] if none)."""
    out: List[str] = []
    if not isinstance(S, ttb.sptensor):
        return [f"not-sptensor:{type(S).__name__}"]
    shape = tuple(S.shape)
    if not all(isinstance(n, (int, np.integer)) for n in shape):
        out.append("shape-not-int")
    subs, vals = S.subs, S.vals
    if not isinstance(subs, np.ndarray) or not isinstance(vals, np.ndarray):
        return out + ["subs/vals-not-ndarray"]
    n = 0 if subs.size == 0 else subs.shape[0]
    nv = 0 if vals.size == 0 else vals.shape[0]
    if subs.size and subs.ndim != 2:
        out.append(f"subs-ndim-{subs.ndim}")
        return out
    if vals.size and (vals.ndim != 2 or vals.shape[1] != 1):
        out.append(f"vals-shape-{vals.shape}")
    if n != nv or (vals.size != nv):
        out.append(f"one-value-per-subscript:{n}-subs-{vals.size}-vals")
    if subs.size:
        if not np.issubdtype(subs.dtype, np.integer):
            out.append(f"subs-dtype-{subs.dtype}")
        if subs.shape[1] != len(shape):
            out.append(f"subs-width-{subs.shape[1]}-vs-order-{len(shape)}")
        else:
            if (subs < 0).any() or (subs >= np.array(shape)[None, :]).any():
                out.append("subs-out-of-shape")
            if len({tuple(int(v) for v in r) for r in subs}) != n:
                out.append("duplicate-subscripts")
    try:
        if S.nnz != n:
            out.append(f"nnz-{S.nnz}-vs-stored-{n}")
    except Exception as e:  # noqa: BLE001
        out.append(f"nnz-raises-{type(e).__name__}")
    if not allow_explicit_zero and vals.size and (vals == 0).any():
        out.append("explicit-zero-stored")
    return out


# --------------------------------------------------------------------------
# den
# --------------------------------------------------------------------------


def den_sptensor(S) -> np.ndarray:
    shape = tuple(int(n) for n in S.shape)
    A = np.zeros(shape, dtype=float)
    if S.subs.size == 0:
        return A
    vals = np.asarray(S.vals).reshape(-1)
    for r, v in zip(np.asarray(S.subs), vals):
        A[tuple(int(i) for i in r)] += v
    return A


def den_ktensor(K) -> np.ndarray:
    return den_kruskal(K.weights, K.factor_matrices)


def den_kruskal(weights, factors) -> np.ndarray:
    n = len(factors)
    letters = "abcdefghij"[:n]
    spec = "r," + ",".join(f"{c}r" for c in letters) + "->" + letters
    return np.einsum(spec, np.asarray(weights, dtype=float), *[np.asarray(f, dtype=float) for f in factors])


def abs_kruskal(weights, factors) -> np.ndarray:
    return den_kruskal(np.abs(weights), [np.abs(f) for f in factors])


def den_tucker(core: np.ndarray, factors) -> np.ndarray:
    n = len(factors)
    cl = "abcdefghij"[:n]
    ol = "klmnopqrst"[:n]
    spec = cl + "," + ",".join(f"{o}{c}" for o, c in zip(ol, cl)) + "->" + ol
    return np.einsum(spec, np.asarray(core, dtype=float), *[np.asarray(f, dtype=float) for f in factors])


def matricize(A: np.ndarray, rdims: Sequence[int], cdims: Sequence[int]) -> np.ndarray:
    """Index formula: row = sum_k s[rdims[k]] * prod_{j<k} shape[rdims[j]]; same for columns."""
    shape = A.shape
    nr = prod(shape[d] for d in rdims)
    nc = prod(shape[d] for d in cdims)
    M = np.zeros((nr, nc), dtype=A.dtype)
    for s in itertools.product(*[range(n) for n in shape]):
        r = lin_index([s[d] for d in rdims], [shape[d] for d in rdims])
        c = lin_index([s[d] for d in cdims], [shape[d] for d in cdims])
        M[r, c] = A[s]
    return M


def unmatricize(M: np.ndarray, rdims, cdims, tshape) -> np.ndarray:
    tshape = tuple(int(n) for n in tshape)
    A = np.zeros(tshape, dtype=float)
    for s in itertools.product(*[range(n) for n in tshape]):
        r = lin_index([s[d] for d in rdims], [tshape[d] for d in rdims])
        c = lin_index([s[d] for d in cdims], [tshape[d] for d in cdims])
        A[s] = M[r, c]
    return A


def den(x) -> np.ndarray:
    if isinstance(x, ttb.tensor):
        A = np.asarray(x.data)
        return np.array(A, dtype=float) if A.dtype != bool else A.astype(float)
    if isinstance(x, ttb.sptensor):
        return den_sptensor(x)
    if isinstance(x, ttb.ktensor):
        return den_ktensor(x)
    if isinstance(x, ttb.ttensor):
        return den_tucker(den(x.core), x.factor_matrices)
    if isinstance(x, ttb.sumtensor):
        return sum(den(p) for p in x.parts)
    if isinstance(x, ttb.tenmat):
        return unmatricize(np.asarray(x.data, dtype=float), list(x.rindices), list(x.cindices), x.tshape)
    if isinstance(x, ttb.sptenmat):
        shape2 = (
            prod(x.tshape[d] for d in x.rdims),
            prod(x.tshape[d] for d in x.cdims),
        )
        M = np.zeros(shape2)
        if x.subs.size:
            for r, v in zip(x.subs, np.asarray(x.vals).reshape(-1)):
                M[int(r[0]), int(r[1])] += v
        return unmatricize(M, list(x.rdims), list(x.cdims), x.tshape)
    if isinstance(x, np.ndarray):
        return np.array(x, dtype=float)
    if isinstance(x, (int, float, np.integer, np.floating, bool, np.bool_)):
        return np.array(float(x))
    raise TypeError(f"den: unsupported {type(x)}")


# --------------------------------------------------------------------------
# comparisons
# --------------------------------------------------------------------------


def same_exact(a: np.ndarray, b: np.ndarray) -> bool:
    """Shape equal and every entry equal (NaN == NaN, -0.0 == 0.0)."""
    a, b = np.asarray(a), np.asarray(b)
    if a.shape != b.shape:
        return False
    if a.size == 0:
        return True
    a = a.astype(float)
    b = b.astype(float)
    with np.errstate(all="ignore"):
        return bool(np.all((a == b) | (np.isnan(a) & np.isnan(b))))


def same_bound(got: np.ndarray, ref: np.ndarray, absref: np.ndarray, nterms: int, factor: float = 64.0) -> bool:
    """Rigorous forward-error style bound: |got-ref| <= factor*n*eps*B (B from absolute values)."""
    got, ref = np.asarray(got, dtype=float), np.asarray(ref, dtype=float)
    if got.shape != ref.shape:
        return False
    if got.size == 0:
        return True
    tol = factor * max(1, nterms) * EPS * np.asarray(absref, dtype=float) + 1e-290
    with np.errstate(all="ignore"):
        d = np.abs(got - ref)
    return bool(np.all((d <= tol) | (got == ref)))


def is_intvalued(*arrays) -> bool:
    for a in arrays:
        a = np.asarray(a, dtype=float)
        if a.size and not np.all(a == np.round(a)):
            return False
    return True


def diff_info(got, ref) -> str:
    got, ref = np.asarray(got), np.asarray(ref)
    if got.shape != ref.shape:
        return f"shape {got.shape} vs {ref.shape}"
    with np.errstate(all="ignore"):
        bad = ~((got == ref) | (np.isnan(got.astype(float)) & np.isnan(ref.astype(float))))
    idx = np.argwhere(bad)
    if len(idx) == 0:
        return "equal"
    i = tuple(int(v) for v in idx[0])
    return f"{len(idx)} entries differ; first at {i}: got {got[i]!r} ref {ref[i]!r}"
