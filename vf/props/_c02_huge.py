"""C02 cells, round 3 class 7 (second half): sparse tensors whose mode lengths exceed what float64 and int64 hold.

A sparse tensor with a handful of stored nonzeros may have modes of length 2**53 + k (indices that do not survive a
round trip through float64), 2**60, or several modes whose lengths multiply to more than 2**63 (linear indices and
"number of cells" that overflow int64).  The constructor accepts such shapes, so the kernels that do not need one
multiplicand entry per index of a huge mode are defined on them: norm, innerprod with another sparse tensor, ttv over
the *small* modes, collapse over any modes, contract of two equal (huge) modes, scale along a small mode, mask by a
sparse tensor.  (ttm and mttkrp matricise the tensor against a dense matrix with one column per cell of the other
modes - documented design - and are left out.)

Oracle: the defining sums evaluated on the *dictionary* {subscript tuple: value} the case denotes (Python integers, no
float index arithmetic); data are small integers, so every comparison is exact.  A result handed back sparse is read
through its stored list, a dense one (only possible when every remaining mode is small) cell by cell.
"""

from __future__ import annotations

import itertools

import numpy as np
from hypothesis import strategies as st

import pyttb as ttb

from .. import ref
from ..core import cell
from . import _c02_common as cm

HUGE = (2**53 + 7, 2**53 + 1, 2**60, 2**40, 2**33, 2**32 + 1, 2**31 + 3, 2**62)
OPS = ("norm", "innerprod", "ttv", "ttv", "collapse", "collapse", "contract", "scale", "mask")


@st.composite
def _index(draw, n):
    """an index of a mode of length n: the ends, neighbours that collide in float64, or anything"""
    if n <= 8:
        return draw(st.integers(0, n - 1))
    cands = [0, 1, 5, n - 1, n - 2, n - 3, n // 2]
    if n > 2**53 + 2:
        cands += [2**53, 2**53 + 1, 2**53 + 2]
    if n > 2**32 + 1:
        cands += [2**31, 2**32, 2**32 + 1]
    return draw(st.one_of(st.sampled_from(cands), st.integers(0, n - 1)))


def _single_huge_rest(shape, sel):
    """[m] if exactly one mode m is left over by ``sel`` and it is a huge one, else []"""
    rem = [m for m in range(len(shape)) if m not in sel]
    return rem if len(rem) == 1 and shape[rem[0]] > 8 else []


@st.composite
def _strategy(draw, tier):
    op = draw(st.sampled_from(OPS))
    N = draw(st.integers(3 if op == "ttv" else 2, 4))
    kinds = [draw(st.sampled_from(["small", "small", "huge"])) for _ in range(N)]
    if "huge" not in kinds:
        kinds[draw(st.integers(0, N - 1))] = "huge"
    if "small" not in kinds and op in ("ttv", "scale"):
        kinds[draw(st.integers(0, N - 1))] = "small"
    shape = [draw(st.integers(1, 4)) if k == "small" else draw(st.sampled_from(HUGE)) for k in kinds]
    case = dict(op=op)
    if op == "contract":
        i, j = sorted(draw(st.permutations(range(N)))[:2])
        shape[j] = shape[i]
        if draw(st.booleans()):
            i, j = j, i
        case.update(i=i, j=j)
    nnz = draw(st.integers(1, 7))
    rows = []
    for _ in range(nnz):
        row = [draw(_index(s)) for s in shape]
        if op == "contract":
            # on the diagonal of the contracted pair, next to it (indices that differ by one: equal as float64 beyond
            # 2**53, "close" for any relative tolerance), or anywhere
            where = draw(st.sampled_from(["diagonal", "diagonal", "next", "next", "anywhere"]))
            if where == "diagonal":
                row[case["j"]] = row[case["i"]]
            elif where == "next" and shape[case["i"]] >= 2:
                row[case["j"]] = row[case["i"]] - 1 if row[case["i"]] >= 1 else row[case["i"]] + 1
        rows.append(row)
    rows = [list(r) for r in dict.fromkeys(tuple(r) for r in rows)]
    vals = [draw(cm.gen.values("int", nonzero=True)) for _ in rows]
    case.update(shape=shape, subs=rows, vals=vals, npshape=draw(st.booleans()))
    small = [m for m in range(N) if shape[m] <= 8]
    if op == "innerprod":
        k = draw(st.integers(0, len(rows)))
        other = [list(r) for r in draw(st.permutations(rows))[:k]]
        for _ in range(draw(st.integers(0, 3))):
            other.append([draw(_index(s)) for s in shape])
        other = [list(r) for r in dict.fromkeys(tuple(r) for r in other)]
        case.update(osubs=other, ovals=[draw(cm.gen.values("int", nonzero=True)) for _ in other])
    elif op == "ttv":
        k = draw(st.integers(1, len(small)))
        sel = list(draw(st.permutations(small)))[:k]
        # a result with exactly one mode is accumulated in a dense vector of that mode's length (documented algorithm):
        # such a mode must be small; two or more remaining modes are accumulated sparsely
        while len(sel) > 1 and len(_single_huge_rest(shape, sel)):
            sel.pop()
        if _single_huge_rest(shape, sel):
            sel = [m for m in small if m not in sel][:1] or sel
        if _single_huge_rest(shape, sel):
            case["op"] = op = "norm"
    if op == "ttv":
        case.update(sel=sel, vecs=[[draw(cm.gen.values("int")) for _ in range(shape[m])] for m in sel],
                    form=draw(st.sampled_from(["dims", "dims", "excl", "int"] if len(sel) == 1 else ["dims", "dims", "excl"])))
    elif op == "collapse":
        k = draw(st.integers(1, N))
        dims = list(draw(st.permutations(range(N))))[:k]
        dims += _single_huge_rest(shape, dims)  # (see ttv: a one-mode result is accumulated densely)
        case.update(dims=dims)
    elif op == "scale":
        m = draw(st.sampled_from(small))
        case.update(mode=m, factor=[draw(cm.gen.values("int")) for _ in range(shape[m])],
                    fkind=draw(st.sampled_from(["ndarray", "tensor", "sptensor"])))
    elif op == "mask":
        k = draw(st.integers(0, len(rows)))
        w = [list(r) for r in draw(st.permutations(rows))[:k]]
        for _ in range(draw(st.integers(0, 3))):
            w.append([draw(_index(s)) for s in shape])
        case.update(wsubs=[list(r) for r in dict.fromkeys(tuple(r) for r in w)])
    return case


def _sptensor(subs, vals, shape, npshape=False):
    shp = tuple(np.int64(n) for n in shape) if npshape else tuple(int(n) for n in shape)
    if not subs:
        return ttb.sptensor(shape=shp)
    return ttb.sptensor(np.array(subs, dtype=np.int64).reshape(len(subs), len(shape)),
                        np.array(vals, dtype=float).reshape(-1, 1), shp)


def _as_dict(ctx, R, clause, shape):
    """{subscript tuple: value} (zeros dropped) of whatever came back, checked for the expected shape first"""
    shape = tuple(int(s) for s in shape)
    if isinstance(R, ttb.sptensor):
        ctx.require(tuple(int(s) for s in R.shape) == shape, clause + "-shape", f"{R.shape} vs {shape}")
        out = {}
        if R.subs.size:
            ctx.require(R.subs.ndim == 2 and R.subs.shape[1] == len(shape) and R.subs.shape[0] == R.vals.shape[0],
                        clause + "-wellformed", f"subs {R.subs.shape} vals {R.vals.shape}")
            ctx.require(np.issubdtype(R.subs.dtype, np.integer), clause + "-wellformed", f"subs dtype {R.subs.dtype}")
            for s, v in zip(R.subs.tolist(), np.asarray(R.vals).reshape(-1).tolist()):
                t = tuple(int(i) for i in s)
                ctx.require(all(0 <= i < n for i, n in zip(t, shape)), clause + "-wellformed", f"subscript {t} outside {shape}")
                ctx.require(t not in out, clause + "-wellformed", f"subscript {t} stored twice")
                out[t] = float(v)
        return {k: v for k, v in out.items() if v != 0}
    if isinstance(R, ttb.tensor):
        R = R.data
    if isinstance(R, np.ndarray):
        # (never walk through a dense result of the size of a huge mode)
        ctx.require(R.size <= 10**6, clause + "-dense-of-huge-size", f"dense result with {R.size} cells")
    if isinstance(R, cm.SCALAR_TYPES) and not shape:
        return {(): float(R)} if float(R) != 0 else {}
    ctx.require(isinstance(R, np.ndarray), clause + "-type", type(R).__name__)
    A = np.asarray(R, dtype=float)
    if A.shape != shape and A.size == ref.prod(shape):
        A = A.reshape(shape, order="F")
    ctx.require(A.shape == shape, clause + "-shape", f"{A.shape} vs {shape}")
    return {tuple(int(i) for i in idx): float(A[tuple(idx)]) for idx in np.argwhere(A != 0)}


@cell("C02/hugemodes/sptensor", strategy=_strategy, quick=600, thorough=5000, shards=(2, 8))
def hugemodes(ctx, case):
    """sparse tensors with modes longer than 2**53 / cell counts beyond 2**63: dictionary semantics, exact"""
    op, shape = case["op"], [int(s) for s in case["shape"]]
    N = len(shape)
    D = {tuple(s): float(v) for s, v in zip(case["subs"], case["vals"])}
    X = _sptensor(case["subs"], case["vals"], shape, case.get("npshape"))
    cells = ref.prod(shape)
    ctx.label("op-" + op, f"order{N}", "cells>=2**63" if cells >= 2**63 else ("cells>=2**53" if cells >= 2**53 else "cells<2**53"),
              "mode>2**53" if max(shape) > 2**53 else "mode<=2**53", "numpy-int-shape" if case.get("npshape") else "int-shape",
              f"nhuge{sum(1 for s in shape if s > 8)}")
    ctx.nt = len(D) >= 2
    if op == "norm":
        with ctx.sut("sptensor.norm"):
            r = X.norm()
        ctx.require(isinstance(r, cm.SCALAR_TYPES), "norm-returns-scalar", type(r).__name__)
        S = sum(v * v for v in D.values())
        ctx.check(abs(float(r) - np.sqrt(S)) <= 4 * ref.EPS * np.sqrt(S), "norm-value", f"{r!r} vs sqrt({S})")
        return
    if op == "innerprod":
        E = {tuple(s): float(v) for s, v in zip(case["osubs"], case["ovals"])}
        Y = _sptensor(case["osubs"], case["ovals"], shape)
        ctx.label("common%d" % min(2, len(set(D) & set(E))))
        with ctx.sut("sptensor.innerprod(sptensor)"):
            r = X.innerprod(Y)
        ctx.require(isinstance(r, cm.SCALAR_TYPES), "innerprod-returns-scalar", type(r).__name__)
        ctx.check(float(r) == sum(v * E[k] for k, v in D.items() if k in E), "innerprod-value",
                  f"{r!r} vs {sum(v * E[k] for k, v in D.items() if k in E)}")
        return
    if op == "ttv":
        sel, vecs = case["sel"], {m: v for m, v in zip(case["sel"], case["vecs"])}
        rem = [m for m in range(N) if m not in sel]
        expect = {}
        for k, v in D.items():
            for m in sel:
                v = v * vecs[m][k[m]]
            t = tuple(k[m] for m in rem)
            expect[t] = expect.get(t, 0.0) + v
        arrs = [np.array(vecs[m], dtype=float) for m in sel]
        remcells = ref.prod(shape[m] for m in rem)
        ctx.label("result-cells>=2**63" if remcells >= 2**63 else "result-cells<2**63", "form-" + case["form"])
        with ctx.sut("sptensor.ttv"):
            if case["form"] == "int":
                R = X.ttv(arrs[0], int(sel[0]))
            elif case["form"] == "dims":
                R = X.ttv(arrs, dims=np.array(sel, dtype=int))
            else:
                R = X.ttv([np.array(vecs[m], dtype=float) for m in sorted(sel)], exclude_dims=np.array(rem, dtype=int))
        ctx.label(cm.result_kind(R))
        got = _as_dict(ctx, R, "ttv-result", [shape[m] for m in rem])
        ctx.check(got == {k: v for k, v in expect.items() if v != 0}, "ttv-value", f"got {got} expected {expect}")
        return
    if op == "collapse":
        dims = case["dims"]
        rem = [m for m in range(N) if m not in dims]
        expect = {}
        for k, v in D.items():
            t = tuple(k[m] for m in rem)
            expect[t] = expect.get(t, 0.0) + v
        ctx.label(f"remaining{len(rem)}", "result-cells>=2**63" if ref.prod(shape[m] for m in rem) >= 2**63 else "result-cells<2**63")
        with ctx.sut("sptensor.collapse"):
            R = X.collapse(np.array(dims, dtype=int))
        ctx.label(cm.result_kind(R))
        got = _as_dict(ctx, R, "collapse-result", [shape[m] for m in rem])
        ctx.check(got == {k: v for k, v in expect.items() if v != 0}, "collapse-value", f"got {got} expected {expect}")
        return
    if op == "contract":
        i, j = case["i"], case["j"]
        rem = [m for m in range(N) if m not in (i, j)]
        expect = {}
        for k, v in D.items():
            if k[i] == k[j]:
                t = tuple(k[m] for m in rem)
                expect[t] = expect.get(t, 0.0) + v
        ctx.label("diagonal-hit" if expect else "diagonal-missed")
        with ctx.sut("sptensor.contract"):
            R = X.contract(i, j)
        ctx.label(cm.result_kind(R))
        got = _as_dict(ctx, R, "contract-result", [shape[m] for m in rem])
        ctx.check(got == {k: v for k, v in expect.items() if v != 0}, "contract-value", f"got {got} expected {expect}")
        return
    if op == "scale":
        m, f = case["mode"], [float(x) for x in case["factor"]]
        expect = {k: v * f[k[m]] for k, v in D.items()}
        F = np.array(f, dtype=float)
        if case["fkind"] == "tensor":
            factor = ttb.tensor(F.copy(), (len(f),))
        elif case["fkind"] == "sptensor":
            nz = [[i] for i, x in enumerate(f) if x != 0]
            factor = _sptensor(nz, [f[i[0]] for i in nz], [len(f)])
        else:
            factor = F
        ctx.label("factor-" + case["fkind"])
        with ctx.sut(f"sptensor.scale({case['fkind']})"):
            R = X.scale(factor, int(m))
        got = _as_dict(ctx, R, "scale-result", shape)
        ctx.check(got == {k: v for k, v in expect.items() if v != 0}, "scale-value", f"got {got} expected {expect}")
        return
    if op == "mask":
        W = _sptensor(case["wsubs"], [1.0] * len(case["wsubs"]), shape)
        expect = [D.get(tuple(s), 0.0) for s in case["wsubs"]]
        ctx.label("hits%d" % min(2, sum(1 for x in expect if x != 0)))
        with ctx.sut("sptensor.mask(sptensor)"):
            R = X.mask(W)
        ctx.require(isinstance(R, np.ndarray) and R.size == len(expect), "mask-one-value-per-one-of-W",
                    f"{type(R).__name__} {getattr(R, 'shape', None)} for {len(expect)} ones")
        ctx.check(np.asarray(R, dtype=float).reshape(-1).tolist() == expect, "mask-value",
                  f"got {np.asarray(R).reshape(-1).tolist()} expected {expect}")
        return
    raise ValueError(op)
