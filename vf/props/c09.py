"""C09 — CP-ALS returns a model consistent with everything it reports."""

from __future__ import annotations

import itertools

import numpy as np
from hypothesis import strategies as st

import pyttb as ttb

from .. import ref
from ..core import Abort, cell
from . import _c09_helpers as H

PROPERTY = "C09"
RULE = (
    "cases = (shape N in 2..4 [thorough 2..5], sizes >= R [size 1 only with R = 1], rank R in 1..3, data = rank-R' Kruskal "
    "model + relative noise held as tensor / sptensor (masked, stored order permuted) / ttensor / sumtensor(tensor + "
    "ktensor [+ sptensor]), guess in {given normal, given uniform, 'random' under np_seed, 'nvecs'}, dimorder any "
    "permutation or default, optdims any non-empty subset or default, maxiters, stoptol in {0,1e-4,1e-2,0.5}, fixsigns, "
    "printitn 0..3) drawn by Hypothesis (bulk numbers expanded from drawn integer seeds); one enumerated cell runs every "
    "(dimorder, optdims) pair for N = 3 (thorough: also N = 4).  Cases whose unfoldings have sigma_R/sigma_1 < 1e-6 are "
    "skipped (outside the quantifier).  Oracle: NumPy on the dense array the data denotes (residual, fit, normal "
    "equations of the last-updated mode, least-squares step of every recorded mttkrp request), runs truncated at "
    "k = 1..maxiters from the returned guess, stdout parsing, bit-level snapshots of data and guess, and a duck-typed "
    "recorder around the data.  Non-trivial: R >= 2, N >= 3 and a non-identity effective mode order.  "
    "Round 2 classes: (1) derived states - dense data reached by growth / permute / C-ordered input / sptensor.to_tensor / "
    "arithmetic, sparse data with explicitly stored zeros, numpy.int64 shape entries, from tensor.to_sptensor or arithmetic, "
    "guess = model returned by an earlier cp_als call; (2) integer-valued data held in int8/16/32/64, uint8/16 (tensor and "
    "sptensor; float32 is left out: the bounds are float64 rounding bounds); (3) after all runs the caller overwrites every "
    "array the first call returned and repeats the call; (4) structured guesses (disjoint supports, exactly orthogonal "
    "integer columns, exact zeros and zero rows, a repeated column in one mode of an N >= 3 problem, integer-valued), "
    "block-diagonal and exactly low-rank data, one mode of size 21..30; (5) stoptol 0 or log-uniform in 1e-12..1, "
    "printitn in {-5,-1,0,1,2,3,7,1000}, data magnitude 1e-6..1e6.  Instances where the alternating iteration itself breaks "
    "down (a singular least-squares step, or a component annihilated up to rounding - diagnosed in NumPy from the recorded "
    "factor matrices) are counted as skipped, as is sparse all-singleton data with 'nvecs' (rejected by design).  "
    "Round 3 classes: (6) Tucker data whose factor matrices are generic / exactly orthonormal / unit-length but not orthogonal / "
    "orthonormal, unit-length or identity up to a relative perturbation 1e-10..1e-5 / identity columns (per tensor or mixed per "
    "mode), core held dense or sparse; Kruskal parts of sum-tensor data with unit-length, nearly unit-length or orthonormal "
    "columns, an optional Tucker part; data magnitude also 1e-9, 1e-10, 1e-12, 1e+9; given guesses of magnitude 1e-9, 1e-12, 1e+9 "
    "or 10^k per column; (7) about one case in 30 is a larger problem: 5..6 modes, rank 4..8, a mode of 40..60, or 1e4..4e4 cells "
    "(as many stored nonzeros); (8) column norms 10^-18..10^18 with compensating weights (Kruskal part), 10^-9..10^9 with "
    "compensating core (Tucker factors); (9) cell live-objects: data and guess objects stay alive over 3..4 calls and are edited "
    "in place between them (item assignment on tensor / sptensor / core / factor entries / weights, ktensor.normalize / arrange "
    "/ redistribute): every call is judged against the state the objects have then and against a call on independent objects "
    "rebuilt from copies, earlier results must stay bit-identical, writing into returned objects must reach neither data nor "
    "guess nor earlier results; (10) stoptol also 2.5 and 1e300 (the run ends at the first test it makes), maxiters 1, "
    "printitn beyond maxiters -- all labelled.  "
    "Round 4 classes: (13) cell reporting-options: the same call silent and with printitn 1, 2, 3, maxiters, maxiters+1, 1000, 10**9, "
    "-1, -7 and with the root logger at DEBUG / INFO / 1 (NullHandler, logging enabled inside the cell) on all four data kinds: model, "
    "returned guess and iteration count bit for bit, fit and residual bit for bit within the silent and within the printing runs and to "
    "1e-12 S across (printing runs recompute them from the final model), every run judged against NumPy; (11) cell presentations: rank as "
    "numpy int32 / uint8 / uint16 / int64 scalar, dimorder / optdims as list, tuple, int16..uint64 arrays, list of numpy scalars, 1 x n "
    "row, a single optimised mode as bare (numpy) int, options positionally / as numpy scalars / Python ints, omitted mode lists given "
    "as range(N), all options omitted against all documented defaults given, the guess from C-ordered / strided / read-only (by "
    "reference) matrices, a tuple, ktensor.copy(), the data from read-only (by reference) / strided / C-ordered arrays, sparse "
    "subscripts in int32 / uint8 / uint16 / uint64, shape as list / numpy integers: same bits, same printed text (to rounding where the "
    "data buffers change memory layout); cell float32-data: tensor / sptensor values in float32 at magnitudes 1e-25 .. 1e+25, judged "
    "with single-precision bounds; (12, 14) cell rejected-requests: between two identical valid calls 1..3 excluded requests (guess of "
    "another rank / order / mode size incl. sizes 1 that would broadcast, a third of the cases with every extent but one equal to 1; "
    "ill-formed dimorder / optdims / rank / guess name / maxiters 0): ill-formed guesses must be rejected, and after any rejection data, "
    "guesses, earlier results, numpy error state / print options / logging state are unchanged and the valid call gives the same bits."
)
ASSUMPTIONS = [
    "bulk numeric content (factors, noise, masks, given guesses) is expanded by np.random.default_rng from integer seeds "
    "drawn by Hypothesis; structure (shape, rank, holder, options) is drawn directly",
    "residual/fit: |reported^2 - recomputed^2| <= 1e-10 * S with S = (||X|| + sum(lambda))^2, a bound on every term the "
    "code adds (observed 1e-13); fit vs normresidual: |(1-fit)||X|| - normresidual| <= 1e-12 (||X|| + normresidual)",
    "monotonicity: ||X-M_{k+1}||^2 <= ||X-M_k||^2 + 1e-9 * S, residuals recomputed from den of the truncated runs",
    "normal equations of the mode updated last: column r of B*Y - X_(n)*KR bounded by 1e-8 * (sum_s ||B_s|| |Y_sr| + ||X||) "
    "(scale invariant; observed 1e-15)",
    "recorded least-squares steps compared in direction with 1e-9 * max(1, cond(Y)); steps with cond(Y) > 1e6 are labelled "
    "and not judged",
    "printed values carry 7 significant digits: |printed - value| <= 6e-7 |value|",
    "unit columns: | ||col|| - 1 | <= 1e-12",
    "round 4: printing on/off changes the formula of the reported fit / residual (final recomputation from the arranged model): "
    "|nr_a^2 - nr_b^2| <= 1e-12 S (observed 6e-16 S); float32 data: |reported^2 - recomputed^2| <= 1e-5 S (eps32 = 6e-8; observed "
    "1e-7 S), model after one sweep vs the same values held in float64: ||dM||^2 <= 1e-6 S",
    "stop rule (docstring): stops at the first iteration k >= 1 whose |fit_k - fit_{k-1}| < stoptol; judged only when the "
    "margin to stoptol exceeds 1e-9",
]


def _sparse_nvecs(case):
    return case.get("holder") == "sptensor" and case.get("init") == "nvecs"


def _sparse_nvecs_complex(case):
    """sptensor.nvecs goes through the non-symmetric ARPACK driver (complex output) when r < size - 1 in some mode."""
    sh = [int(s) for s in case["shape"]]
    return _sparse_nvecs(case) and 1 not in sh and any(int(case["R"]) < s - 1 for s in sh)


def _sparse_nvecs_singleton(case):
    """sptensor.nvecs squeezes away a genuine singleton mode (the mode itself or all the others)."""
    sh = [int(s) for s in case["shape"]]
    return _sparse_nvecs(case) and 1 in sh and any(s > 1 for s in sh)


def _sparse_nvecs_all_singleton(case):
    return _sparse_nvecs(case) and all(int(s) == 1 for s in case["shape"])


def _sparse_int_nvecs(case):
    """sptensor holding integer-dtype values, guess = 'nvecs': sptensor.nvecs builds the Gram matrix in that dtype"""
    return _sparse_nvecs(case) and case.get("dtype", "float64") in H.INT_RANGE


PREDICATES = {
    "sparse_int_nvecs": _sparse_int_nvecs,
    "sparse_nvecs_complex": _sparse_nvecs_complex,
    "sparse_nvecs_singleton": _sparse_nvecs_singleton,
    "sparse_nvecs_all_singleton": _sparse_nvecs_all_singleton,
}

# --------------------------------------------------------------------------
# generator
# --------------------------------------------------------------------------


@st.composite
def _shape_for_rank(draw, tier, R, N):
    """sizes >= R (unfolding rank needs it); a singleton mode only with R = 1; element count capped."""
    hi = 5 if tier == "quick" else 6
    cap = 160 if tier == "quick" else 500
    lo = max(R, 2)
    shape = []
    for _ in range(N):
        if R == 1 and draw(st.integers(0, 4)) == 0:
            shape.append(1)
        else:
            shape.append(draw(st.integers(lo, max(lo, hi))))
    if draw(st.integers(0, 9)) == 0:
        # one mode above 20 (ARPACK's default subspace size: tensor.nvecs / sptensor.nvecs change regime there), others small
        k = draw(st.integers(0, N - 1))
        shape = [min(n, max(lo, 3)) for n in shape]
        shape[k] = draw(st.integers(21, 30))
        while ref.prod(shape) > cap:
            cand = [i for i in range(N) if i != k and shape[i] > lo]
            if not cand:
                break
            shape[max(cand, key=lambda i: shape[i])] -= 1
        return shape
    while ref.prod(shape) > cap and max(shape) > lo:
        shape[shape.index(max(shape))] -= 1
    return shape


@st.composite
def _big_problem(draw, tier):
    """(R, shape) of one of the larger problems (class 7: sizes above the small ones every other case has): many modes
    (5..6), a high rank (4..8), one long mode (40..60), or 1e4..4e4 cells in three modes."""
    kind = ["many-modes", "high-rank", "long-mode", "many-cells"][draw(st.integers(0, 10**6)) % 4]
    if kind == "many-cells":  # 1e4 .. 4e4 cells (as many stored nonzeros in a sparse holder: above block sizes of 1e4 / 16384)
        R = draw(st.integers(2, 4))
        shape = [draw(st.integers(22, 34)) for _ in range(3)]
        cap = 40000
    elif kind == "many-modes":
        R = draw(st.integers(1, 3))
        N = draw(st.sampled_from([5, 6]))
        shape = [draw(st.integers(max(R, 2), 4)) for _ in range(N)]
        cap = 5000
    elif kind == "high-rank":
        R = draw(st.integers(4, 8))
        N = draw(st.sampled_from([3, 3, 4]))
        shape = [draw(st.integers(R, R + 3)) for _ in range(N)]
        cap = 20000
    else:
        R = draw(st.integers(2, 5))
        N = draw(st.sampled_from([3, 3, 4]))
        shape = [draw(st.integers(max(R, 2), R + 2)) for _ in range(N)]
        shape[draw(st.integers(0, N - 1))] = draw(st.integers(40, 60))
        cap = 30000
    while ref.prod(shape) > cap and any(max(R, 2) < n <= 20 for n in shape):
        i = max((i for i in range(len(shape)) if max(R, 2) < shape[i] <= 20), key=lambda i: shape[i])
        shape[i] -= 1
    return R, shape, kind


def _case_strategy(holder, big_one_in=30):
    @st.composite
    def strat(draw, tier):
        big = draw(st.integers(0, big_one_in - 1)) == 0
        if big:
            R, shape, bigkind = draw(_big_problem(tier))
            N = len(shape)
        else:
            bigkind = None
            R = draw(st.sampled_from([1, 2, 2, 3, 3]))
            N = draw(st.sampled_from([2, 3, 3, 3, 4] if tier == "quick" else [2, 3, 3, 4, 4, 5]))
            shape = draw(_shape_for_rank(tier, R, N))
        rtrue = draw(st.sampled_from([R, R, R + 1, max(1, R - 1)]))
        if rtrue < R:
            noise = draw(st.sampled_from([1e-2, 0.1, 1.0]))
        else:
            noise = draw(st.sampled_from([0.0, 1e-3, 1e-2, 0.1, 1.0]))
        c = dict(shape=shape, R=R, rtrue=rtrue, noise=noise, holder=holder,
                 data_seed=draw(st.integers(0, 10**6)),
                 style=draw(st.sampled_from(["normal", "normal", "uniform", "block"])),
                 scale=draw(st.sampled_from(H.SCALES)))
        if bigkind:
            c["big"] = bigkind
        if holder in ("tensor", "sptensor"):
            # integer-valued data held in an integer dtype (class 2); float32 is left out: the 1e-10-level bounds of this
            # module are float64 rounding bounds
            c["dtype"] = draw(st.sampled_from(["float64"] * 8 + sorted(H.INT_RANGE)))
            if c["dtype"] in H.INT_RANGE:
                c["mag"] = draw(st.sampled_from(["small", "medium", "full"]))
                c["scale"] = 1.0
        if holder == "tensor":
            c["prov"] = draw(st.sampled_from(H.PROVS_F64 if c["dtype"] == "float64" else H.PROVS_ANY))
        if holder == "sptensor":
            c["density"] = draw(st.sampled_from([1.0, 0.75, 0.5]))
            c["stored"] = draw(st.sampled_from(["sorted", "reverse", "random"]))
            c["sp_state"] = draw(st.sampled_from(["plain", "plain", "explicit-zeros", "np-shape", "from-tensor", "halved-doubled"]))
        if holder == "sumtensor":
            c["sum_sparse"] = draw(st.booleans())
            c["sum_tucker"] = draw(st.integers(0, 3)) == 0
            c["kstyle"] = draw(st.sampled_from(H.KSTYLES))
        if holder in ("ttensor", "sumtensor"):
            c["fstyle"] = draw(st.sampled_from(H.FSTYLES))
        if holder == "ttensor":
            c["core_holder"] = draw(st.sampled_from(["dense", "dense", "dense", "sparse"]))
        structured = list(H.STRUCTURED_INITS) + ["result"]
        if holder == "sumtensor":  # nvecs is documented as unsupported for sum tensors
            inits = ["normal", "uniform", "random"] * 2 + structured
        else:
            inits = ["normal", "uniform", "random", "nvecs"] * 2 + structured
        c["init"] = draw(st.sampled_from(inits))
        c["init_seed"] = draw(st.integers(0, 10**6))
        c["init_weights"] = draw(st.sampled_from(["unit", "unit", "unit", "nonunit"]))
        c["init_scale"] = draw(st.sampled_from(H.GUESS_SCALES))
        c["np_seed"] = draw(st.integers(0, 2**31 - 1))
        c["dimorder"] = draw(st.one_of(st.none(), st.permutations(range(N)).map(list), st.permutations(range(N)).map(list)))
        if draw(st.booleans()):
            c["optdims"] = None
        else:
            k = draw(st.integers(1, N))
            c["optdims"] = list(draw(st.permutations(range(N))))[:k]
        c["form"] = draw(st.sampled_from(["list", "array", "tuple"]))
        c["maxiters"] = draw(st.integers(1, 6 if tier == "quick" else 8)) if not big else draw(st.integers(1, 4))
        c["stoptol"] = draw(H.STOPTOLS)
        c["fixsigns"] = draw(st.booleans())
        c["printitn"] = draw(H.PRINTITNS)
        return c

    return strat


def _form(v, form):
    if v is None:
        return None
    if form == "array":
        return np.array(v, dtype=int)
    if form == "tuple":
        return tuple(v)
    return list(v)


# --------------------------------------------------------------------------
# oracle pieces
# --------------------------------------------------------------------------


def _breakdown(X, A, R, case, init, maxiters):
    """True when the alternating iteration itself breaks down on this instance: some least-squares step has a singular
    coefficient matrix (no unique solution) or a solution column that is zero up to rounding noise -- its rank-one term is
    below 1e-12 ||X|| -- (the component is annihilated: the next coefficient matrix is singular, or noise decides).  Diagnosed with NumPy from the factor matrices of every recorded MTTKRP request.  Such
    instances are outside the domain of the property (its rank condition excludes singular subproblems); exact
    cancellation with integer-valued data and structured guesses produces them."""
    rec = H.Recorder(X)
    try:
        _run(rec, R, case, init, maxiters, 0.0, 0)
    except Exception:  # noqa: BLE001
        pass
    for n, U in rec.calls:
        if not all(np.all(np.isfinite(u)) for u in U):
            return False
        try:
            Y = H.gram_except(U, n)
            sv = np.linalg.svd(Y, compute_uv=False)
            if sv[0] == 0 or sv[-1] <= 1e-12 * sv[0]:
                return True
            B = np.linalg.solve(Y.T, H.mttkrp_ref(A, U, n).T).T
        except Exception:  # noqa: BLE001
            return True
        # norm of the rank-one term each solution column contributes, against the norm of the data
        cn = np.sqrt(np.sum(B * B, axis=0)) * np.sqrt(np.abs(np.diag(Y)))
        if np.any(cn <= 1e-12 * np.sqrt(H.sq(A))):
            return True
    return False


def _guarded(ctx, what, diag, *args):
    """_run under ctx.sut, except that a failure on an instance where ALS itself breaks down ends the case unjudged"""
    try:
        return _run(*args)
    except (np.linalg.LinAlgError, FloatingPointError, ValueError):
        if diag():
            ctx.skip("als-breakdown:singular-or-annihilating-step")
        with ctx.sut(what):
            raise
    except Exception:  # noqa: BLE001
        with ctx.sut(what):
            raise


def _model_ok(ctx, M, shape, R, tag, diag=None):
    ctx.require(isinstance(M, ttb.ktensor), f"{tag}returns-ktensor", type(M).__name__)
    fms = M.factor_matrices
    ctx.require(isinstance(fms, list) and len(fms) == len(shape), f"{tag}model-order", len(fms) if isinstance(fms, list) else type(fms))
    ok = all(isinstance(f, np.ndarray) and f.shape == (int(n), R) and f.dtype.kind == "f" for f, n in zip(fms, shape))
    w = M.weights
    ok = ok and isinstance(w, np.ndarray) and w.shape == (R,) and w.dtype.kind == "f"
    ctx.require(ok, f"{tag}model-rank-and-shape", [getattr(f, "shape", None) for f in fms] + [getattr(w, "shape", None)])
    finite = all(np.all(np.isfinite(f)) for f in fms) and np.all(np.isfinite(w))
    if not finite and diag is not None and diag():
        ctx.skip("als-breakdown:singular-or-annihilating-step")
    ctx.require(finite, f"{tag}model-finite")


def _scale(nX, M):
    return float((nX + float(np.sum(np.abs(M.weights)))) ** 2)


def _check_reported(ctx, out, A, M, is_sum, tag):
    """Clause (3): reported residual / fit vs recomputed from den; returns the recomputed squared residual."""
    ctx.require(isinstance(out, dict) and all(k in out for k in ("fit", "normresidual", "iters", "params")),
                f"{tag}output-keys", list(out) if isinstance(out, dict) else type(out))
    fit, nr = out["fit"], out["normresidual"]
    ctx.require(H.is_float(fit) and H.is_float(nr) and np.isfinite(fit) and np.isfinite(nr), f"{tag}fit-is-finite-number",
                (fit, nr))
    fit, nr = float(fit), float(nr)
    D = ref.den(M)
    nX = float(np.sqrt(H.sq(A)))
    r2 = H.sq(A - D)
    S = _scale(nX, M)
    if is_sum:
        val = H.sq(D) - 2.0 * float(np.sum(A * D))
        ctx.check(abs(fit - val) <= 1e-10 * S, f"{tag}sum-fit-is-normM2-minus-2-inner", f"reported {fit!r} recomputed {val!r} S={S:.3g}")
        ctx.check(nr == fit, f"{tag}sum-normresidual-equals-fit", (nr, fit))
    else:
        ctx.check(nr >= 0 and abs(nr * nr - r2) <= 1e-10 * S, f"{tag}normresidual-vs-recomputed",
                  f"reported^2 {nr * nr!r} recomputed^2 {r2!r} S={S:.3g}")
        ctx.check(abs((1.0 - fit) * nX - nr) <= 1e-12 * (nX + abs(nr)), f"{tag}fit-vs-normresidual",
                  f"fit {fit!r} normresidual {nr!r} ||X|| {nX!r}")
        ctx.check(abs(((1.0 - fit) * nX) ** 2 - r2) <= 1e-10 * S and fit <= 1.0 + 1e-12, f"{tag}fit-vs-recomputed",
                  f"reported {fit!r} recomputed {1.0 - np.sqrt(r2) / nX!r}")
    return r2, S


def _check_normal_form(ctx, M, tag):
    w = M.weights
    ctx.check(bool(np.all(w >= 0)), f"{tag}weights-nonnegative", w)
    ctx.check(bool(np.all(w[:-1] >= w[1:])), f"{tag}weights-nonincreasing", w)
    worst = 0.0
    for f in M.factor_matrices:
        worst = max(worst, float(np.max(np.abs(np.sqrt(np.sum(f * f, axis=0)) - 1.0))))
    ctx.check(worst <= 1e-12, f"{tag}unit-columns", worst)


def _check_stationary(ctx, M, A, n, tag):
    """Clause (5): B (*_{i!=n} Ai'Ai) = X_(n) KR with B = A_n diag(lambda), column-wise scale-invariant bound."""
    fms = [np.asarray(f, dtype=float) for f in M.factor_matrices]
    B = fms[n] * np.asarray(M.weights)[None, :]
    Y = H.gram_except(fms, n)
    Z = H.mttkrp_ref(A, fms, n)
    res = B @ Y - Z
    nB = np.sqrt(np.sum(B * B, axis=0))
    scale = nB @ np.abs(Y) + np.sqrt(H.sq(A))
    rel = np.sqrt(np.sum(res * res, axis=0)) / scale
    ctx.check(bool(np.all(rel <= 1e-8)), f"{tag}last-mode-normal-equations", f"mode {n} relative residual per column {rel}")


def _run(data, R, case, init, maxiters, stoptol, printitn):
    kw = dict(stoptol=stoptol, maxiters=maxiters, init=init, printitn=printitn, fixsigns=case["fixsigns"])
    if case["dimorder"] is not None:
        kw["dimorder"] = _form(case["dimorder"], case["form"])
    if case["optdims"] is not None:
        kw["optdims"] = _form(case["optdims"], case["form"])
    if isinstance(init, str) and init == "random":
        np.random.seed(case["np_seed"])
    with H.captured() as buf:
        res = ttb.cp_als(data, R, **kw)
    return res, buf.getvalue()


def _unpack(ctx, res, tag):
    ctx.require(isinstance(res, tuple) and len(res) == 3, f"{tag}returns-triple", type(res).__name__)
    return res


def _body(ctx, case):
    """_body_inner; when a clause fails on an instance where the alternating iteration itself breaks down (diagnosed with
    NumPy, see _breakdown) the case is not judged: exact or noise-level zeros then decide the result."""
    env = {}
    try:
        _body_inner(ctx, case, env)
    except Abort:
        if not (ctx.violations and "diag" in env and env["diag"]()):
            raise
    else:
        if not (ctx.violations and "diag" in env and env["diag"]()):
            return
    ctx.violations.clear()
    ctx.skip("als-breakdown:singular-or-annihilating-step")


def _body_inner(ctx, case, env):
    shape = [int(s) for s in case["shape"]]
    N, R = len(shape), int(case["R"])
    holder = case["holder"]
    is_sum = holder == "sumtensor"
    X, A = H.build_data(case)
    margin = H.unfolding_margin(A, R)
    if margin < 1e-6:
        ctx.skip("unfolding-rank-below-R")
    if holder == "sptensor" and case["init"] == "nvecs" and all(n == 1 for n in shape):
        ctx.skip("sptensor.nvecs-rejects-all-singleton-shapes-by-design")
    if case["init"] == "result":
        # derived state (class 1): the guess is the model an earlier one-sweep fit returned (normalised, arranged,
        # sign-fixed by the public API)
        with ctx.sut("cp_als-producing-the-guess"):
            with H.captured():
                init = ttb.cp_als(X, R, init=H.build_init(dict(case, init="normal")), maxiters=1, printitn=0)[0]
        ctx.require(isinstance(init, ttb.ktensor), "returns-ktensor", type(init).__name__)
    else:
        init = H.build_init(case)
    dimorder = case["dimorder"] if case["dimorder"] is not None else list(range(N))
    optdims = case["optdims"] if case["optdims"] is not None else list(range(N))
    seq = [d for d in dimorder if d in optdims]
    maxiters, stoptol, printitn = int(case["maxiters"]), float(case["stoptol"]), int(case["printitn"])
    ctx.nt = R >= 2 and N >= 3 and seq != sorted(seq)
    ctx.label(f"order{N}", f"R{R}", "init-" + case["init"], "optdims-all" if len(seq) == N else "optdims-subset",
              "dimorder-default" if case["dimorder"] is None else ("dimorder-identity" if dimorder == sorted(dimorder) else
                                                                   "dimorder-permuted"),
              f"noise-{case['noise']}", "has-singleton" if 1 in shape else "no-singleton",
              "distinct-sizes" if len(set(shape)) > 1 else "cubical", f"printitn-{max(min(printitn, 1), -1)}",
              "long-mode" if max(shape) > 20 else "short-modes", "dtype-" + case.get("dtype", "float64"), "scale-%g" % float(case.get("scale", 1.0)), "style-" + case.get("style", "normal"),
              "stoptol-0" if stoptol == 0 else ("stoptol<1e-6" if stoptol < 1e-6 else ("stoptol>=1e-6" if stoptol < 1 else
                                                                                         "stoptol>=1")),
              "problem-" + case.get("big", "small"), "maxiters-1" if maxiters == 1 else "maxiters>1",
              "printitn>maxiters" if printitn > maxiters else "printitn<=maxiters",
              "guess-scale-%s" % case.get("init_scale", 1.0))
    if holder in ("ttensor", "sumtensor"):
        ctx.label("factors-" + case.get("fstyle", "generic"))
    if holder == "ttensor":
        ctx.label("core-" + case.get("core_holder", "dense"))
        if all(abs(float(np.linalg.norm(f[:, j])) - 1.0) <= 1e-8 for f in X.factor_matrices for j in range(f.shape[1])):
            g = max(float(np.max(np.abs(f.T @ f - np.eye(f.shape[1])))) for f in X.factor_matrices)
            ctx.label("tucker-factors-all-unit-norm:" + ("orthonormal" if g <= 1e-12 else ("near-orthonormal" if g <= 1e-4 else
                                                                                          "not-orthogonal")))
    if holder == "sumtensor":
        ctx.label("kruskal-part-" + case.get("kstyle", "generic"), "with-tucker-part" if case.get("sum_tucker") else "no-tucker-part")
    if holder == "tensor":
        ctx.label("prov-grown-or-C-order" if not np.asarray(X.data).flags["F_CONTIGUOUS"] else "prov-F-order")
    if isinstance(init, ttb.ktensor):
        zg = sum(int(np.sum((f.T @ f) == 0)) for f in init.factor_matrices)
        ctx.label("guess-with-exact-zero-gram-entries" if zg else "guess-generic-gram")
    snapX, snapI = H.snapshot(X), H.snapshot(init)
    nX = float(np.sqrt(H.sq(A)))

    # ---------------------------------------------------------------- main run
    memo = {}

    def diag():
        if "v" not in memo:
            memo["v"] = _breakdown(X, A, R, case, init, maxiters)
        return memo["v"]

    env["diag"] = diag
    res, text = _guarded(ctx, "cp_als", diag, X, R, case, init, maxiters, stoptol, printitn)
    M, Minit, out = _unpack(ctx, res, "")
    _model_ok(ctx, M, shape, R, "", diag)
    ctx.check(H.snapshot(X) == snapX, "data-unchanged")
    ctx.check(H.snapshot(init) == snapI, "guess-unchanged")
    _check_normal_form(ctx, M, "")
    r2_main, S = _check_reported(ctx, out, A, M, is_sum, "")
    _check_stationary(ctx, M, A, seq[-1], "")
    iters = H.as_int(out["iters"])
    ctx.require(iters is not None and 0 <= iters <= maxiters - 1, "iters-within-limit", out["iters"])
    ctx.label("stopped-early" if iters < maxiters - 1 else "ran-to-limit")

    # returned guess
    ctx.require(isinstance(Minit, ttb.ktensor), "returned-guess-is-ktensor", type(Minit).__name__)
    gf = Minit.factor_matrices
    ctx.require(len(gf) == N and all(isinstance(f, np.ndarray) and f.shape == (n, R) for f, n in zip(gf, shape)),
                "returned-guess-shape", [getattr(f, "shape", None) for f in gf])
    if isinstance(init, ttb.ktensor):
        ctx.check(H.snapshot(Minit) == snapI, "returned-guess-is-the-given-one")
    snapG = H.snapshot(Minit)

    # ---------------------------------------------------------------- printed lines of the main run
    its, final, bad = H.parse_iter_lines(text)
    ctx.check(not bad, "printed-lines-parse", bad[:2])
    if printitn <= 0:
        ctx.check(text.strip() == "", "silent-when-printitn-0", text[:80])
    else:
        idx = [i for i, _, _ in its]
        want = [k for k in range(iters + 1) if k % printitn == 0]
        ctx.check(all(k in idx for k in want) and all(0 <= k <= iters for k in idx) and idx == sorted(set(idx)),
                  "printed-iterations", f"printed {idx} expected at least {want} within 0..{iters}")
        ctx.check(final is not None and printed_ok(final, float(out["fit"])), "printed-final-equals-reported-fit",
                  (final, out["fit"]))

    # ---------------------------------------------------------------- truncated runs from the returned guess
    fits, r2s, models = [], [], []
    for k in range(1, maxiters + 1):
        resk, _ = _guarded(ctx, "cp_als-truncated", diag, X, R, case, Minit, k, 0.0, 0)
        Mk, _, outk = _unpack(ctx, resk, "truncated-")
        _model_ok(ctx, Mk, shape, R, "truncated-", diag)
        r2k, Sk = _check_reported(ctx, outk, A, Mk, is_sum, "truncated-")
        _check_stationary(ctx, Mk, A, seq[-1], "truncated-")
        _check_normal_form(ctx, Mk, "truncated-")
        ik = H.as_int(outk["iters"])
        ctx.check(ik == k - 1, "truncated-stoptol0-runs-all-iterations", (ik, k))
        fits.append(float(outk["fit"]))
        r2s.append((r2k, Sk))
        models.append(Mk)
    for k in range(1, len(r2s)):
        ctx.check(r2s[k][0] <= r2s[k - 1][0] + 1e-9 * max(r2s[k][1], r2s[k - 1][1]), "fit-never-gets-worse",
                  f"||X-M||^2 after {k} sweeps {r2s[k - 1][0]!r}, after {k + 1} sweeps {r2s[k][0]!r}")
    ctx.check(H.snapshot(Minit) == snapG, "returned-guess-unchanged-by-rerun")

    # the model of the main run is the (iters+1)-sweep model from the returned guess
    Dm, Dk = ref.den(M), ref.den(models[iters])
    ctx.check(H.sq(Dm - Dk) <= 1e-18 * S, "rerun-from-returned-guess-reproduces-model",
              f"||M - M_rerun||^2 = {H.sq(Dm - Dk)!r}, S = {S!r}")
    # per-iteration printed values of the main run agree with the truncated runs
    if printitn > 0 and not bad:
        okp = all(0 <= i < len(fits) and printed_ok(f, fits[i]) for i, f, _ in its)
        ctx.check(okp, "printed-f-equals-fit-of-truncated-run", [(i, f, fits[i] if i < len(fits) else None) for i, f, _ in its][:4])
        okd = all(printed_delta_ok(d, abs(fits[i] - (fits[i - 1] if i else 0.0))) for i, _, d in its if i < len(fits))
        ctx.check(okd, "printed-f-delta", [(i, d) for i, _, d in its][:4])
    # stop rule as documented (judged away from the threshold only)
    deltas = [abs(fits[k] - fits[k - 1]) for k in range(1, len(fits))]  # deltas[k-1] belongs to iteration k
    if stoptol > 0:
        if iters < maxiters - 1:
            ctx.check(iters >= 1 and deltas[iters - 1] < stoptol + 1e-9, "stopped-only-when-change-below-stoptol",
                      (iters, deltas[: iters + 1], stoptol))
        early = [k for k in range(1, iters) if deltas[k - 1] < stoptol - 1e-9]
        ctx.check(not early, "stops-at-first-change-below-stoptol", (iters, deltas[: iters + 1], stoptol))
    else:
        ctx.check(iters == maxiters - 1, "stoptol0-runs-all-iterations", (iters, maxiters))

    # ---------------------------------------------------------------- a fully printed run
    resp, textp = _guarded(ctx, "cp_als-printing", diag, X, R, case, Minit, maxiters, 0.0, 1)
    Mp, _, outp = _unpack(ctx, resp, "printing-")
    _model_ok(ctx, Mp, shape, R, "printing-")
    _check_reported(ctx, outp, A, Mp, is_sum, "printing-")
    itp, finalp, badp = H.parse_iter_lines(textp)
    ctx.check(not badp and [i for i, _, _ in itp] == list(range(maxiters)), "printing-every-iteration-listed",
              ([i for i, _, _ in itp], badp[:1]))
    if not badp and len(itp) == maxiters:
        ctx.check(all(printed_ok(f, fits[i]) for i, f, _ in itp), "printing-f-equals-fit-of-truncated-run",
                  [(f, fits[i]) for i, f, _ in itp][:4])
        ctx.check(finalp is not None and printed_ok(finalp, float(outp["fit"])), "printing-final-equals-reported-fit",
                  (finalp, outp["fit"]))
    ctx.check(H.sq(ref.den(Mp) - ref.den(models[-1])) <= 1e-18 * S, "printing-does-not-change-model")

    # ---------------------------------------------------------------- recorded run (duck-typed data)
    rec = H.Recorder(X)
    resr, _ = _guarded(ctx, "cp_als-recorded", diag, rec, R, case, init, maxiters, stoptol, 0)
    Mr, Minit_r, outr = _unpack(ctx, resr, "recorded-")
    _model_ok(ctx, Mr, shape, R, "recorded-")
    ir = H.as_int(outr["iters"]) if isinstance(outr, dict) and "iters" in outr else None
    # 'nvecs' recomputes the guess; with R < n - 1 it comes from ARPACK, whose unseedable random start perturbs it by
    # eps / eigen-gap -> looser comparison for that class only, and no comparison at all when some fit change lies
    # within 1e-5 of stoptol (the two runs may then legitimately stop at different iterations)
    arpack_guess = case["init"] == "nvecs" and any(R < n - 1 for n in shape)
    near = arpack_guess and stoptol > 0 and any(abs(d - stoptol) <= 1e-5 for d in deltas)
    tied = False
    if arpack_guess:
        # exact or near ties among the R + 1 leading eigenvalues of a mode Gram matrix (integer-valued / block data produce
        # exact ones) make the leading vectors themselves arbitrary: two separately computed guesses then differ
        for n_ in range(N):
            if R < shape[n_] - 1:
                lam = np.sort(np.linalg.eigvalsh(H.unfold(A, n_) @ H.unfold(A, n_).T))[::-1]
                if lam[0] <= 0 or np.min(lam[:R] - lam[1:R + 1]) <= 1e-6 * lam[0]:
                    tied = True
    if near:
        ctx.label("arpack-guess-near-stop-threshold-not-compared")
    elif tied:
        ctx.label("arpack-guess-tied-eigenvalues-not-compared")
    else:
        ctx.check(ir == iters, "recorded-run-same-iteration-count", (ir, iters))
        ctx.check(H.sq(ref.den(Mr) - Dm) <= (1e-8 if arpack_guess else 1e-18) * S, "recorded-run-same-model")
    ns = [n for n, _ in rec.calls]
    ctx.require(ns == seq * (ir + 1 if ir is not None else 0), "mode-update-sequence",
                f"requested modes {ns[:12]}... expected {seq} x {ir + 1 if ir is not None else '?'}")
    ok_shapes = all(len(U) == N and all(u.shape == (n, R) for u, n in zip(U, shape)) for _, U in rec.calls)
    ctx.require(ok_shapes, "recorded-factor-shapes")
    U0 = rec.calls[0][1]
    ctx.require(isinstance(Minit_r, ttb.ktensor) and len(Minit_r.factor_matrices) == N, "returned-guess-is-ktensor")
    same0 = all(np.array_equal(U0[j], np.asarray(Minit_r.factor_matrices[j])) for j in range(N))
    ctx.check(same0, "first-request-uses-the-returned-guess")
    worst, judged = 0.0, 0
    for t in range(1, len(rec.calls)):
        n_prev, U_prev = rec.calls[t - 1]
        _, U_now = rec.calls[t]
        for j in range(N):
            if j != n_prev:
                ctx.check(np.array_equal(U_now[j], U_prev[j]), "only-the-updated-mode-changes", f"request {t}, mode {j}")
        Y = H.gram_except(U_prev, n_prev)
        cY = np.linalg.cond(Y)
        if not np.isfinite(cY) or cY > 1e6:
            ctx.label("illcond-step")
            continue
        Bref = np.linalg.solve(Y.T, H.mttkrp_ref(A, U_prev, n_prev).T).T
        Un = U_now[n_prev]
        for r in range(R):
            uu = float(Un[:, r] @ Un[:, r])
            bb = float(np.sqrt(Bref[:, r] @ Bref[:, r]))
            if uu == 0 or bb == 0:
                continue
            c = float(Un[:, r] @ Bref[:, r]) / uu
            dev = float(np.sqrt(H.sq(Bref[:, r] - c * Un[:, r]))) / bb
            judged += 1
            worst = max(worst, dev / max(1.0, cY))
            ctx.check(c > 0 and dev <= 1e-9 * max(1.0, cY), "recorded-update-is-the-least-squares-solution",
                      f"request {t}, mode {n_prev}, column {r}: scale {c!r} deviation {dev!r} cond {cY:.3g}")
    # final data / guess snapshots after all runs
    ctx.check(H.snapshot(X) == snapX, "data-unchanged")
    ctx.check(H.snapshot(init) == snapI, "guess-unchanged")
    # ---------------------------------------------------------------- state across calls (class 3): the caller edits
    # everything the first call returned, in place, and asks again with the same arguments
    fit_main = float(out["fit"])
    for Kt in (M, Minit):
        Kt.weights[...] = -3.0
        for f in Kt.factor_matrices:
            f[...] = 7.0
    if isinstance(out.get("params"), dict):
        for v in out["params"].values():
            if isinstance(v, np.ndarray) and v.size:
                v[...] = 0
    ctx.check(H.snapshot(X) == snapX and H.snapshot(init) == snapI, "editing-the-results-leaves-data-and-guess-alone")
    if case["init"] != "nvecs" or not any(R < n - 1 for n in shape):
        res2, _ = _guarded(ctx, "cp_als-again", diag, X, R, case, init, maxiters, stoptol, printitn)
        M2, _, out2 = _unpack(ctx, res2, "again-")
        _model_ok(ctx, M2, shape, R, "again-")
        ctx.check(H.sq(ref.den(M2) - Dm) <= 1e-18 * S and isinstance(out2, dict) and H.is_float(out2.get("fit"))
                  and abs(float(out2["fit"]) - fit_main) <= 1e-9 * (1 + abs(fit_main)),
                  "same-call-after-editing-the-results-gives-the-same-model")


def printed_ok(printed, value):
    return H.printed_close(printed, value)


def printed_delta_ok(printed, value):
    """`{x:7.1e}`: two significant digits."""
    return np.isfinite(printed) and abs(printed - value) <= 0.06 * abs(value) + 1e-300


# --------------------------------------------------------------------------
# cells
# --------------------------------------------------------------------------


@cell("C09/cp_als/tensor", strategy=_case_strategy("tensor"), quick=1500, thorough=24000, shards=(4, 16))
def cp_als_tensor(ctx, case):
    _body(ctx, case)


@cell("C09/cp_als/sptensor", strategy=_case_strategy("sptensor"), quick=1000, thorough=12000, shards=(4, 16))
def cp_als_sptensor(ctx, case):
    ctx.label(f"density-{case['density']}", "stored-" + case["stored"])
    _body(ctx, case)


@cell("C09/cp_als/ttensor", strategy=_case_strategy("ttensor"), quick=1000, thorough=14000, shards=(4, 16))
def cp_als_ttensor(ctx, case):
    _body(ctx, case)


@cell("C09/cp_als/sumtensor", strategy=_case_strategy("sumtensor"), quick=1000, thorough=14000, shards=(4, 16))
def cp_als_sumtensor(ctx, case):
    ctx.label("three-parts" if case.get("sum_sparse") else "two-parts")
    _body(ctx, case)


def _enum_orders(tier):
    """every (dimorder, optdims-subset) pair; optdims listed in reverse order to decouple it from dimorder."""
    plans = [([3, 4, 2], 2, ["tensor", "sptensor", "ttensor", "sumtensor"])]
    if tier == "thorough":
        plans.append(([2, 3, 2, 3], 2, ["tensor", "sptensor"]))
        plans.append(([3, 1, 2], 1, ["tensor", "sptensor", "ttensor", "sumtensor"]))
    for shape, R, holders in plans:
        N = len(shape)
        for holder in holders:
            for p in itertools.permutations(range(N)):
                for k in range(1, N + 1):
                    for sub in itertools.combinations(range(N), k):
                        yield dict(shape=shape, R=R, rtrue=R, noise=0.05, holder=holder, data_seed=7 + N, style="normal",
                                   density=0.8, stored="reverse", sum_sparse=False, init="normal", init_seed=3,
                                   init_weights="unit", np_seed=1, dimorder=list(p), optdims=list(sub)[::-1], form="array",
                                   maxiters=3, stoptol=0.0, fixsigns=True, printitn=1)


@cell("C09/cp_als/enumerated-orders", enum=_enum_orders, shards=(8, 16))
def cp_als_enumerated(ctx, case):
    _body(ctx, case)


# --------------------------------------------------------------------------
# class 9: the same data / guess objects kept alive across calls and edited between calls
# --------------------------------------------------------------------------


def _rebuild(x):
    """an independent object in the same state, built by the public constructors from copies of the arrays"""
    if isinstance(x, ttb.tensor):
        return ttb.tensor(np.array(x.data, order="F", copy=True), tuple(int(n) for n in x.shape))
    if isinstance(x, ttb.sptensor):
        if np.asarray(x.subs).size == 0:
            return ttb.sptensor(shape=tuple(int(n) for n in x.shape))
        return ttb.sptensor(np.array(x.subs, copy=True), np.array(x.vals, copy=True), tuple(int(n) for n in x.shape))
    if isinstance(x, ttb.ktensor):
        return ttb.ktensor([np.array(f, order="F", copy=True) for f in x.factor_matrices], np.array(x.weights, copy=True))
    if isinstance(x, ttb.ttensor):
        return ttb.ttensor(_rebuild(x.core), [np.array(f, order="F", copy=True) for f in x.factor_matrices])
    if isinstance(x, ttb.sumtensor):
        return ttb.sumtensor([_rebuild(p) for p in x.parts])
    raise TypeError(type(x))


def _edit_in_place(x, rng, mag, allow_ops=True):
    """change the object through item assignment on it / on the arrays and tensors it is made of, or (Kruskal tensors) one of
    the documented in-place operations.  Returns a label."""
    if isinstance(x, ttb.tensor):
        idx = tuple(int(rng.integers(0, n)) for n in x.shape)
        x[idx] = float(np.asarray(x.data)[idx]) + float(rng.choice([-1.0, 1.0])) * mag * float(rng.uniform(0.5, 2.0))
        return "tensor-item"
    if isinstance(x, ttb.sptensor):
        idx = tuple(int(rng.integers(0, n)) for n in x.shape)
        if rng.uniform() < 0.25:
            x[idx] = 0.0
            return "sptensor-item-zero"
        x[idx] = float(rng.choice([-1.0, 1.0])) * mag * float(rng.uniform(0.5, 2.0))
        return "sptensor-item"
    if isinstance(x, ttb.ktensor):
        kind = int(rng.integers(0, 6 if allow_ops else 2))
        R = int(np.asarray(x.weights).shape[0])
        if kind == 0:
            x.weights[int(rng.integers(0, R))] *= float(rng.choice([-0.5, 2.0, 3.0]))
            return "ktensor-weight-item"
        if kind == 1:
            k = int(rng.integers(0, len(x.factor_matrices)))
            f = x.factor_matrices[k]
            i, r = int(rng.integers(0, f.shape[0])), int(rng.integers(0, f.shape[1]))
            f[i, r] = f[i, r] + float(np.sqrt(np.mean(f * f))) * float(rng.uniform(0.5, 2.0))
            return "ktensor-factor-item"
        if kind == 2:
            x.normalize()
            return "ktensor-normalize"
        if kind == 3:
            x.normalize(sort=True)
            return "ktensor-normalize-sort"
        if kind == 4:
            x.arrange()
            return "ktensor-arrange"
        x.redistribute(int(rng.integers(0, len(x.factor_matrices))))
        return "ktensor-redistribute"
    if isinstance(x, ttb.ttensor):
        if rng.uniform() < 0.5:
            cm = float(np.sqrt(H.sq(ref.den(x.core)) / max(1, ref.prod(x.core.shape))))
            return "ttensor-core:" + _edit_in_place(x.core, rng, cm if cm > 0 else 1.0)
        k = int(rng.integers(0, len(x.factor_matrices)))
        f = x.factor_matrices[k]
        i, r = int(rng.integers(0, f.shape[0])), int(rng.integers(0, f.shape[1]))
        f[i, r] = f[i, r] + float(np.sqrt(np.mean(f * f))) * float(rng.uniform(0.5, 2.0))
        return "ttensor-factor-item"
    if isinstance(x, ttb.sumtensor):
        p = x.parts[int(rng.integers(0, len(x.parts)))]
        return "sum-part:" + _edit_in_place(p, rng, mag)
    raise TypeError(type(x))


@st.composite
def _live_case(draw, tier):
    holder = draw(st.sampled_from(["tensor", "sptensor", "ttensor", "sumtensor"]))
    c = draw(_case_strategy(holder, big_one_in=40)(tier))
    c["dtype"] = "float64"
    if c.get("style") == "block":
        c["style"] = "normal"
    if c["noise"] < 1e-3:
        c["noise"] = 1e-2
    c["scale"] = draw(st.sampled_from([1.0, 1.0, 1e-10, 1e6]))
    c["init"] = draw(st.sampled_from(["normal", "uniform", "normal", "random"]))
    c["maxiters"] = draw(st.integers(1, 4))
    c["stoptol"] = draw(st.sampled_from([0.0, 0.0, 1e-3]))
    c["printitn"] = draw(st.sampled_from([0, 0, 1]))
    c["edit_seed"] = draw(st.integers(0, 10**6))
    c["n_edits"] = draw(st.integers(1, 3))
    return c


def _live_run(ctx, what, X, R, case, init):
    with ctx.sut(what):
        res, _ = _run(X, R, case, init, int(case["maxiters"]), float(case["stoptol"]), int(case["printitn"]))
    return _unpack(ctx, res, what + "-")


def _same_as_fresh(ctx, X, G, R, case, res, A, tag):
    """the call on the long-lived (edited) objects gives what a call on independent objects in the same state gives"""
    M = res[0]
    resf = _live_run(ctx, tag + "-fresh-objects", _rebuild(X), R, case, _rebuild(G) if isinstance(G, ttb.ktensor) else G)
    _model_ok(ctx, resf[0], A.shape, R, tag + "-fresh-")
    S = _scale(float(np.sqrt(H.sq(A))), M)
    ctx.check(H.sq(ref.den(M) - ref.den(resf[0])) <= 1e-18 * S, tag + "-same-model-as-on-independent-objects",
              f"||M - M_fresh||^2 = {H.sq(ref.den(M) - ref.den(resf[0]))!r}, S = {S!r}")
    fa, fb = res[2].get("fit"), resf[2].get("fit") if isinstance(resf[2], dict) else None
    # fit = 1 - sqrt(|normX^2 + normM^2 - 2<X,M>|) / normX: the quantity under the root carries a relative rounding
    # error d' ~ 1e-13 of normX^2 that depends on the summation order (C- vs F-ordered buffers of the same data), so
    # with u = 1 - fit the fit itself moves by min(sqrt(2 d'), d' / u): 4e-7 for an almost exact fit, 1e-10 at u = 1e-3
    fit_tol = 1e-9
    if H.is_float(fa) and H.is_float(fb):
        u = max(1.0 - float(fa), 1.0 - float(fb), 1e-300)
        fit_tol = 1e-9 * (1 + abs(float(fa))) + min(float(np.sqrt(2e-13)), 1e-13 / u)
    ctx.check(H.is_float(fa) and H.is_float(fb) and abs(float(fa) - float(fb)) <= fit_tol,
              tag + "-same-fit-as-on-independent-objects", (fa, fb))
    ctx.check(res[2].get("iters") == resf[2].get("iters"), tag + "-same-iteration-count-as-on-independent-objects",
              (res[2].get("iters"), resf[2].get("iters")))


def _live_judge(ctx, res, A, R, case, seq, is_sum, tag):
    M, Minit, out = res
    _model_ok(ctx, M, A.shape, R, tag)
    _check_normal_form(ctx, M, tag)
    _check_reported(ctx, out, A, M, is_sum, tag)
    _check_stationary(ctx, M, A, seq[-1], tag)
    ctx.require(isinstance(Minit, ttb.ktensor), tag + "returned-guess-is-ktensor", type(Minit).__name__)


def _live_inner(ctx, case, env):
    shape = [int(s) for s in case["shape"]]
    N, R = len(shape), int(case["R"])
    is_sum = case["holder"] == "sumtensor"
    X, A = H.build_data(case)
    if H.unfolding_margin(A, R) < 1e-6:
        ctx.skip("unfolding-rank-below-R")
    G = H.build_init(case)
    dimorder = case["dimorder"] if case["dimorder"] is not None else list(range(N))
    optdims = case["optdims"] if case["optdims"] is not None else list(range(N))
    seq = [d for d in dimorder if d in optdims]
    ctx.nt = R >= 2 and N >= 3
    ctx.label("holder-" + case["holder"], "init-" + case["init"], f"order{N}", "scale-%g" % float(case["scale"]),
              "problem-" + case.get("big", "small"))
    rng = np.random.default_rng([89, int(case["edit_seed"])])
    env["states"] = [(A, G if isinstance(G, ttb.ktensor) else None)]

    # ---- call 1 on the fresh objects
    r1 = _live_run(ctx, "cp_als-first", X, R, case, G)
    _live_judge(ctx, r1, A, R, case, seq, is_sum, "first-")
    snap1 = (H.snapshot(r1[0]), H.snapshot(r1[1]))

    # ---- the data object is edited in place, the same objects are used again
    mag = float(np.sqrt(H.sq(A) / A.size))
    for _ in range(int(case["n_edits"])):
        with ctx.sut("in-place-edit-of-the-data"):
            ctx.label("edit-" + _edit_in_place(X, rng, mag))
    A2 = H.den(X)
    ctx.label("edit-changed-the-data" if not np.array_equal(A, A2) else "edit-left-the-data-equal")
    if not np.all(np.isfinite(A2)) or H.unfolding_margin(A2, R) < 1e-6:
        ctx.skip("unfolding-rank-below-R")
    env["states"].append((A2, G if isinstance(G, ttb.ktensor) else None))
    snapX, snapG = H.snapshot(X), H.snapshot(G)
    r2 = _live_run(ctx, "cp_als-after-editing-the-data", X, R, case, G)
    _live_judge(ctx, r2, A2, R, case, seq, is_sum, "data-edited-")
    _same_as_fresh(ctx, X, G, R, case, r2, A2, "data-edited")
    ctx.check(H.snapshot(X) == snapX, "data-unchanged")
    ctx.check(H.snapshot(G) == snapG, "guess-unchanged")
    ctx.check((H.snapshot(r1[0]), H.snapshot(r1[1])) == snap1, "earlier-results-unchanged-by-editing-the-data-and-calling-again")
    snap2 = (H.snapshot(r2[0]), H.snapshot(r2[1]))

    # ---- the guess object is edited in place
    r3 = r2
    if isinstance(G, ttb.ktensor):
        with ctx.sut("in-place-edit-of-the-guess"):
            ctx.label("guess-edit-" + _edit_in_place(G, rng, 1.0))
        ok = all(np.all(np.isfinite(f)) for f in G.factor_matrices)
        ctx.check((H.snapshot(r1[1]), H.snapshot(r2[1])) == (snap1[1], snap2[1]), "returned-guesses-unchanged-by-editing-the-callers-guess")
        if ok:
            snapG = H.snapshot(G)
            r3 = _live_run(ctx, "cp_als-after-editing-the-guess", X, R, case, G)
            _live_judge(ctx, r3, A2, R, case, seq, is_sum, "guess-edited-")
            ctx.check(H.snapshot(r3[1]) == snapG, "returned-guess-is-the-given-one")
            _same_as_fresh(ctx, X, G, R, case, r3, A2, "guess-edited")
            ctx.check(H.snapshot(G) == snapG, "guess-unchanged")
    snap3 = (H.snapshot(r3[0]), H.snapshot(r3[1]))

    # ---- the caller writes into everything the last call returned
    if r3 is not r2:
        for Kt in (r3[0], r3[1]):
            Kt.weights[...] = -3.0
            for f in Kt.factor_matrices:
                f[...] = 7.0
        ctx.check(H.snapshot(X) == snapX and H.snapshot(G) == snapG, "editing-the-results-leaves-data-and-guess-alone")
        ctx.check((H.snapshot(r1[0]), H.snapshot(r1[1])) == snap1 and (H.snapshot(r2[0]), H.snapshot(r2[1])) == snap2,
                  "editing-the-results-leaves-earlier-results-alone")
    del snap3


@cell("C09/cp_als/live-objects", strategy=_live_case, quick=500, thorough=8000, shards=(4, 16))
def cp_als_live_objects(ctx, case):
    """class 9: data and guess objects stay alive over several calls and are edited in place between them (item assignment,
    documented in-place operations); every call is judged against the state the objects have at that time, against a call on
    independent objects in the same state, and the results of earlier calls must stay what they were."""
    env = {}
    try:
        _live_inner(ctx, case, env)
    except Abort:
        if not ctx.violations:
            raise
    if not ctx.violations:
        return
    # a failure on an instance where the alternating iteration itself breaks down is not judged (see _breakdown)
    R = int(case["R"])
    for A, G in env.get("states", []):
        if G is None:
            continue
        try:
            if _breakdown(H.make_tensor(A), A, R, case, _rebuild(G), int(case["maxiters"])):
                ctx.violations.clear()
                ctx.skip("als-breakdown:singular-or-annihilating-step")
        except (Abort, Exception) as e:  # noqa: BLE001
            from ..core import Skip
            if isinstance(e, Skip):
                raise


# --------------------------------------------------------------------------
# round 4: class 13 (reporting options, logging level), class 11 (presentation of valid arguments), classes 12 / 14
# (state after a rejected request, ill-formed guesses that would broadcast)
# --------------------------------------------------------------------------

import contextlib as _contextlib
import logging as _logging


def _judged_unless_breakdown(ctx, case, inner):
    """inner(ctx, case, env); a failure on an instance where the alternating iteration itself breaks down is not judged"""
    env = {}
    try:
        inner(ctx, case, env)
    except Abort:
        if not (ctx.violations and "diag" in env and env["diag"]()):
            raise
    else:
        if not (ctx.violations and "diag" in env and env["diag"]()):
            return
    ctx.violations.clear()
    ctx.skip("als-breakdown:singular-or-annihilating-step")


def _prepare(ctx, case, env):
    shape = [int(s) for s in case["shape"]]
    N, R = len(shape), int(case["R"])
    X, A = H.build_data(case)
    if H.unfolding_margin(A, R) < 1e-6:
        ctx.skip("unfolding-rank-below-R")
    if case["init"] == "result":
        with ctx.sut("cp_als-producing-the-guess"):
            with H.captured():
                init = ttb.cp_als(X, R, init=H.build_init(dict(case, init="normal")), maxiters=1, printitn=0)[0]
        ctx.require(isinstance(init, ttb.ktensor), "returns-ktensor", type(init).__name__)
    else:
        init = H.build_init(case)
    dimorder = case["dimorder"] if case["dimorder"] is not None else list(range(N))
    optdims = case["optdims"] if case["optdims"] is not None else list(range(N))
    seq = [d for d in dimorder if d in optdims]
    memo = {}

    def diag():
        if "v" not in memo:
            memo["v"] = _breakdown(X, A, R, case, init, int(case["maxiters"]))
        return memo["v"]

    env["diag"] = diag
    return X, A, init, shape, N, R, seq, diag


def _bits(res):
    """everything a call returned that the caller can look at, bit for bit (model, returned guess, fit, residual, iterations)"""
    M, G, out = res
    f, nr = out.get("fit"), out.get("normresidual")
    return (H.snapshot(M), H.snapshot(G), np.float64(f).tobytes() if H.is_float(f) else repr(f),
            np.float64(nr).tobytes() if H.is_float(nr) else repr(nr), H.as_int(out.get("iters")))


REPORT_VARIANTS = {
    # name: (printitn | "maxiters" | "maxiters+1", level of the root logger or None)
    "printitn-1": (1, None), "printitn-2": (2, None), "printitn-3": (3, None), "printitn-1000": (1000, None),
    "printitn-10**9": (10**9, None), "printitn-maxiters": ("maxiters", None), "printitn-maxiters+1": ("maxiters+1", None),
    "printitn--1": (-1, None), "printitn--7": (-7, None),
    "debug-printitn-0": (0, _logging.DEBUG), "debug-printitn-1": (1, _logging.DEBUG), "debug-printitn-1000": (1000, _logging.DEBUG),
    "debug-printitn--1": (-1, _logging.DEBUG), "info-printitn-0": (0, _logging.INFO), "level1-printitn-0": (0, 1),
    "level1-printitn-2": (2, 1),
}


@st.composite
def _reporting_case(draw, tier):
    holder = draw(st.sampled_from(["tensor", "sptensor", "ttensor", "sumtensor", "sumtensor"]))
    c = draw(_case_strategy(holder, big_one_in=60)(tier))
    if c["init"] == "nvecs":  # recomputed by ARPACK with an unseedable start: not the same guess twice
        c["init"] = "normal"
    ks = draw(st.lists(st.integers(0, 10**6), min_size=3, max_size=5))
    names = sorted(REPORT_VARIANTS)
    c["variants"] = list(dict.fromkeys(names[k % len(names)] for k in ks))
    return c


def _reporting_inner(ctx, case, env):
    X, A, init, shape, N, R, seq, diag = _prepare(ctx, case, env)
    is_sum = case["holder"] == "sumtensor"
    maxiters, stoptol = int(case["maxiters"]), float(case["stoptol"])
    ctx.nt = R >= 2 and N >= 3
    ctx.label("holder-" + case["holder"], "init-" + case["init"], f"order{N}", "fixsigns-" + str(bool(case["fixsigns"])),
              "maxiters-1" if maxiters == 1 else "maxiters>1", "stoptol-0" if stoptol == 0 else "stoptol>0",
              "dimorder-and-optdims" if case["dimorder"] is not None and case["optdims"] is not None else "not-both-orders",
              "stoptol>0-with-maxiters-1" if stoptol > 0 and maxiters == 1 else "other-stop-options")
    snapX, snapI = H.snapshot(X), H.snapshot(init)
    res, text = _guarded(ctx, "cp_als-silent", diag, X, R, case, init, maxiters, stoptol, 0)
    base = _unpack(ctx, res, "silent-")
    _model_ok(ctx, base[0], shape, R, "silent-", diag)
    ctx.check(text.strip() == "", "silent-when-printitn-0", text[:80])
    _, S = _check_reported(ctx, base[2], A, base[0], is_sum, "silent-")
    _check_normal_form(ctx, base[0], "silent-")
    bb = _bits(base)
    ctx.label("stopped-early" if bb[4] is not None and bb[4] < maxiters - 1 else "ran-to-limit")
    first_printing = None
    for name in case["variants"]:
        p, level = REPORT_VARIANTS[name]
        p = maxiters if p == "maxiters" else (maxiters + 1 if p == "maxiters+1" else p)
        tag = ("log-level-" if level is not None else "") + ("printing-" if p > 0 else "silent-")
        ctx.label("variant-" + name)
        with (H.root_logger_at(level) if level is not None else _contextlib.nullcontext()):
            res, text = _guarded(ctx, "cp_als-" + tag[:-1], diag, X, R, case, init, maxiters, stoptol, p)
        v = _unpack(ctx, res, tag)
        _model_ok(ctx, v[0], shape, R, tag, diag)
        _check_reported(ctx, v[2], A, v[0], is_sum, tag)
        vb = _bits(v)
        ctx.check(vb[0] == bb[0], tag + "same-model-bits-as-the-silent-run", name)
        ctx.check(vb[1] == bb[1], tag + "same-returned-guess-bits-as-the-silent-run", name)
        ctx.check(vb[4] == bb[4], tag + "same-iteration-count-as-the-silent-run", (name, vb[4], bb[4]))
        if p <= 0:
            ctx.check(text.strip() == "", "silent-when-printitn-0", (name, text[:80]))
            ctx.check(vb[2:4] == bb[2:4], tag + "same-fit-and-residual-bits-as-the-silent-run",
                      (name, v[2].get("fit"), base[2].get("fit"), v[2].get("normresidual"), base[2].get("normresidual")))
        else:
            # with printing on, fit and residual are recomputed from the final model by another formula: equal to rounding
            fa, fb = float(v[2]["fit"]), float(base[2]["fit"])
            na, nb = float(v[2]["normresidual"]), float(base[2]["normresidual"])
            if is_sum:
                ok = abs(fa - fb) <= 1e-12 * S and abs(na - nb) <= 1e-12 * S
            else:
                nX = float(np.sqrt(H.sq(A)))
                ok = abs(na * na - nb * nb) <= 1e-12 * S and abs(((1 - fa) * nX) ** 2 - ((1 - fb) * nX) ** 2) <= 1e-12 * S
            ctx.check(ok, tag + "same-fit-and-residual-as-the-silent-run", (name, fa, fb, na, nb, S))
            if first_printing is None:
                first_printing = (name, vb)
            else:
                ctx.check(vb[2:4] == first_printing[1][2:4], tag + "same-fit-and-residual-bits-as-another-printing-run",
                          (name, first_printing[0], v[2].get("fit"), v[2].get("normresidual")))
            its, final, bad = H.parse_iter_lines(text)
            ctx.check(not bad and final is not None and printed_ok(final, fa), tag + "final-equals-reported-fit", (name, final, fa))
            if vb[4] is not None:
                idx = [i for i, _, _ in its]
                want = [k for k in range(vb[4] + 1) if k % p == 0]
                ctx.check(all(k in idx for k in want) and all(0 <= k <= vb[4] for k in idx), tag + "printed-iterations",
                          (name, idx, want))
    ctx.check(H.snapshot(X) == snapX, "data-unchanged")
    ctx.check(H.snapshot(init) == snapI, "guess-unchanged")


@cell("C09/cp_als/reporting-options", strategy=_reporting_case, quick=500, thorough=5000, shards=(4, 16))
def cp_als_reporting(ctx, case):
    """class 13: the same call (same data, same guess, same options) silent, printing at several intervals (1, 2, 3, the
    iteration limit, beyond it, 1000, 10**9, negative) and with the root logger at DEBUG / INFO / 1: model, returned guess and
    iteration count bit for bit; fit and residual bit for bit among the silent runs and among the printing runs, and equal to
    rounding (1e-12 S) across the two (the printing runs recompute them from the final model); every run judged against NumPy."""
    _judged_unless_breakdown(ctx, case, _reporting_inner)


ARG_PRESENTATIONS = (
    ["rank-int32", "rank-uint8", "rank-int64", "rank-uint16"]
    + ["orders-" + f for f in H.INT_FORMS]
    + ["orders-mixed", "optdims-bare-int", "optdims-bare-int32", "optdims-bare-uint8", "positional", "options-numpy-scalars",
       "options-python-ints", "defaults-made-explicit", "defaults-all"]
)
INIT_PRESENTATIONS = ["init-c-ordered", "init-strided", "init-readonly", "init-readonly-nocopy", "init-tuple", "init-copy-method"]
DATA_PRESENTATIONS = ["data-readonly", "data-readonly-nocopy", "data-strided", "data-c-ordered", "data-subs-int32", "data-subs-uint8",
                      "data-subs-uint16", "data-subs-uint64", "data-shape-int32", "data-shape-uint8", "data-shape-list"]


@st.composite
def _presentation_case(draw, tier):
    holder = draw(st.sampled_from(["tensor", "sptensor", "sptensor", "ttensor", "sumtensor"]))
    c = draw(_case_strategy(holder, big_one_in=60)(tier))
    if c["init"] == "nvecs":
        c["init"] = "normal"
    N = len(c["shape"])
    k = draw(st.integers(0, 10**6)) % 4
    if k == 0:  # a single optimised mode: may be given as a bare (numpy) int
        c["optdims"] = [draw(st.integers(0, N - 1))]
    elif k == 1 and c["optdims"] is None:
        c["optdims"] = list(draw(st.permutations(range(N))))[:draw(st.integers(1, N))]
    if c["dimorder"] is None and draw(st.booleans()):
        c["dimorder"] = list(draw(st.permutations(range(N))))
    c["form"] = "list"
    c["maxiters"] = min(int(c["maxiters"]), 4)
    if c["printitn"] < 0:
        c["printitn"] = 0
    pool = ARG_PRESENTATIONS * 2 + INIT_PRESENTATIONS + [d for d in DATA_PRESENTATIONS if holder in ("sptensor", "sumtensor", "ttensor")
                                                         or not d.startswith("data-subs")]
    # (drawn through integers: Hypothesis favours the first elements of sampled_from)
    ks = draw(st.lists(st.integers(0, 10**6), min_size=4, max_size=6))
    c["variants"] = list(dict.fromkeys(pool[k % len(pool)] for k in ks))
    if "defaults-made-explicit" in c["variants"]:
        c["dimorder"] = None
    return c


def _call(data, rank, init, o, np_seed, positional=False):
    """cp_als with the options of `o` (already in the presentation wanted); dimorder / optdims None = left out"""
    if isinstance(init, str) and init == "random":
        np.random.seed(np_seed)
    with H.captured() as buf:
        if positional:  # documented order: stoptol, maxiters, dimorder, optdims, init, printitn, fixsigns
            res = ttb.cp_als(data, rank, o["stoptol"], o["maxiters"], o["dimorder"], o["optdims"], init, o["printitn"], o["fixsigns"])
        else:
            kw = {k: v for k, v in o.items() if not (k in ("dimorder", "optdims") and v is None)}
            res = ttb.cp_als(data, rank, init=init, **kw)
    return res, buf.getvalue()


def _layout(x):
    """contiguity flags of every array a data object is made of"""
    fl = lambda a: (bool(np.asarray(a).flags["F_CONTIGUOUS"]), bool(np.asarray(a).flags["C_CONTIGUOUS"]))  # noqa: E731
    if isinstance(x, ttb.tensor):
        return ("tensor", fl(x.data))
    if isinstance(x, ttb.sptensor):
        return ("sptensor",)
    if isinstance(x, ttb.ktensor):
        return ("ktensor", tuple(fl(f) for f in x.factor_matrices))
    if isinstance(x, ttb.ttensor):
        return ("ttensor", _layout(x.core), tuple(fl(f) for f in x.factor_matrices))
    if isinstance(x, ttb.sumtensor):
        return ("sumtensor", tuple(_layout(p) for p in x.parts))
    return ("other",)


def _presentation_inner(ctx, case, env):
    X, A, init, shape, N, R, seq, diag = _prepare(ctx, case, env)
    is_sum = case["holder"] == "sumtensor"
    ctx.nt = R >= 2 and N >= 3
    o0 = dict(stoptol=float(case["stoptol"]), maxiters=int(case["maxiters"]),
              dimorder=None if case["dimorder"] is None else list(case["dimorder"]),
              optdims=None if case["optdims"] is None else list(case["optdims"]),
              printitn=int(case["printitn"]), fixsigns=bool(case["fixsigns"]))
    ctx.label("holder-" + case["holder"], "init-" + case["init"], f"order{N}",
              "dimorder-given" if o0["dimorder"] is not None else "dimorder-default",
              "optdims-default" if o0["optdims"] is None else ("optdims-single" if len(o0["optdims"]) == 1 else "optdims-several"),
              "dimorder-with-optdims" if o0["dimorder"] is not None and o0["optdims"] is not None else "not-both-orders")
    snapX, snapI = H.snapshot(X), H.snapshot(init)
    try:
        res, text0 = _call(X, R, init, o0, case["np_seed"])
    except (np.linalg.LinAlgError, FloatingPointError, ValueError):
        if diag():
            ctx.skip("als-breakdown:singular-or-annihilating-step")
        with ctx.sut("cp_als-canonical"):
            raise
    except Exception:  # noqa: BLE001
        with ctx.sut("cp_als-canonical"):
            raise
    base = _unpack(ctx, res, "canonical-")
    _model_ok(ctx, base[0], shape, R, "canonical-", diag)
    _check_reported(ctx, base[2], A, base[0], is_sum, "canonical-")
    bb = _bits(base)
    for name in case["variants"]:
        o, rank, data, guess, positional = dict(o0), R, X, init, False
        if name.startswith("rank-"):
            rank = np.dtype(name[5:]).type(R)
        elif name.startswith("orders-") and name != "orders-mixed":
            o["dimorder"] = H.int_seq_form(o0["dimorder"], name[7:])
            o["optdims"] = H.int_seq_form(o0["optdims"], name[7:])
        elif name == "orders-mixed":
            o["dimorder"] = H.int_seq_form(o0["dimorder"], "uint8")
            o["optdims"] = H.int_seq_form(o0["optdims"], "npscalars")
        elif name.startswith("optdims-bare"):
            if o0["optdims"] is None or len(o0["optdims"]) != 1:
                ctx.label("variant-not-applicable")
                continue
            o["optdims"] = H.int_seq_form(o0["optdims"], name[8:])
        elif name == "positional":
            positional = True
        elif name == "options-numpy-scalars":
            o.update(stoptol=np.float64(o0["stoptol"]), maxiters=np.int32(o0["maxiters"]), printitn=np.uint8(min(o0["printitn"], 200)),
                     fixsigns=np.bool_(o0["fixsigns"]))
            if o0["printitn"] > 200:
                ctx.label("variant-not-applicable")
                continue
        elif name == "options-python-ints":  # an integral tolerance / flag given as a Python int
            if o0["stoptol"] != int(o0["stoptol"]):
                ctx.label("variant-not-applicable")
                continue
            o.update(stoptol=int(o0["stoptol"]), fixsigns=int(o0["fixsigns"]))
        elif name == "defaults-made-explicit":  # an omitted mode list = the documented default range(N)
            if o0["dimorder"] is not None and o0["optdims"] is not None:
                ctx.label("variant-not-applicable")
                continue
            o["dimorder"] = list(range(N)) if o0["dimorder"] is None else o0["dimorder"]
            o["optdims"] = list(range(N)) if o0["optdims"] is None else o0["optdims"]
        elif name == "defaults-all":
            # every option left out against every option given with its documented default value (judged against each other)
            if case.get("big"):
                ctx.label("variant-not-applicable")
                continue
            ctx.label("variant-" + name)
            dflt = dict(stoptol=1e-4, maxiters=1000, dimorder=list(range(N)), optdims=list(range(N)), printitn=1, fixsigns=True)
            with ctx.sut("cp_als-presentation-defaults"):
                if isinstance(init, str):
                    np.random.seed(case["np_seed"])
                with H.captured() as b1:
                    r1 = ttb.cp_als(X, R, init=init)
                r2, t2 = _call(X, R, init, dflt, case["np_seed"], positional=bool(case["np_seed"] % 2))
            r1, r2 = _unpack(ctx, r1, "defaults-presentation-"), _unpack(ctx, r2, "defaults-presentation-")
            _model_ok(ctx, r1[0], shape, R, "defaults-presentation-", diag)
            _model_ok(ctx, r2[0], shape, R, "defaults-presentation-", diag)
            ctx.check(_bits(r1) == _bits(r2), "defaults-presentation-same-result-bits",
                      [i for i in range(5) if _bits(r1)[i] != _bits(r2)[i]])
            ctx.check(b1.getvalue() == t2, "defaults-presentation-same-printed-text")
            continue
        elif name.startswith("init-"):
            if not isinstance(init, ttb.ktensor):
                ctx.label("variant-not-applicable")
                continue
            guess = H.represent_factors(init, name[5:])
            ctx.require(H.snapshot([np.asarray(f) for f in guess.factor_matrices] + [np.asarray(guess.weights)])
                        == H.snapshot([np.asarray(f) for f in init.factor_matrices] + [np.asarray(init.weights)]),
                        "harness:guess-presentation-holds-the-same-values")
        elif name.startswith("data-"):
            try:
                data = H.represent_data(X, name[5:])
                same = np.array_equal(H.den(data), A) and tuple(int(n) for n in data.shape) == tuple(shape)
            except Exception:  # noqa: BLE001  (constructors are judged by other properties)
                same = False
            if not same:
                ctx.label("variant-constructor-does-not-give-the-same-tensor")
                continue
        ctx.label("variant-" + name)
        kind = name.split("-")[0]
        snapD, snapG = H.snapshot(data), H.snapshot(guess)
        with ctx.sut("cp_als-presentation-" + kind):
            res, text = _call(data, rank, guess, o, case["np_seed"], positional)
        v = _unpack(ctx, res, kind + "-presentation-")
        _model_ok(ctx, v[0], shape, R, kind + "-presentation-", diag)
        vb = _bits(v)
        if kind == "data" and _layout(data) != _layout(X):
            # another memory layout of the data buffers (the tensor at hand came out of growth / permute / arithmetic with a
            # C-ordered buffer, the constructor makes an F-ordered one): matrix products may round differently
            ctx.label("data-presentation-changes-the-memory-layout")
            _check_reported(ctx, v[2], A, v[0], is_sum, "data-presentation-")
            if vb[4] == bb[4]:
                Sx = _scale(float(np.sqrt(H.sq(A))), base[0])
                ctx.check(vb[1] == bb[1] and H.sq(ref.den(v[0]) - ref.den(base[0])) <= 1e-18 * Sx,
                          "data-presentation-same-model-up-to-rounding", name)
            else:
                ctx.check(o0["stoptol"] > 0, "data-presentation-same-iteration-count", (name, vb[4], bb[4]))
        else:
            ctx.check(vb == bb, kind + "-presentation-same-result-bits",
                      (name, [i for i in range(5) if vb[i] != bb[i]], v[2].get("fit"), base[2].get("fit"), vb[4], bb[4]))
            ctx.check(text == text0, kind + "-presentation-same-printed-text", name)
        ctx.check(H.snapshot(data) == snapD, kind + "-presentation-data-unchanged", name)
        ctx.check(H.snapshot(guess) == snapG, kind + "-presentation-guess-unchanged", name)
    ctx.check(H.snapshot(X) == snapX, "data-unchanged")
    ctx.check(H.snapshot(init) == snapI, "guess-unchanged")


@cell("C09/cp_als/presentations", strategy=_presentation_case, quick=400, thorough=4000, shards=(4, 16))
def cp_als_presentations(ctx, case):
    """class 11: the same request in another presentation -- rank as a numpy integer scalar (int32, uint8, uint16, int64),
    dimorder / optdims as list, tuple, integer arrays (int16..uint64), list of numpy scalars, 1 x n row, a single optimised mode as a
    bare (numpy) int, all options positionally, options as numpy scalars / Python ints, the guess built from C-ordered / strided /
    read-only (also by reference) matrices, a tuple of matrices or ktensor.copy(), the data built from read-only (also by
    reference) / strided / C-ordered arrays, sparse subscripts in int32 / uint8 / uint16 / uint64, shape as list or numpy integers
    -- gives the same result bit for bit and the same printed text, and changes neither data nor guess."""
    _judged_unless_breakdown(ctx, case, _presentation_inner)


# requests the documentation excludes.  "must": the docstring demands it of a given guess (same shape as the data, same rank as
# requested) -> the call must be rejected.  "may": not a permutation / empty / unknown names -> judged only if rejected.
REJECTED = {
    "guess-one-more-component": "must", "guess-single-component": "must", "guess-mode-of-size-1": "must",
    "guess-fixed-mode-of-size-1": "must", "guess-one-more-row": "must", "guess-one-mode-fewer": "must", "guess-one-mode-more": "must",
    "guess-two-modes-swapped": "must",
    "dimorder-duplicate": "may", "dimorder-short": "may", "dimorder-out-of-range": "may", "dimorder-empty": "may",
    "optdims-empty": "may", "rank-0": "may", "rank-negative": "may", "init-unknown-name": "may", "maxiters-0": "may",
}


@st.composite
def _rejected_case(draw, tier):
    holder = draw(st.sampled_from(["tensor", "sptensor", "ttensor", "sumtensor"]))
    c = draw(_case_strategy(holder, big_one_in=10**6)(tier))
    c["init"] = ["normal", "uniform", "normal", "random"][draw(st.integers(0, 10**6)) % 4]
    c["init_scale"] = 1.0
    c["maxiters"] = min(int(c["maxiters"]), 3)
    c["form"] = "list"
    if draw(st.integers(0, 10**6)) % 3 == 0:  # every extent 1 except one mode: everything broadcasts against everything
        k = draw(st.integers(0, len(c["shape"]) - 1))
        c["shape"] = [n if i == k else 1 for i, n in enumerate(c["shape"])]
        c["R"], c["rtrue"] = 1, 1
    names = sorted(REJECTED)
    ks = draw(st.lists(st.integers(0, 10**6), min_size=1, max_size=3))
    c["rejected"] = [names[k % len(names)] for k in ks]
    c["bad_seed"] = draw(st.integers(0, 10**6))
    return c


def _ill_formed(name, case, shape, R, init, o0, rng):
    """(rank, guess, options) of the ill-formed request, or None when it cannot be formed for this case"""
    N = len(shape)
    rank, guess, o = R, init, dict(o0)
    g = lambda n, r: rng.standard_normal((n, r))  # noqa: E731
    optd = o0["optdims"] if o0["optdims"] is not None else list(range(N))
    if name.startswith("guess-"):
        sizes, r = list(shape), R
        if name == "guess-one-more-component":
            r = R + 1
        elif name == "guess-single-component":
            if R == 1:
                return None
            r = 1
        elif name in ("guess-mode-of-size-1", "guess-fixed-mode-of-size-1", "guess-one-more-row"):
            cand = [k for k in range(N) if shape[k] > 1 or name == "guess-one-more-row"]
            if name == "guess-fixed-mode-of-size-1":
                cand = [k for k in cand if k not in optd]
            if not cand:
                return None
            k = cand[int(rng.integers(0, len(cand)))]
            sizes[k] = shape[k] + 1 if name == "guess-one-more-row" else 1
        elif name == "guess-one-mode-fewer":
            if N < 3:
                return None
            sizes = sizes[:-1]
        elif name == "guess-one-mode-more":
            sizes = sizes + [1]
        elif name == "guess-two-modes-swapped":
            pairs = [(i, j) for i in range(N) for j in range(i + 1, N) if shape[i] != shape[j]]
            if not pairs:
                return None
            i, j = pairs[int(rng.integers(0, len(pairs)))]
            sizes[i], sizes[j] = sizes[j], sizes[i]
        guess = H.make_ktensor(np.ones(r), [g(n, r) for n in sizes])
    elif name == "dimorder-duplicate":
        d = list(range(N))
        d[int(rng.integers(1, N))] = 0
        o["dimorder"] = d
    elif name == "dimorder-short":
        o["dimorder"] = list(range(N - 1))
    elif name == "dimorder-out-of-range":
        o["dimorder"] = list(range(1, N + 1))
    elif name == "dimorder-empty":
        o["dimorder"] = []
    elif name == "optdims-empty":
        o["optdims"] = []
    elif name == "rank-0":
        rank = 0
    elif name == "rank-negative":
        rank = -R
    elif name == "init-unknown-name":
        guess = "svd"
    elif name == "maxiters-0":
        o["maxiters"] = 0
    return rank, guess, o


def _environment():
    """process-wide settings a library call has no business changing"""
    po = np.get_printoptions()
    return (tuple(sorted(np.geterr().items())), tuple(sorted((k, repr(v)) for k, v in po.items())),
            _logging.getLogger().level, _logging.getLogger().manager.disable)


def _rejected_inner(ctx, case, env):
    X, A, init, shape, N, R, seq, diag = _prepare(ctx, case, env)
    is_sum = case["holder"] == "sumtensor"
    ctx.nt = N >= 3
    o0 = dict(stoptol=float(case["stoptol"]), maxiters=int(case["maxiters"]),
              dimorder=None if case["dimorder"] is None else list(case["dimorder"]),
              optdims=None if case["optdims"] is None else list(case["optdims"]),
              printitn=int(case["printitn"]), fixsigns=bool(case["fixsigns"]))
    ctx.label("holder-" + case["holder"], "init-" + case["init"], f"order{N}",
              "all-but-one-extent-1" if sum(1 for n in shape if n > 1) <= 1 else "several-extents>1")
    snapX, snapI = H.snapshot(X), H.snapshot(init)
    try:
        res, text0 = _call(X, R, init, o0, case["np_seed"])
    except (np.linalg.LinAlgError, FloatingPointError, ValueError):
        if diag():
            ctx.skip("als-breakdown:singular-or-annihilating-step")
        with ctx.sut("cp_als-before"):
            raise
    except Exception:  # noqa: BLE001
        with ctx.sut("cp_als-before"):
            raise
    base = _unpack(ctx, res, "before-")
    _model_ok(ctx, base[0], shape, R, "before-", diag)
    _check_reported(ctx, base[2], A, base[0], is_sum, "before-")
    bb = _bits(base)
    rng = np.random.default_rng([97, int(case["bad_seed"])])
    for name in case["rejected"]:
        bad = _ill_formed(name, case, shape, R, init, o0, rng)
        if bad is None:
            ctx.label("request-not-formable")
            continue
        rank, guess, o = bad
        snapB = H.snapshot(guess)
        raised = None
        # (the harness runs every cell with all floating-point events ignored: give the settings a value that can be changed)
        with np.errstate(divide="warn", invalid="warn", over="warn", under="ignore"):
            envb = _environment()
            try:
                _call(X, rank, guess, o, case["np_seed"])
            except Exception as e:  # noqa: BLE001
                raised = e
            enva = _environment()
        ctx.label("rejected-" + name if raised is not None else "accepted-" + name)
        if REJECTED[name] == "must":
            ctx.check(raised is not None, "ill-formed-guess-is-rejected", name)
        ctx.check(enva == envb, "process-settings-unchanged-by-a-rejected-request" if raised is not None else
                  "process-settings-unchanged", name)
        ctx.check(H.snapshot(X) == snapX, "data-unchanged-by-a-rejected-request" if raised is not None else "data-unchanged", name)
        ctx.check(H.snapshot(init) == snapI and H.snapshot(guess) == snapB,
                  "guess-unchanged-by-a-rejected-request" if raised is not None else "guess-unchanged", name)
        ctx.check(_bits(base) == bb, "earlier-result-unchanged-by-a-rejected-request" if raised is not None else
                  "earlier-result-unchanged", name)
        # the valid request again, as if the rejected one had not happened
        with ctx.sut("cp_als-after-a-rejected-request"):
            res, text = _call(X, R, init, o0, case["np_seed"])
        v = _unpack(ctx, res, "after-")
        _model_ok(ctx, v[0], shape, R, "after-", diag)
        vb = _bits(v)
        ctx.check(vb == bb and text == text0, "same-result-bits-after-a-rejected-request" if raised is not None else
                  "same-result-bits-after-another-request", (name, [i for i in range(5) if vb[i] != bb[i]]))
    ctx.check(H.snapshot(X) == snapX, "data-unchanged")
    ctx.check(H.snapshot(init) == snapI, "guess-unchanged")


@cell("C09/cp_als/rejected-requests", strategy=_rejected_case, quick=300, thorough=3000, shards=(4, 16))
def cp_als_rejected(ctx, case):
    """classes 12 and 14: between two identical valid calls the caller makes 1..3 requests the documentation excludes -- a guess
    with another rank (R + 1, or 1: broadcasts), another number of modes, a mode of size 1 (broadcasts; also a mode that is not
    optimised), one more row, two modes swapped: must be rejected; a dimorder that is no permutation (duplicate, short, out of
    range, empty), empty optdims, rank 0 / negative, an unknown guess name, maxiters 0: judged only when rejected.  After each: data,
    valid guess, ill-formed guess, the earlier result and process-wide settings (numpy error state, print options, logging) are
    what they were, and the valid call gives the same bits as before.  A third of the cases have every extent but one equal to 1."""
    _judged_unless_breakdown(ctx, case, _rejected_inner)


def _float32_extreme(case):
    """float32 data whose squares leave the float32 range (|x| ~ 1e-25 or 1e+25) although values and norm are representable"""
    return case.get("holder") in ("tensor", "sptensor") and float(case.get("scale", 1.0)) in (1e-25, 1e25)


PREDICATES["float32_extreme_scale"] = _float32_extreme


@st.composite
def _float32_case(draw, tier):
    holder = draw(st.sampled_from(["tensor", "sptensor"]))
    c = draw(_case_strategy(holder, big_one_in=60)(tier))
    c["dtype"] = "float64"  # generated in double, then rounded to single: the float32 array *is* the data
    c.pop("mag", None)
    c["prov"], c["sp_state"] = "ctor", "plain"
    c["scale"] = [1.0, 1.0, 1e-6, 1e6, 1e-3, 1e-25, 1.0, 1e-12, 1e9, 1e-15, 1e15, 1e25][draw(st.integers(0, 10**6)) % 12]
    if c["init"] in ("nvecs", "result"):
        c["init"] = "normal"
    c["init_scale"] = 1.0
    c["maxiters"] = min(int(c["maxiters"]), 4)
    return c


def _float32_inner(ctx, case, env):
    shape = [int(s) for s in case["shape"]]
    N, R = len(shape), int(case["R"])
    _, A0 = H.build_data(case)
    A32 = np.asarray(A0).astype(np.float32)
    A = A32.astype(np.float64)  # the tensor the float32 holder denotes, exactly
    if not np.all(np.isfinite(A)) or H.unfolding_margin(A, R) < 1e-6:
        ctx.skip("unfolding-rank-below-R")
    if case["holder"] == "tensor":
        X32, X64 = ttb.tensor(np.asfortranarray(A32), tuple(shape)), H.make_tensor(A)
    else:
        X64 = H.make_sptensor(A, int(case["data_seed"]), case.get("stored", "random"))
        if np.asarray(X64.subs).size == 0:
            ctx.skip("unfolding-rank-below-R")
        X32 = ttb.sptensor(np.array(X64.subs, copy=True), np.asarray(X64.vals).astype(np.float32), tuple(shape))
    init = H.build_init(case)
    maxiters, stoptol, printitn = int(case["maxiters"]), float(case["stoptol"]), int(case["printitn"])
    memo = {}

    def diag():
        if "v" not in memo:
            memo["v"] = _breakdown(X64, A, R, case, init, maxiters)
        return memo["v"]

    env["diag"] = diag
    ctx.nt = R >= 2 and N >= 3
    ctx.label("holder-" + case["holder"], "scale-%g" % float(case["scale"]), f"order{N}", "printitn-on" if printitn > 0 else "printitn-off")
    snapX, snapI = H.snapshot(X32), H.snapshot(init)
    res, _ = _guarded(ctx, "cp_als-float32", diag, X32, R, case, init, maxiters, stoptol, printitn)
    M, Minit, out = _unpack(ctx, res, "float32-")
    _model_ok(ctx, M, shape, R, "float32-", diag)
    ctx.check(H.snapshot(X32) == snapX, "float32-data-unchanged")
    ctx.check(H.snapshot(init) == snapI and (not isinstance(init, ttb.ktensor) or H.snapshot(Minit) == snapI),
              "float32-guess-unchanged-and-returned")
    _check_normal_form(ctx, M, "float32-")
    iters = H.as_int(out.get("iters")) if isinstance(out, dict) else None
    ctx.require(iters is not None and 0 <= iters <= maxiters - 1, "float32-iters-within-limit", iters)
    if stoptol == 0:
        ctx.check(iters == maxiters - 1, "float32-stoptol0-runs-all-iterations", (iters, maxiters))
    # reported numbers against NumPy in double on the array the holder denotes, single-precision bounds (eps32 = 6e-8)
    ctx.require(isinstance(out, dict) and all(k in out for k in ("fit", "normresidual")), "float32-output-keys")
    fit, nr = out["fit"], out["normresidual"]
    ctx.require(H.is_float(fit) and H.is_float(nr) and np.isfinite(fit) and np.isfinite(nr), "float32-fit-is-finite-number", (fit, nr))
    fit, nr = float(fit), float(nr)
    D = ref.den(M)
    nX = float(np.sqrt(H.sq(A)))
    r2 = H.sq(A - D)
    S = _scale(nX, M)
    ctx.check(nr >= 0 and abs(nr * nr - r2) <= 1e-5 * S, "float32-normresidual-vs-recomputed",
              f"reported^2 {nr * nr!r} recomputed^2 {r2!r} S={S:.3g}")
    ctx.check(abs((1.0 - fit) * nX - nr) <= 1e-5 * (nX + abs(nr)), "float32-fit-vs-normresidual", (fit, nr, nX))
    # the same values held in double: same request in two presentations (judged after one sweep only: later sweeps may amplify
    # single-precision differences by the conditioning of the subproblems)
    if maxiters == 1:
        res64, _ = _guarded(ctx, "cp_als-float64-holder", diag, X64, R, case, init, maxiters, stoptol, printitn)
        M64, _, out64 = _unpack(ctx, res64, "float64-holder-")
        _model_ok(ctx, M64, shape, R, "float64-holder-", diag)
        ctx.check(H.sq(D - ref.den(M64)) <= 1e-6 * S, "float32-holder-same-model-as-float64-holder-to-single-precision",
                  (H.sq(D - ref.den(M64)), S))


@cell("C09/cp_als/float32-data", strategy=_float32_case, quick=200, thorough=2000, shards=(4, 16))
def cp_als_float32(ctx, case):
    """class 11: data held in float32 (tensor, sptensor; magnitudes 1e-25 .. 1e+25, all representable).  Exact clauses (shape,
    rank, normal form, iteration count, data / guess untouched) as usual; reported fit and residual against NumPy in double with
    single-precision bounds 1e-5 S; after one sweep the model agrees with the one for the same values held in float64."""
    _judged_unless_breakdown(ctx, case, _float32_inner)
