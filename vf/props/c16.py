"""C16 — export_data followed by import_data reproduces tensor / sptensor / ktensor / matrix bit for bit.

Each case writes one object with the default formats to a file in a fresh temporary directory (removed at the end
of the case), (a) parses the file text with the harness' own reader and checks the documented layout: type line, order,
sizes, values in first-index-fastest order (dense), '1-based subscripts ... value' lines in stored order (sparse), weights
line then one 'matrix' block per mode written row by row (Kruskal), rows of the matrix (matrix); (b) reads the file back
with import_data: same type, same shape, and the float64 bit patterns (``view(uint64)``, so -0.0 != 0.0 here) of data /
vals / weights / factor matrices equal, subscripts equal including their order; (c) for sparse tensors the harness
rewrites the subscripts of the file with another index base b and ``import_data(file, index_base=b)`` must give the
same subscripts.
"""

from __future__ import annotations

import logging
import os
import shutil
import tempfile

import numpy as np
from hypothesis import strategies as st

import pyttb as ttb

from .. import gen, ref
from ..core import cell

PROPERTY = "C16"

# import_data(ktensor) and ktensor(copy=False) log a layout warning per call through the root logger; keep the check's
# output to verdict lines (this runs in the check's own worker processes only)
logging.getLogger().setLevel(logging.ERROR)
RULE = (
    "cases = (object kind, shape incl. 1-way and singleton modes, finite doubles from the whole exponent range incl. "
    "subnormals, +-max, -0.0 and values that need 17 significant digits, stored order of nonzeros, rank, memory layout of "
    "the arrays handed in, index base) drawn by Hypothesis; oracle = harness-side parse of the written text (layout, "
    "1-based subscripts) and bit equality (uint64 views) after import_data, plus import of a harness-rewritten file with "
    "index base 0/2/5.  Non-trivial: at least two distinct sizes (dense: F/C order matters; Kruskal/matrix: a "
    "non-square matrix) and at least one value that does not survive 16 significant digits."
)
ASSUMPTIONS = [
    "float64 objects are compared bit for bit; integer-dtype tensors/matrices (a minority class) are compared by value, "
    "because the file format has no dtype and import_data returns float64",
    "sparse tensors are well-formed (distinct subscripts, non-zero values)",
    "files live in tempfile.mkdtemp() directories removed at the end of each case",
]

# --------------------------------------------------------------------------
# values: whole double range
# --------------------------------------------------------------------------

_SPECIAL = [
    0.0, -0.0, 5e-324, -5e-324, 2.2250738585072014e-308, 2.225073858507201e-308, 1.7976931348623157e308,
    -1.7976931348623157e308, 0.1, 1.0 / 3.0, 0.30000000000000004, 1.0000000000000002, 0.9999999999999999,
    9007199254740993.0, 1e22, 1e23, 8.41e21, 2.0 ** -1022, 123456789.12345679, -2.5, 1.0, 7.0, 5e-310,
    1.2345678901234567e-5, 6.02214076e23, 4.35e-320,
]

FULL = st.one_of(
    st.floats(allow_nan=False, allow_infinity=False, width=64),
    st.floats(allow_nan=False, allow_infinity=False, width=64),
    st.sampled_from(_SPECIAL),
    st.floats(-10, 10, allow_nan=False, width=64),
)
FULL_NZ = FULL.filter(lambda v: v != 0.0)


def bits(a) -> np.ndarray:
    return np.ascontiguousarray(np.asarray(a, dtype=np.float64)).view(np.uint64)


def same_bits(a, b) -> bool:
    a, b = np.asarray(a), np.asarray(b)
    return a.shape == b.shape and a.dtype == np.float64 and b.dtype == np.float64 and bool(np.all(bits(a) == bits(b)))


def needs17(vals) -> bool:
    for v in vals:
        v = float(v)
        if v != 0 and float("%.15e" % v) != v:
            return True
    return False


def _bits_of_text(tok: str):
    """float64 bit pattern of a number written in the file (python's float() is correctly rounded)."""
    return np.array([float(tok)], dtype=np.float64).view(np.uint64)[0]


class Scratch:
    def __enter__(self):
        self.dir = tempfile.mkdtemp(prefix="vf-c16-")
        return self

    def path(self, name="x.tns"):
        return os.path.join(self.dir, name)

    def __exit__(self, *exc):
        shutil.rmtree(self.dir, ignore_errors=True)
        return False


def _read_lines(path):
    with open(path) as f:
        return [ln.rstrip("\n") for ln in f.read().split("\n")]


def _expect_header(ctx, lines, kind, shape, what):
    """type line, number of modes, sizes; returns index of the next line"""
    ctx.require(len(lines) >= 3, f"{what}-file-has-header", lines[:3])
    ctx.check(lines[0].strip() == kind, f"{what}-type-line", lines[0])
    ctx.check(lines[1].split() == [str(len(shape))], f"{what}-order-line", lines[1])
    ctx.check(lines[2].split() == [str(int(s)) for s in shape], f"{what}-sizes-line", lines[2])
    return 3


def _tokens_equal_bits(tokens, values):
    if len(tokens) != len(values):
        return False
    try:
        return all(_bits_of_text(t) == b for t, b in zip(tokens, bits(np.array(values, dtype=float)).tolist()))
    except ValueError:
        return False


# --------------------------------------------------------------------------
# dense tensor
# --------------------------------------------------------------------------


@st.composite
def _tensor_case(draw, tier):
    shape = draw(gen.shapes(tier, min_order=1))
    n = ref.prod(shape)
    dtype = draw(st.sampled_from(["float"] * 9 + ["int"]))
    if dtype == "float":
        data = draw(st.lists(FULL, min_size=n, max_size=n))
    else:
        data = [float(v) for v in draw(st.lists(st.integers(-10 ** 6, 10 ** 6), min_size=n, max_size=n))]
    return dict(shape=shape, data=data, dtype=dtype)


@cell("C16/tensor", strategy=_tensor_case, quick=500, thorough=10000, shards=(2, 8))
def rt_tensor(ctx, case):
    shape = tuple(case["shape"])
    A = gen.arr_F(shape, case["data"])
    if case["dtype"] == "int":
        A = A.astype(np.int64)
    ctx.label(*gen.shape_classes(shape), "dtype-" + case["dtype"])
    ctx.nt = len(set(shape)) >= 2 and (case["dtype"] == "int" or needs17(case["data"]))
    T = ttb.tensor(A.copy(order="F"), shape)
    flatF = [float(v) for v in A.ravel(order="F")]
    with Scratch() as sc:
        p = sc.path()
        with ctx.sut("export_data(tensor)"):
            ttb.export_data(T, p)
        lines = _read_lines(p)
        k = _expect_header(ctx, lines, "tensor", shape, "tensor")
        toks = [t for ln in lines[k:] for t in ln.split()]
        ctx.check(_tokens_equal_bits(toks, flatF), "tensor-file-values-first-index-fastest", toks[:6])
        with ctx.sut("import_data(tensor)"):
            R = ttb.import_data(p)
    ctx.require(isinstance(R, ttb.tensor), "tensor-roundtrip-type", type(R).__name__)
    ctx.check(tuple(int(s) for s in R.shape) == shape, "tensor-roundtrip-shape", R.shape)
    ctx.require(isinstance(R.data, np.ndarray) and R.data.shape == shape, "tensor-roundtrip-data-shape",
                getattr(R.data, "shape", None))
    if case["dtype"] == "float":
        ctx.check(same_bits(R.data, A), "tensor-roundtrip-bits", ref.diff_info(R.data, A))
    else:
        ctx.check(np.array_equal(R.data, A), "tensor-roundtrip-values", ref.diff_info(R.data, A))
    ctx.check(np.array_equal(T.data, A) and tuple(T.shape) == shape, "export-leaves-object")


# --------------------------------------------------------------------------
# sparse tensor
# --------------------------------------------------------------------------


@st.composite
def _sptensor_case(draw, tier):
    shape = draw(gen.shapes(tier, min_order=1))
    n = ref.prod(shape)
    pattern = draw(st.sampled_from(["none", "one", "some", "some", "all"]))
    subsF = ref.all_subs_F(shape)
    if pattern == "none":
        keep = []
    elif pattern == "one":
        keep = [draw(st.integers(0, n - 1))]
    elif pattern == "all":
        keep = list(range(n))
    else:
        m = draw(st.lists(st.booleans(), min_size=n, max_size=n))
        keep = [i for i in range(n) if m[i]]
    order = draw(st.sampled_from(["sorted", "reverse", "random"]))
    if order == "reverse":
        keep = keep[::-1]
    elif order == "random" and len(keep) > 1:
        keep = list(draw(st.permutations(keep)))
    dtype = draw(st.sampled_from(["float"] * 9 + ["int"]))
    if dtype == "float":
        vals = draw(st.lists(FULL_NZ, min_size=len(keep), max_size=len(keep)))
    else:
        vals = [float(v) for v in draw(st.lists(st.integers(1, 10 ** 6), min_size=len(keep), max_size=len(keep)))]
    return dict(shape=shape, subs=[list(subsF[i]) for i in keep], vals=vals, pattern=pattern, order=order, dtype=dtype,
                base=draw(st.sampled_from([0, 2, 5])))


@cell("C16/sptensor", strategy=_sptensor_case, quick=500, thorough=10000, shards=(2, 8))
def rt_sptensor(ctx, case):
    shape = tuple(case["shape"])
    N = len(shape)
    nnz = len(case["subs"])
    ctx.label(*gen.shape_classes(shape), "pattern-" + case["pattern"], "stored-" + case["order"], "dtype-" + case["dtype"],
              f"base{case['base']}")
    ctx.nt = nnz >= 2 and len(set(shape)) >= 2 and (case["dtype"] == "int" or needs17(case["vals"]))
    subs = np.array(case["subs"], dtype=int).reshape(nnz, N)
    vals = np.array(case["vals"], dtype=float).reshape(nnz, 1)
    if case["dtype"] == "int":
        vals = vals.astype(np.int64)
    S = ttb.sptensor(subs.copy(), vals.copy(), shape) if nnz else ttb.sptensor(shape=shape)
    with Scratch() as sc:
        p = sc.path()
        with ctx.sut("export_data(sptensor)"):
            ttb.export_data(S, p)
        lines = _read_lines(p)
        k = _expect_header(ctx, lines, "sptensor", shape, "sptensor")
        ctx.require(len(lines) > k and lines[k].split() == [str(nnz)], "sptensor-nnz-line", lines[k:k + 1])
        body = [ln.split() for ln in lines[k + 1:] if ln.strip()]
        ctx.require(len(body) == nnz and all(len(b) == N + 1 for b in body), "sptensor-one-line-per-nonzero",
                    body[:2])
        file_subs = None
        try:
            file_subs = [[int(t) for t in b[:N]] for b in body]
        except ValueError:
            ctx.check(False, "sptensor-file-subscripts-are-integers", body[:2])
        if file_subs is not None:
            ctx.check(file_subs == (subs + 1).tolist(), "sptensor-file-subscripts-one-based-in-stored-order",
                      f"{file_subs[:3]} vs {(subs + 1).tolist()[:3]}")
            ctx.check(_tokens_equal_bits([b[N] for b in body], [float(v) for v in vals.reshape(-1)]),
                      "sptensor-file-values", [b[N] for b in body][:4])
        with ctx.sut("import_data(sptensor)"):
            R = ttb.import_data(p)
        _check_sp(ctx, R, shape, subs, vals, case, "sptensor-roundtrip")
        # explicit default base
        with ctx.sut("import_data(sptensor, index_base=1)"):
            R1 = ttb.import_data(p, index_base=1)
        _check_sp(ctx, R1, shape, subs, vals, case, "sptensor-roundtrip-base1")
        # another index base: the harness rewrites the subscripts of the file it has just validated
        if file_subs is not None and nnz:
            b = case["base"]
            p2 = sc.path("rebased.tns")
            with open(p2, "w") as f:
                f.write("\n".join(lines[: k + 1]) + "\n")
                for row, toks in zip(subs.tolist(), body):
                    f.write(" ".join(str(s + b) for s in row) + " " + toks[N] + "\n")
            with ctx.sut("import_data(sptensor, index_base=b)"):
                R2 = ttb.import_data(p2, index_base=b)
            _check_sp(ctx, R2, shape, subs, vals, case, "sptensor-other-base")
    ctx.check((S.subs.size == 0 and nnz == 0) or (np.array_equal(S.subs, subs) and np.array_equal(S.vals, vals)),
              "export-leaves-object")


def _check_sp(ctx, R, shape, subs, vals, case, what):
    ctx.require(isinstance(R, ttb.sptensor), f"{what}-type", type(R).__name__)
    ctx.check(tuple(int(s) for s in R.shape) == shape, f"{what}-shape", R.shape)
    nnz = subs.shape[0]
    if nnz == 0:
        ctx.check(R.subs.size == 0 and R.vals.size == 0, f"{what}-empty-stays-empty", (R.subs.shape, R.vals.shape))
        return
    ctx.require(isinstance(R.subs, np.ndarray) and R.subs.shape == subs.shape, f"{what}-subs-shape",
                getattr(R.subs, "shape", None))
    ctx.check(np.issubdtype(R.subs.dtype, np.integer), f"{what}-subs-integer", R.subs.dtype)
    ctx.check(np.array_equal(R.subs, subs), f"{what}-subs-and-order", f"{R.subs.tolist()[:3]} vs {subs.tolist()[:3]}")
    ctx.require(isinstance(R.vals, np.ndarray) and R.vals.shape == (nnz, 1), f"{what}-vals-shape",
                getattr(R.vals, "shape", None))
    if case["dtype"] == "float":
        ctx.check(same_bits(R.vals, vals), f"{what}-vals-bits", ref.diff_info(R.vals, vals))
    else:
        ctx.check(np.array_equal(R.vals, vals), f"{what}-vals-values")


# --------------------------------------------------------------------------
# Kruskal tensor
# --------------------------------------------------------------------------


@st.composite
def _ktensor_case(draw, tier):
    N = draw(st.integers(1, 3))
    r = draw(st.integers(1, 4))
    maxs = 4 if tier == "quick" else 6
    shape = [draw(st.integers(1, maxs)) for _ in range(N)]
    w = draw(st.lists(FULL, min_size=r, max_size=r))
    factors = [draw(st.lists(st.lists(FULL, min_size=r, max_size=r), min_size=n, max_size=n)) for n in shape]
    layout = [draw(st.sampled_from(["C", "F"])) for _ in range(N)]
    return dict(shape=shape, rank=r, weights=w, factors=factors, layout=layout, copy=draw(st.booleans()))


@cell("C16/ktensor", strategy=_ktensor_case, quick=500, thorough=10000, shards=(2, 8))
def rt_ktensor(ctx, case):
    shape, r = tuple(case["shape"]), case["rank"]
    fms = [np.array(f, dtype=float).reshape(n, r) for f, n in zip(case["factors"], shape)]
    w = np.array(case["weights"], dtype=float)
    ctx.label(f"order{len(shape)}", f"rank{r}", "non-square-factor" if any(n != r for n in shape) else "square-factors",
              "has-singleton" if 1 in shape else "no-singleton")
    allv = list(case["weights"]) + [v for f in case["factors"] for row in f for v in row]
    ctx.nt = any(n != r and n > 1 and r > 1 for n in shape) and needs17(allv)
    given = [np.asfortranarray(f.copy()) if lay == "F" else np.ascontiguousarray(f.copy())
             for f, lay in zip(fms, case["layout"])]
    K = ttb.ktensor(given, w.copy(), copy=case["copy"])
    with Scratch() as sc:
        p = sc.path()
        with ctx.sut("export_data(ktensor)"):
            ttb.export_data(K, p)
        lines = _read_lines(p)
        k = _expect_header(ctx, lines, "ktensor", shape, "ktensor")
        ctx.require(len(lines) > k + 1 and lines[k].split() == [str(r)], "ktensor-rank-line", lines[k:k + 1])
        ctx.check(_tokens_equal_bits(lines[k + 1].split(), w.tolist()), "ktensor-file-weights", lines[k + 1])
        pos = k + 2
        ok_layout = True
        for n_, f in zip(shape, fms):
            blk = lines[pos:pos + 3 + n_]
            if len(blk) < 3 + n_ or blk[0].strip() != "matrix" or blk[1].split() != ["2"] or \
                    blk[2].split() != [str(n_), str(r)]:
                ok_layout = False
                ctx.check(False, "ktensor-file-matrix-block-header", blk[:3])
                break
            rows_ok = all(_tokens_equal_bits(blk[3 + i].split(), f[i, :].tolist()) for i in range(n_))
            ctx.check(rows_ok, "ktensor-file-factor-row-by-row", blk[3:5])
            pos += 3 + n_
        with ctx.sut("import_data(ktensor)"):
            R = ttb.import_data(p)
    ctx.require(isinstance(R, ttb.ktensor), "ktensor-roundtrip-type", type(R).__name__)
    ctx.check(tuple(int(s) for s in R.shape) == shape, "ktensor-roundtrip-shape", R.shape)
    ctx.check(same_bits(R.weights, w), "ktensor-roundtrip-weights-bits", ref.diff_info(R.weights, w))
    ctx.require(len(R.factor_matrices) == len(fms), "ktensor-roundtrip-number-of-factors", len(R.factor_matrices))
    for i, (g, f) in enumerate(zip(R.factor_matrices, fms)):
        ctx.check(same_bits(g, f), "ktensor-roundtrip-factor-bits", f"mode {i}: {ref.diff_info(g, f)}")
    ctx.check(all(np.array_equal(a, b) for a, b in zip(K.factor_matrices, fms)) and np.array_equal(K.weights, w),
              "export-leaves-object")


# --------------------------------------------------------------------------
# matrix
# --------------------------------------------------------------------------


@st.composite
def _matrix_case(draw, tier):
    maxs = 5 if tier == "quick" else 8
    m, n = draw(st.integers(1, maxs)), draw(st.integers(1, maxs))
    dtype = draw(st.sampled_from(["float"] * 9 + ["int"]))
    if dtype == "float":
        rows = draw(st.lists(st.lists(FULL, min_size=n, max_size=n), min_size=m, max_size=m))
    else:
        rows = [[float(v) for v in draw(st.lists(st.integers(-10 ** 6, 10 ** 6), min_size=n, max_size=n))] for _ in range(m)]
    return dict(m=m, n=n, rows=rows, dtype=dtype, layout=draw(st.sampled_from(["C", "F", "transposed-view", "strided-view"])))


@cell("C16/matrix", strategy=_matrix_case, quick=500, thorough=10000, shards=(2, 8))
def rt_matrix(ctx, case):
    m, n = case["m"], case["n"]
    A = np.array(case["rows"], dtype=float).reshape(m, n)
    if case["dtype"] == "int":
        A = A.astype(np.int64)
    lay = case["layout"]
    if lay == "C":
        M = np.ascontiguousarray(A.copy())
    elif lay == "F":
        M = np.asfortranarray(A.copy())
    elif lay == "transposed-view":
        M = np.ascontiguousarray(A.T.copy()).T
    else:
        big = np.zeros((2 * m, 2 * n), dtype=A.dtype)
        big[::2, ::2] = A
        M = big[::2, ::2]
    ctx.label("layout-" + lay, "square" if m == n else "non-square", "dtype-" + case["dtype"],
              "vector-like" if 1 in (m, n) else "proper-matrix")
    ctx.nt = m != n and m > 1 and n > 1 and (case["dtype"] == "int" or needs17([v for r in case["rows"] for v in r]))
    with Scratch() as sc:
        p = sc.path()
        with ctx.sut("export_data(matrix)"):
            ttb.export_data(M, p)
        lines = _read_lines(p)
        k = _expect_header(ctx, lines, "matrix", (m, n), "matrix")
        toks = [t for ln in lines[k:] for t in ln.split()]
        ctx.check(_tokens_equal_bits(toks, [float(v) for v in A.reshape(-1)]), "matrix-file-values-row-by-row", toks[:6])
        with ctx.sut("import_data(matrix)"):
            R = ttb.import_data(p)
    ctx.require(isinstance(R, np.ndarray), "matrix-roundtrip-type", type(R).__name__)
    ctx.require(R.shape == (m, n), "matrix-roundtrip-shape", R.shape)
    if case["dtype"] == "float":
        ctx.check(same_bits(R, A), "matrix-roundtrip-bits", ref.diff_info(R, A))
    else:
        ctx.check(np.array_equal(R, A), "matrix-roundtrip-values", ref.diff_info(R, A))
    ctx.check(np.array_equal(M, A), "export-leaves-object")


# --------------------------------------------------------------------------
# every double class once, deterministically (so that no seed can miss one)
# --------------------------------------------------------------------------


def _enum_specials(tier):
    n = len(_SPECIAL)
    for kind in ("tensor", "sptensor", "ktensor", "matrix"):
        for rot in range(0, n, 5):
            yield dict(kind=kind, rot=rot)


@cell("C16/special-values", enum=_enum_specials)
def rt_specials(ctx, case):
    """the hand-picked doubles (subnormal, +-max, -0.0, 17-digit) through each object kind"""
    vals = _SPECIAL[case["rot"]:] + _SPECIAL[: case["rot"]]
    ctx.nt = True
    ctx.label(case["kind"])
    if case["kind"] == "tensor":
        rt_tensor(ctx, dict(shape=[2, 1, 13], data=vals[:26], dtype="float"))
    elif case["kind"] == "matrix":
        rt_matrix(ctx, dict(m=2, n=13, rows=[vals[:13], vals[13:26]], dtype="float", layout="F"))
    elif case["kind"] == "sptensor":
        nz = [v for v in vals if v != 0.0]
        shape = [3, 1, 9]
        subs = [list(s) for s in ref.all_subs_F(shape)][::-1][: len(nz)]
        rt_sptensor(ctx, dict(shape=shape, subs=subs, vals=nz[: len(subs)], pattern="some", order="reverse",
                              dtype="float", base=[0, 2, 5][case["rot"] % 3]))
    else:
        rt_ktensor(ctx, dict(shape=[4, 1, 3], rank=3, weights=vals[:3],
                             factors=[[vals[3 + 3 * i: 6 + 3 * i] for i in range(4)], [vals[15:18]],
                                      [vals[17 + 3 * i: 20 + 3 * i] for i in range(3)]],
                             layout=["C", "F", "C"], copy=True))
