"""C16 — export_data followed by import_data reproduces tensor / sptensor / ktensor / matrix bit for bit.

Each case writes one object with the default formats to a file in a fresh temporary directory (removed at the end
of the case), (a) parses the file text with the harness' own reader and checks the documented layout: type line, order,
sizes, values in first-index-fastest order (dense), '1-based subscripts ... value' lines in stored order (sparse), weights
line then one 'matrix' block per mode written row by row (Kruskal), rows of the matrix (matrix); (b) reads the file back
with import_data: same type, same shape, and the float64 bit patterns (``view(uint64)``, so -0.0 != 0.0 here) of data /
vals / weights / factor matrices equal, subscripts equal including their order; (c) for sparse tensors the harness
rewrites the subscripts of the file with another index base b and ``import_data(file, index_base=b)`` must give the
same subscripts.

Round 2 additions.  *Provenance*: the exported objects are not only freshly constructed ones but also the states public
operations leave behind - dense tensors grown by assignment (subscript list, slab, corner element, new mode: C-ordered
buffer, numpy integers in ``shape``), permuted / copy=False tensors, sparse tensors with numpy-integer shapes, explicitly
stored zeros (+0.0 and -0.0, through the constructor and through ``scale`` by a vector with zeros), grown or aggregated
sparse tensors, Kruskal tensors after normalize / redistribute / arrange / permute / extract / fixsigns.  The expectation
is then the state the object holds right before the export (read through its public attributes, checked against a NumPy
model of the operation where one is cheap).  *Dtypes*: integer (int64/int32/uint8), float32 and boolean data, compared
by value.  *Call sequences* (``C16/sequence``): 2..4 export/import steps in ONE process, some with explicit (also lossy)
``fmt_data`` / ``fmt_weights`` and explicit ``index_base``, some with the defaults; every default-format step is judged
exactly like a first call.  Each sequence runs in a forked child so that state a defective export leaves behind cannot
leak into the next case (replays reproduce in a fresh process).

Round 4 additions.  ``case["pres"]`` (absent = the plain calls) names how the caller hands the valid arguments over; the
bodies of the plain cells call ``_export`` / ``_import`` which apply it, so ``C16/presentation`` judges every presented
request with the clauses of the plain cells (documented positional order pinned from the unchanged tree:
``export_data(data, filename, fmt_data, fmt_weights)``, ``import_data(filename, index_base)``).  ``C16/format-arguments``:
explicit formats positionally == by keyword.  ``C16/rejected``: rejected exports / imports inside histories (forked child).
"""

from __future__ import annotations

import logging
import os
import pathlib
import shutil
import tempfile

import numpy as np
from hypothesis import strategies as st

import pyttb as ttb

from .. import gen, ref
from ..core import cell
from ._c16_helpers import isolated

PROPERTY = "C16"

# import_data(ktensor) and ktensor(copy=False) log a layout warning per call through the root logger; keep the check's
# output to verdict lines (this runs in the check's own worker processes only)
logging.getLogger().setLevel(logging.ERROR)
RULE = (
    "cases = (object kind, shape incl. 1-way and singleton modes, finite doubles from the whole exponent range incl. "
    "subnormals, +-max, -0.0 and values that need 17 significant digits, stored order of nonzeros, rank, memory layout of "
    "the arrays handed in, index base) drawn by Hypothesis; oracle = harness-side parse of the written text (layout, "
    "1-based subscripts) and bit equality (uint64 views) after import_data, plus import of a harness-rewritten file with "
    "index base 0/2/5.  Non-trivial: at least two distinct sizes (dense: F/C order matters; Kruskal/matrix: a "
    "non-square matrix) and at least one value that does not survive 16 significant digits.  Objects come from the "
    "constructor or from a public operation that leaves another internal state (growth by assignment, scale, "
    "aggregation, normalize, ...); C16/sequence: 2..4 export/import steps in one process with explicit and default "
    "formats / index bases, every default step judged as a first call (non-trivial: a default step after an explicit one).  "
    "Round 3: sparse modes of length 70000 .. 2**62 with stored subscripts anywhere in them (just above 2**53, odd, at the far "
    "end; both index bases); C16/large: a few objects per run with 1e4 .. 1.2e5 stored numbers (sparse tensors with 10000 .. "
    "40000 nonzeros incl. the block edges 16384 / 32768 +-1, dense tensors beyond 65536 cells, Kruskal factors and matrices "
    "with 17000 .. 40000 rows), data expanded from a seed; C16/fork: export, import, edit the import result in place, import "
    "again, edit the exported object, export again - every object and file keeps its own state; C16/degenerate: zero-length "
    "modes, rank 0, default-constructed objects.  Round 4: C16/presentation - the round trips of the small cells with the "
    "arguments handed over as ordinary callers do (optional arguments positionally in the documented order export_data(data, "
    "filename, fmt_data, fmt_weights) / import_data(filename, index_base), as explicit None, by keyword in any order; file name "
    "as str or pathlib.Path; index base as Python int or NumPy integer scalar of 8..64 bits; sparse subscripts held in int32 / "
    "int8 / int16 / uint8 / uint16 / uint32 / uint64 arrays, with a mode as long as that dtype can index and stored subscripts "
    "at its far end; read-only and strided arrays, copy=False; an index base given for files that carry no subscripts; root "
    "logger at DEBUG for the whole round trip) judged by the clauses of the plain cells; C16/format-arguments - explicit "
    "formats positionally == by keyword (file bytes) and each format reaches the numbers its name says; C16/rejected - "
    "histories with rejected exports (format that is none, unsupported object; onto no file / onto the file of another "
    "object) and rejected imports (missing, mislabelled, truncated, non-numeric files, with and without an index base): "
    "the object is unchanged, the path never reads as an object that was not written there, read files are not modified, "
    "later valid steps are judged as first calls."
)
ASSUMPTIONS = [
    "float64 objects are compared bit for bit; integer / float32 / boolean tensors, matrices and sparse values (a minority "
    "class) are compared by value, because the file format has no dtype and import_data returns float64",
    "sparse tensors have distinct subscripts; explicitly stored zeros (a state scale / S*0 / the constructor leave behind) "
    "are part of the object and must come back as stored",
    "derived states are produced through public operations only; when the operation itself does not give what its NumPy "
    "model gives the case is skipped (that operation is another property's subject)",
    "C16/sequence: steps with an explicit format are performed for the history they create and are not judged (the "
    "property speaks about the default format)",
    "files live in tempfile.mkdtemp() directories removed at the end of each case",
    "C16/large: the values are expanded from the case's integer seed with numpy's default_rng inside the body (a case of "
    "40000 literal values would not be a usable replay); the seed itself is drawn by Hypothesis",
    "C16/degenerate: for a dense object that holds no numbers only type, shape and 'holds no values' are compared (the array "
    "shape pyttb gives an empty buffer is the constructor's business); sparse tensors cannot have zero-length modes",
    "C16/presentation: Kruskal tensors only in float64 (the constructor documents and enforces dtype=float for factor "
    "matrices); np.uint64 index bases are left out (int64 - uint64 is float64 in NumPy; a Python int is what is documented)",
    "C16/rejected: after a rejected export the partial file may stay (the tree writes in place); what is demanded is that "
    "import_data of that path raises or returns the object the path held before; for an unsupported object (nothing of the "
    "request is valid) the destination must be byte-for-byte as it was",
    "C16/format-arguments: only floating-point conversions (%e %f %g with flags), for which C printf and Python's % agree",
]

# --------------------------------------------------------------------------
# values: whole double range
# --------------------------------------------------------------------------

_SPECIAL = [
    0.0, -0.0, 5e-324, -5e-324, 2.2250738585072014e-308, 2.225073858507201e-308, 1.7976931348623157e308,
    -1.7976931348623157e308, 0.1, 1.0 / 3.0, 0.30000000000000004, 1.0000000000000002, 0.9999999999999999,
    9007199254740993.0, 1e22, 1e23, 8.41e21, 2.0 ** -1022, 123456789.12345679, -2.5, 1.0, 7.0, 5e-310,
    1.2345678901234567e-5, 6.02214076e23, 4.35e-320,
]

FULL = st.one_of(
    st.floats(allow_nan=False, allow_infinity=False, width=64),
    st.floats(allow_nan=False, allow_infinity=False, width=64),
    st.sampled_from(_SPECIAL),
    st.floats(-10, 10, allow_nan=False, width=64),
)
FULL_NZ = FULL.filter(lambda v: v != 0.0)


def bits(a) -> np.ndarray:
    return np.ascontiguousarray(np.asarray(a, dtype=np.float64)).view(np.uint64)


def same_bits(a, b) -> bool:
    a, b = np.asarray(a), np.asarray(b)
    return a.shape == b.shape and a.dtype == np.float64 and b.dtype == np.float64 and bool(np.all(bits(a) == bits(b)))


def needs17(vals) -> bool:
    for v in vals:
        v = float(v)
        if v != 0 and float("%.15e" % v) != v:
            return True
    return False


def _bits_of_text(tok: str):
    """float64 bit pattern of a number written in the file (python's float() is correctly rounded)."""
    return np.array([float(tok)], dtype=np.float64).view(np.uint64)[0]


def _big_values(seed, n, nonzero=False) -> np.ndarray:
    """n finite doubles expanded from an integer seed (the case stays small and replayable): random 64-bit patterns, so
    the whole exponent range, both signs, subnormals; the non-finite patterns are folded back into the finite range"""
    rng = np.random.default_rng(int(seed))
    u = rng.integers(0, 2 ** 64, size=int(n), dtype=np.uint64, endpoint=False)
    expo = (u >> np.uint64(52)) & np.uint64(0x7FF)
    u = np.where(expo == np.uint64(0x7FF), u & ~(np.uint64(1) << np.uint64(62)), u)
    v = u.view(np.float64).copy()
    k = n // 3  # a third of them of ordinary size (17 significant digits, many decimal exponents)
    if k:
        v[:k] = rng.standard_normal(k) * 10.0 ** rng.integers(-12, 13, size=k)
    if nonzero:
        v[v == 0] = 1.5
    return v


def _big_sparse(big, shape):
    """distinct subscripts in a generated stored order + values, from the seed"""
    rng = np.random.default_rng(int(big["seed"]) + 1)
    nnz, total = int(big["nnz"]), ref.prod(shape)
    lin = rng.choice(total, size=nnz, replace=False)  # a random order of distinct cells
    if big.get("order") == "sorted":
        lin = np.sort(lin)
    elif big.get("order") == "reverse":
        lin = np.sort(lin)[::-1]
    subs = np.array(np.unravel_index(lin, tuple(shape), order="F"), dtype=np.int64).T.reshape(nnz, len(shape))
    return subs, _big_values(big["seed"], nnz, nonzero=True).reshape(nnz, 1)


class Scratch:
    def __enter__(self):
        self.dir = tempfile.mkdtemp(prefix="vf-c16-")
        return self

    def path(self, name="x.tns"):
        return os.path.join(self.dir, name)

    def __exit__(self, *exc):
        shutil.rmtree(self.dir, ignore_errors=True)
        return False


def _read_lines(path):
    with open(path) as f:
        return [ln.rstrip("\n") for ln in f.read().split("\n")]


# --------------------------------------------------------------------------
# round 4: how the caller presents a valid request (``case["pres"]``, absent = the plain calls of the earlier rounds)
# --------------------------------------------------------------------------

_UNSET = object()
_NP_INT = {"int64": np.int64, "int32": np.int32, "int16": np.int16, "int8": np.int8, "uint8": np.uint8, "uint16": np.uint16,
           "uint32": np.uint32, "uint64": np.uint64}
_EXPORT_FORMS = ["plain", "pos-None", "pos-None-None", "kw-None", "all-kw-reordered", "pos-exact-formats", "kw-exact-formats",
                 "pos-exact-data-format"]
# documented order (pinned from the signatures on the unchanged tree): export_data(data, filename, fmt_data, fmt_weights),
# import_data(filename, index_base)
_BASE_FORMS = ["kw-int", "pos-int", "pos-int", "pos-int64", "kw-int64", "pos-int32", "pos-uint8", "pos-int8", "pos-int16",
               "pos-uint16", "pos-uint32", "kw-uint8", "allkw-int", "allkw-int32"]


def _pres(case) -> dict:
    return case.get("pres") or {}


def _as_path(form, p):
    return pathlib.Path(p) if form == "Path" else p


def _export(case, X, p):
    """export_data(X, p) with the default formats, in the presentation the case names"""
    pr = _pres(case)
    f, q = pr.get("export", "plain"), _as_path(pr.get("export_path", "str"), p)
    fd, fw = pr.get("fmt_data", "%.16e"), pr.get("fmt_weights", "%.17g")  # both exact: 17 significant digits
    if f == "pos-None":
        return ttb.export_data(X, q, None)
    if f == "pos-None-None":
        return ttb.export_data(X, q, None, None)
    if f == "kw-None":
        return ttb.export_data(X, q, fmt_data=None, fmt_weights=None)
    if f == "all-kw-reordered":
        return ttb.export_data(fmt_weights=None, filename=q, data=X, fmt_data=None)
    if f == "pos-exact-formats":
        return ttb.export_data(X, q, fd, fw)
    if f == "kw-exact-formats":
        return ttb.export_data(X, q, fmt_weights=fw, fmt_data=fd)
    if f == "pos-exact-data-format":
        return ttb.export_data(X, q, fd)
    return ttb.export_data(X, q)


def _base_value(form, base):
    typ = _NP_INT.get(form.split("-")[1])
    if typ is None:
        return int(base)
    info = np.iinfo(typ)
    return typ(base) if info.min <= base <= info.max else np.int64(base)


def _import(case, p, base=_UNSET):
    """import_data(p) / import_data(p, index_base=base) in the presentation the case names.  Files without subscripts
    (dense, Kruskal, matrix) may be read with an index base, too: it has nothing to act on."""
    pr = _pres(case)
    q = _as_path(pr.get("import_path", "str"), p)
    if base is _UNSET:
        base = pr.get("ignored_base")
        if base is None:
            return ttb.import_data(q)
    f = pr.get("base_form", "kw-int")
    b = _base_value(f, base)
    if f.startswith("pos-"):
        return ttb.import_data(q, b)
    if f.startswith("allkw-"):
        return ttb.import_data(index_base=b, filename=q)
    return ttb.import_data(q, index_base=b)


def _present_array(case, A, order="K"):
    """the same numbers as a read-only array / as a strided view of a larger buffer (pres['view'])"""
    view = _pres(case).get("view", "plain")
    if view == "readonly":
        A = A.copy(order=order)
        A.flags.writeable = False
        return A
    if view == "strided" and A.ndim >= 1:
        big = np.zeros((2 * A.shape[0],) + A.shape[1:], dtype=A.dtype)
        big[1::2] = A
        return big[1::2]
    return A.copy(order=order)


def _pres_labels(case):
    pr = _pres(case)
    return [f"pres-{k}-{pr[k]}" for k in ("export", "export_path", "import_path", "base_form", "view", "subs_dtype", "copy",
                                          "ignored_base", "log_debug") if k in pr]


def _expect_header(ctx, lines, kind, shape, what):
    """type line, number of modes, sizes; returns index of the next line"""
    ctx.require(len(lines) >= 3, f"{what}-file-has-header", lines[:3])
    ctx.check(lines[0].strip() == kind, f"{what}-type-line", lines[0])
    ctx.check(lines[1].split() == [str(len(shape))], f"{what}-order-line", lines[1])
    ctx.check(lines[2].split() == [str(int(s)) for s in shape], f"{what}-sizes-line", lines[2])
    return 3


def _tokens_equal_bits(tokens, values):
    if len(tokens) != len(values):
        return False
    try:
        return all(_bits_of_text(t) == b for t, b in zip(tokens, bits(np.array(values, dtype=float)).tolist()))
    except ValueError:
        return False


# --------------------------------------------------------------------------
# dense tensor
# --------------------------------------------------------------------------


_DTYPES = {"float": np.float64, "int": np.int64, "int32": np.int32, "uint8": np.uint8, "float32": np.float32,
           "bool": np.bool_}
_DTYPE_CHOICES = ["float"] * 12 + ["int", "int", "int32", "uint8", "float32", "bool"]


def _draw_typed(draw, dtype, n, nonzero=False):
    """n values (python floats) representable in ``dtype``"""
    if dtype == "float":
        return draw(st.lists(FULL_NZ if nonzero else FULL, min_size=n, max_size=n))
    if dtype in ("int", "int32"):
        lo = 1 if nonzero else -10 ** 6
        return [float(v) for v in draw(st.lists(st.integers(lo, 10 ** 6), min_size=n, max_size=n))]
    if dtype == "uint8":
        return [float(v) for v in draw(st.lists(st.integers(1 if nonzero else 0, 255), min_size=n, max_size=n))]
    if dtype == "bool":
        return [1.0] * n if nonzero else [float(v) for v in draw(st.lists(st.integers(0, 1), min_size=n, max_size=n))]
    vals = draw(st.lists(st.floats(-(2.0 ** 100), 2.0 ** 100, allow_nan=False, width=32), min_size=n, max_size=n))  # float32
    return [float(v) if (v != 0 or not nonzero) else 1.5 for v in vals]


_TENSOR_PROV = ["ctor", "ctor", "ctor", "grown", "grown", "grown-slab", "grown-corner", "new-mode", "permuted", "nocopy-C"]


@st.composite
def _tensor_case(draw, tier, max_cells=None):
    shape = draw(gen.shapes(tier, min_order=1, max_cells=max_cells))
    n = ref.prod(shape)
    dtype = draw(st.sampled_from(_DTYPE_CHOICES))
    data = _draw_typed(draw, dtype, n)
    prov = draw(st.sampled_from(_TENSOR_PROV)) if dtype == "float" else draw(st.sampled_from(["ctor", "permuted", "nocopy-C"]))
    return dict(shape=shape, data=data, dtype=dtype, prov=prov, a=draw(st.integers(0, 7)), b=draw(st.integers(1, 7)),
                v=draw(FULL))


def _make_tensor(ctx, case):
    """(tensor in the state ``prov`` names, the array it denotes by a NumPy model of how it was made)"""
    shape = tuple(case["shape"])
    N = len(shape)
    if case.get("big"):
        A = np.reshape(_big_values(case["big"]["seed"], ref.prod(shape)), shape, order="F")
    else:
        A = gen.arr_F(shape, case["data"]).astype(_DTYPES[case["dtype"]])
    prov = case.get("prov", "ctor")
    a, b = case.get("a", 0), case.get("b", 1)
    try:
        if prov == "grown":  # the shared helper: last slab of a mode assigned by a list of subscripts
            T = gen.build_tensor(dict(shape=list(shape), data=A.ravel(order="F").tolist(), prov="grown"))
            return T, A
        if prov == "grown-slab":  # last slab of a mode assigned as a subtensor
            cand = [m for m in range(N) if shape[m] >= 2]
            if cand:
                m = cand[a % len(cand)]
                small = np.take(A, range(shape[m] - 1), axis=m)
                T = ttb.tensor(small.copy(order="F"), small.shape)
                key = tuple(slice(shape[m] - 1, shape[m]) if d == m else slice(0, shape[d]) for d in range(N))
                T[key] = np.take(A, [shape[m] - 1], axis=m)
                return T, A
        if prov == "grown-corner":  # one element beyond the present extent: the tensor grows, new cells are zero
            T = ttb.tensor(A.copy(order="F"), shape)
            grow = [(b >> d) & 1 for d in range(N)]
            if not any(grow):
                grow[a % N] = 1
            corner = tuple(shape[d] - 1 + grow[d] for d in range(N))
            T[corner] = case["v"]
            E = np.zeros(tuple(c + 1 for c in corner))
            E[tuple(slice(0, s) for s in shape)] = A
            E[corner] = case["v"]
            return T, E
        if prov == "new-mode":  # an element addressed with one more subscript: the order grows
            T = ttb.tensor(A.copy(order="F"), shape)
            T[(0,) * N + (1,)] = case["v"]
            E = np.zeros(shape + (2,))
            E[..., 0] = A
            E[(0,) * N + (1,)] = case["v"]
            return T, E
        if prov == "permuted":  # result of another operation fed into the export
            perm = list(range(N))
            perm = perm[a % N:] + perm[: a % N]
            inv = np.argsort(perm)
            T0 = ttb.tensor(np.transpose(A, inv).copy(order="F"))
            return T0.permute(np.array(perm)), A
        if prov == "nocopy-C":
            return ttb.tensor(np.ascontiguousarray(A.copy()), shape, copy=False), A
    except Exception:  # noqa: BLE001   (growth / permutation themselves are C04's / C07's subject)
        ctx.skip("building-the-state-raised:" + prov)
    if _pres(case).get("view", "plain") != "plain":
        return ttb.tensor(_present_array(case, A, "F"), shape, copy=_pres(case).get("copy", True)), A
    return ttb.tensor(A.copy(order="F"), shape), A


@cell("C16/tensor", strategy=_tensor_case, quick=500, thorough=10000, shards=(2, 8))
def rt_tensor(ctx, case):
    T, A = _make_tensor(ctx, case)
    shape = A.shape
    isfloat = case["dtype"] == "float"
    if not (tuple(int(s) for s in T.shape) == shape and isinstance(T.data, np.ndarray) and T.data.shape == shape
            and (np.array_equal(bits(T.data), bits(A)) if isfloat else np.array_equal(T.data, A))):
        ctx.skip("state-differs-from-model:" + case.get("prov", "ctor"))
    ctx.label(*gen.shape_classes(shape), "dtype-" + case["dtype"], "prov-" + case.get("prov", "ctor"),
              "buffer-not-F" if gen.is_grown(T) else "buffer-F", *_pres_labels(case),
              "npint-in-shape" if any(isinstance(x, np.integer) for x in T.shape) else "int-shape")
    ctx.nt = len(set(shape)) >= 2 and (not isfloat or needs17(A.ravel().tolist()))
    flatF = [float(v) for v in A.ravel(order="F")]
    with Scratch() as sc:
        p = sc.path()
        with ctx.sut("export_data(tensor)"):
            _export(case, T, p)
        lines = _read_lines(p)
        k = _expect_header(ctx, lines, "tensor", shape, "tensor")
        toks = [t for ln in lines[k:] for t in ln.split()]
        ctx.check(_tokens_equal_bits(toks, flatF), "tensor-file-values-first-index-fastest", toks[:6])
        with ctx.sut("import_data(tensor)"):
            R = _import(case, p)
    ctx.require(isinstance(R, ttb.tensor), "tensor-roundtrip-type", type(R).__name__)
    ctx.check(tuple(int(s) for s in R.shape) == shape, "tensor-roundtrip-shape", R.shape)
    ctx.require(isinstance(R.data, np.ndarray) and R.data.shape == shape, "tensor-roundtrip-data-shape",
                getattr(R.data, "shape", None))
    if isfloat:
        ctx.check(same_bits(R.data, A), "tensor-roundtrip-bits", ref.diff_info(R.data, A))
    else:
        ctx.check(np.array_equal(R.data, A), "tensor-roundtrip-values", ref.diff_info(R.data, A))
    ctx.check(np.array_equal(T.data, A) and tuple(T.shape) == shape and T.data.dtype == A.dtype, "export-leaves-object")


# --------------------------------------------------------------------------
# sparse tensor
# --------------------------------------------------------------------------


_SP_PROV = ["ctor", "ctor", "ctor", "npint-shape", "explicit-zero", "explicit-zero", "aggregator", "grown", "scaled-by-zero"]


@st.composite
def _sptensor_case(draw, tier, max_cells=None):
    shape = draw(gen.shapes(tier, min_order=1, max_cells=max_cells))
    n = ref.prod(shape)
    pattern = draw(st.sampled_from(["none", "one", "some", "some", "all"]))
    subsF = ref.all_subs_F(shape)
    if pattern == "none":
        keep = []
    elif pattern == "one":
        keep = [draw(st.integers(0, n - 1))]
    elif pattern == "all":
        keep = list(range(n))
    else:
        m = draw(st.lists(st.booleans(), min_size=n, max_size=n))
        keep = [i for i in range(n) if m[i]]
    order = draw(st.sampled_from(["sorted", "reverse", "random"]))
    if order == "reverse":
        keep = keep[::-1]
    elif order == "random" and len(keep) > 1:
        keep = list(draw(st.permutations(keep)))
    dtype = draw(st.sampled_from(_DTYPE_CHOICES))
    vals = _draw_typed(draw, dtype, len(keep), nonzero=True)
    prov = draw(st.sampled_from(_SP_PROV)) if dtype == "float" else draw(st.sampled_from(["ctor", "npint-shape"]))
    zeros = []
    if prov in ("explicit-zero", "scaled-by-zero") and keep:
        # which stored entries are (or are turned into) stored zeros, and with which sign
        zeros = [draw(st.sampled_from([None, None, 0.0, -0.0])) for _ in keep]
        if all(z is None for z in zeros):
            zeros[draw(st.integers(0, len(keep) - 1))] = draw(st.sampled_from([0.0, -0.0]))
    # one mode made very long (only a sparse tensor can have it): sizes and subscripts beyond 16 / 32 bits in the file,
    # and beyond 2**53 (round 3: integers a float64 cannot hold; nothing is allocated per mode, so such shapes are
    # ordinary for hashed / 64-bit identifiers).  The small subscripts of that mode are mapped to generated positions
    # anywhere in the long mode (its far end, just above 2**53, odd values included).
    huge = None
    if prov in ("ctor", "npint-shape", "explicit-zero") and draw(st.integers(0, 2)) == 0:
        m = draw(st.integers(0, len(shape) - 1))
        H = draw(st.sampled_from([70000, 2 ** 31 + 5, 10 ** 12, 2 ** 53 + 1, 2 ** 53 + 2, 2 ** 53 + 7, 2 ** 53 + 7,
                                  2 ** 60, 2 ** 60, 2 ** 62, 2 ** 62]))
        pos = [st.integers(0, H - 1), st.integers(H - 65, H - 1), st.just(H - 1)]
        if H > 2 ** 53:
            pos += [st.integers(2 ** 53, min(H - 1, 2 ** 53 + 64)), st.integers(2 ** 53, H - 1), st.integers(2 ** 53, H - 1)]
        hmap = sorted(draw(st.lists(st.one_of(*pos), min_size=shape[m], max_size=shape[m], unique=True)))
        huge = [m, H, hmap]
    return dict(shape=shape, subs=[list(subsF[i]) for i in keep], vals=vals, pattern=pattern, order=order, dtype=dtype,
                base=draw(st.sampled_from([0, 2, 5, -1, 10, 1000])), prov=prov, zeros=zeros, a=draw(st.integers(0, 7)),
                huge=huge)


def _make_sptensor(ctx, case):
    """(sptensor in the state ``prov`` names, expected shape / subs / vals by a NumPy model of how it was made)"""
    shape = tuple(case["shape"])
    N = len(shape)
    if case.get("big"):
        subs, vals = _big_sparse(case["big"], shape)
        nnz = subs.shape[0]
    else:
        nnz = len(case["subs"])
        subs = np.array(case["subs"], dtype=np.int64).reshape(nnz, N)
        vals = np.array(case["vals"], dtype=float).reshape(nnz, 1).astype(_DTYPES[case["dtype"]])
    prov = case.get("prov", "ctor")
    if case.get("huge"):
        m, H = case["huge"][:2]
        if nnz and len(case["huge"]) > 2:  # the small subscripts of mode m move to generated positions of the long mode
            subs[:, m] = np.array(case["huge"][2], dtype=np.int64)[subs[:, m]]
        elif nnz:
            subs[subs[:, m] == shape[m] - 1, m] = H - 1  # (older replays) the entries in the last slab move to the far end
        shape = shape[:m] + (H,) + shape[m + 1:]
    if nnz == 0:
        return ttb.sptensor(shape=shape), shape, subs, vals
    # round 4: the subscripts as the caller holds them (int32 / small unsigned / uint64 arrays, read-only or strided); the
    # model ``subs`` stays int64
    pr = _pres(case)
    sd = _NP_INT.get(pr.get("subs_dtype", "int64"), np.int64)
    if subs.min() < np.iinfo(sd).min or subs.max() > np.iinfo(sd).max:
        sd = np.int64
    kw = dict(copy=pr["copy"]) if "copy" in pr else {}

    def subs_in():
        return _present_array(case, subs.astype(sd))

    def vals_in():
        return _present_array(case, vals)

    try:
        if prov == "npint-shape":
            form = case.get("a", 0) % (2 if case.get("huge") else 3)  # (int32 entries cannot hold the very long mode)
            sh = (lambda: tuple(np.int64(s) for s in shape), lambda: np.array(shape, dtype=np.int64),
                  lambda: [np.int32(s) for s in shape])[form]()
            return ttb.sptensor(subs_in(), vals_in(), sh, **kw), shape, subs, vals
        if prov == "explicit-zero":
            for i, z in enumerate(case["zeros"]):
                if z is not None:
                    vals[i, 0] = z
            return ttb.sptensor(subs_in(), vals_in(), shape, **kw), shape, subs, vals
        if prov == "scaled-by-zero":  # scale along a mode by a vector with zeros: the products are stored, zeros included
            m = case.get("a", 0) % N
            f = np.ones(shape[m])
            for i, z in enumerate(case["zeros"]):
                if z is not None:
                    f[subs[i, m]] = z
            S = ttb.sptensor(subs.copy(), vals.copy(), shape).scale(f, m)
            return S, shape, subs, vals * f[subs[:, m]][:, None]
        if prov == "aggregator":  # distinct subscripts: nothing to combine; stored sorted by rows, shape inferred or given
            given = case.get("a", 0) % 2 == 0
            S = ttb.sptensor.from_aggregator(subs.copy(), vals.copy(), shape) if given else \
                ttb.sptensor.from_aggregator(subs.copy(), vals.copy())
            eshape = shape if given else tuple(int(x) + 1 for x in subs.max(axis=0))
            if not (isinstance(S.subs, np.ndarray) and S.subs.shape == subs.shape):
                ctx.skip("state-differs-from-model:aggregator")
            # the stored order of from_aggregator is not specified: take it from the object, the content from the model
            key = {tuple(r): float(v) for r, v in zip(subs.tolist(), vals[:, 0].tolist())}
            try:
                ev = np.array([[key[tuple(r)]] for r in S.subs.tolist()])
            except KeyError:
                ctx.skip("state-differs-from-model:aggregator")
            return S, eshape, np.array(S.subs, dtype=int), ev
        if prov == "grown":  # the last stored entry is assigned beyond the present extent: shape grows
            last = subs[-1]
            if nnz >= 2:
                small = tuple(int(x) + 1 for x in subs[:-1].max(axis=0))
                S = ttb.sptensor(subs[:-1].copy(), vals[:-1].copy(), small)
                S[tuple(int(x) for x in last)] = float(vals[-1, 0])
                eshape = tuple(max(a_, int(b_) + 1) for a_, b_ in zip(small, last))
                return S, eshape, subs, vals
    except Exception as e:  # noqa: BLE001
        if type(e).__name__ == "Skip":
            raise
        ctx.skip("building-the-state-raised:" + prov)
    if pr:
        with ctx.sut("sptensor(subs, vals, shape)/presented"):
            return ttb.sptensor(subs_in(), vals_in(), shape, **kw), shape, subs, vals
    return ttb.sptensor(subs.copy(), vals.copy(), shape), shape, subs, vals


@cell("C16/sptensor", strategy=_sptensor_case, quick=500, thorough=10000, shards=(2, 8))
def rt_sptensor(ctx, case):
    S, shape, subs, vals = _make_sptensor(ctx, case)
    N = len(shape)
    nnz = subs.shape[0]
    isfloat = case["dtype"] == "float"
    prov = case.get("prov", "ctor")
    ok_state = tuple(int(s) for s in S.shape) == shape and (
        (nnz == 0 and S.subs.size == 0) or
        (nnz and isinstance(S.subs, np.ndarray) and S.subs.shape == subs.shape and np.array_equal(S.subs, subs)
         and isinstance(S.vals, np.ndarray) and S.vals.shape == vals.shape and
         (np.array_equal(bits(S.vals), bits(vals)) if isfloat else np.array_equal(S.vals, vals))))
    if not ok_state:
        ctx.skip("state-differs-from-model:" + prov)
    ctx.label(*gen.shape_classes(shape), "pattern-" + case["pattern"], "stored-" + case["order"], "dtype-" + case["dtype"],
              f"base{case['base']}", "prov-" + prov,
              "stored-zero" if nnz and bool(np.any(vals == 0)) else "no-stored-zero",
              "npint-in-shape" if any(isinstance(x, np.integer) for x in S.shape) else "int-shape",
              "huge-mode" if case.get("huge") else "small-modes", *_pres_labels(case),
              *(["stored-subs-" + str(S.subs.dtype)] if nnz else []),
              *(["a-subscript-is-the-maximum-of-its-dtype"] if nnz and np.issubdtype(S.subs.dtype, np.integer)
                and int(subs.max()) == np.iinfo(S.subs.dtype).max else []),
              *(["mode-longer-than-2^53"] if max(shape) > 2 ** 53 else []),
              *(["file-subscript-not-a-float64"] if nnz and any(int(float(x)) != x for x in (subs + 1).ravel().tolist()) else []),
              *(["other-base-subscript-not-a-float64"] if nnz and any(
                  int(float(x)) != x for x in (subs + case["base"]).ravel().tolist()) else []))
    ctx.nt = nnz >= 2 and len(set(shape)) >= 2 and (not isfloat or needs17(vals.ravel().tolist()))
    keep_subs, keep_vals = np.array(S.subs, copy=True), np.array(S.vals, copy=True)
    with Scratch() as sc:
        p = sc.path()
        with ctx.sut("export_data(sptensor)"):
            _export(case, S, p)
        lines = _read_lines(p)
        k = _expect_header(ctx, lines, "sptensor", shape, "sptensor")
        ctx.require(len(lines) > k and lines[k].split() == [str(nnz)], "sptensor-nnz-line", lines[k:k + 1])
        body = [ln.split() for ln in lines[k + 1:] if ln.strip()]
        ctx.require(len(body) == nnz and all(len(b) == N + 1 for b in body), "sptensor-one-line-per-nonzero",
                    body[:2])
        file_subs = None
        try:
            file_subs = [[int(t) for t in b[:N]] for b in body]
        except ValueError:
            ctx.check(False, "sptensor-file-subscripts-are-integers", body[:2])
        if file_subs is not None:
            ctx.check(file_subs == (subs + 1).tolist(), "sptensor-file-subscripts-one-based-in-stored-order",
                      f"{file_subs[:3]} vs {(subs + 1).tolist()[:3]}")
            ctx.check(_tokens_equal_bits([b[N] for b in body], [float(v) for v in vals.reshape(-1)]),
                      "sptensor-file-values", [b[N] for b in body][:4])
        with ctx.sut("import_data(sptensor)"):
            R = _import(dict(case, pres=dict(_pres(case), ignored_base=None)), p)
        _check_sp(ctx, R, shape, subs, vals, case, "sptensor-roundtrip")
        # another index base: the harness rewrites the subscripts of the file it has just validated; the explicit
        # default base and the plain call come after it, so an index base that sticks from the previous call shows
        if file_subs is not None and nnz:
            b = case["base"]
            p2 = sc.path("rebased.tns")
            with open(p2, "w") as f:
                f.write("\n".join(lines[: k + 1]) + "\n")
                for row, toks in zip(subs.tolist(), body):
                    f.write(" ".join(str(s + b) for s in row) + " " + toks[N] + "\n")
            with ctx.sut("import_data(sptensor, index_base=b)"):
                R2 = _import(case, p2, b)
            _check_sp(ctx, R2, shape, subs, vals, case, "sptensor-other-base")
            with ctx.sut("import_data(sptensor) after another base"):
                R3 = _import(dict(case, pres=dict(_pres(case), ignored_base=None)), p)
            _check_sp(ctx, R3, shape, subs, vals, case, "sptensor-roundtrip-after-other-base")
        # explicit default base
        with ctx.sut("import_data(sptensor, index_base=1)"):
            R1 = _import(case, p, 1)
        _check_sp(ctx, R1, shape, subs, vals, case, "sptensor-roundtrip-base1")
    ctx.check((S.subs.size == 0 and nnz == 0) or (np.array_equal(S.subs, keep_subs) and np.array_equal(
        bits(S.vals) if isfloat else S.vals, bits(keep_vals) if isfloat else keep_vals)), "export-leaves-object")


def _check_sp(ctx, R, shape, subs, vals, case, what):
    ctx.require(isinstance(R, ttb.sptensor), f"{what}-type", type(R).__name__)
    ctx.check(tuple(int(s) for s in R.shape) == shape, f"{what}-shape", R.shape)
    nnz = subs.shape[0]
    if nnz == 0:
        ctx.check(R.subs.size == 0 and R.vals.size == 0, f"{what}-empty-stays-empty", (R.subs.shape, R.vals.shape))
        return
    ctx.require(isinstance(R.subs, np.ndarray) and R.subs.shape == subs.shape, f"{what}-subs-shape",
                getattr(R.subs, "shape", None))
    ctx.check(np.issubdtype(R.subs.dtype, np.integer), f"{what}-subs-integer", R.subs.dtype)
    ctx.check(np.array_equal(R.subs, subs), f"{what}-subs-and-order", f"{R.subs.tolist()[:3]} vs {subs.tolist()[:3]}")
    ctx.require(isinstance(R.vals, np.ndarray) and R.vals.shape == (nnz, 1), f"{what}-vals-shape",
                getattr(R.vals, "shape", None))
    if case["dtype"] == "float":
        ctx.check(same_bits(R.vals, vals), f"{what}-vals-bits", ref.diff_info(R.vals, vals))
    else:
        ctx.check(np.array_equal(R.vals, vals), f"{what}-vals-values")


# --------------------------------------------------------------------------
# Kruskal tensor
# --------------------------------------------------------------------------


_K_PROV = ["ctor", "ctor", "ctor", "normalize", "normalize-mode", "redistribute", "arrange", "arrange-perm", "permute",
           "extract", "fixsigns"]
# derived states are computed by pyttb (norms, products): moderate magnitudes so that nothing overflows
MODERATE = st.one_of(st.floats(-1e3, 1e3, allow_nan=False, width=64),
                     st.sampled_from([0.1, 1.0 / 3.0, 0.30000000000000004, -2.5, 1.0, 7.0, 1.0000000000000002, 0.0, -0.0]))


@st.composite
def _ktensor_case(draw, tier, max_size=None):
    N = draw(st.integers(1, 3))
    r = draw(st.integers(1, 4))
    maxs = max_size or (4 if tier == "quick" else 6)
    shape = [draw(st.integers(1, maxs)) for _ in range(N)]
    prov = draw(st.sampled_from(_K_PROV))
    V = FULL if prov == "ctor" else MODERATE
    w = draw(st.lists(V, min_size=r, max_size=r))
    factors = [draw(st.lists(st.lists(V, min_size=r, max_size=r), min_size=n, max_size=n)) for n in shape]
    layout = [draw(st.sampled_from(["C", "F"])) for _ in range(N)]
    return dict(shape=shape, rank=r, weights=w, factors=factors, layout=layout, copy=draw(st.booleans()), prov=prov,
                a=draw(st.integers(0, 7)))


def _derive_ktensor(ctx, K, case):
    """apply the public operation ``prov`` names; the expectation is the state the object then holds"""
    prov, a = case.get("prov", "ctor"), case.get("a", 0)
    N, r = len(case["shape"]), case["rank"]
    try:
        if prov == "normalize":
            K.normalize()
        elif prov == "normalize-mode":
            K.normalize(mode=a % N)
        elif prov == "redistribute":
            K.redistribute(a % N)
        elif prov == "arrange":
            K.arrange()
        elif prov == "arrange-perm":
            perm = list(range(r))
            K.arrange(permutation=np.array(perm[a % r:] + perm[: a % r]))
        elif prov == "permute":
            perm = list(range(N))
            K = K.permute(np.array(perm[a % N:] + perm[: a % N]))
        elif prov == "extract":
            K = K.extract(list(range(r))[: 1 + a % r])
        elif prov == "fixsigns":
            K.fixsigns()
    except Exception:  # noqa: BLE001   (the operation itself is another property's subject)
        ctx.skip("building-the-state-raised:" + prov)
    return K


@cell("C16/ktensor", strategy=_ktensor_case, quick=500, thorough=10000, shards=(2, 8))
def rt_ktensor(ctx, case):
    shape0, r0 = tuple(case["shape"]), case["rank"]
    if case.get("big"):
        allv = _big_values(case["big"]["seed"], r0 * (1 + sum(shape0)))
        w0 = allv[:r0].copy()
        offs = np.cumsum([r0] + [n * r0 for n in shape0])
        fms0 = [allv[offs[i]:offs[i + 1]].reshape(n, r0).copy() for i, n in enumerate(shape0)]
    else:
        fms0 = [np.array(f, dtype=float).reshape(n, r0) for f, n in zip(case["factors"], shape0)]
        w0 = np.array(case["weights"], dtype=float)
    given = [np.asfortranarray(f.copy()) if lay == "F" else np.ascontiguousarray(f.copy())
             for f, lay in zip(fms0, case["layout"])]
    if _pres(case).get("view", "plain") != "plain":
        given = [_present_array(case, g) for g in given]
    K = ttb.ktensor(given, _present_array(case, w0) if _pres(case).get("view") == "readonly" else w0.copy(), copy=case["copy"])
    prov = case.get("prov", "ctor")
    if prov != "ctor":
        K = _derive_ktensor(ctx, K, case)
        if not (isinstance(K, ttb.ktensor) and isinstance(K.weights, np.ndarray) and K.weights.ndim == 1 and
                all(isinstance(f, np.ndarray) and f.ndim == 2 and f.shape[1] == K.weights.size for f in K.factor_matrices)
                and np.all(np.isfinite(K.weights)) and all(np.all(np.isfinite(f)) for f in K.factor_matrices)):
            ctx.skip("derived-state-not-a-finite-ktensor:" + prov)
    # the object as it is right before the export
    fms = [np.array(f, dtype=float, copy=True) for f in K.factor_matrices]
    w = np.array(K.weights, dtype=float, copy=True)
    shape, r = tuple(f.shape[0] for f in fms), int(w.size)
    ctx.label(f"order{len(shape)}", f"rank{r}", "non-square-factor" if any(n != r for n in shape) else "square-factors",
              "has-singleton" if 1 in shape else "no-singleton", "prov-" + prov, *_pres_labels(case),
              "some-factor-C-ordered" if any(f.shape[0] > 1 and f.shape[1] > 1 and not f.flags["F_CONTIGUOUS"]
                                             for f in K.factor_matrices) else "factors-F-ordered")
    allv = w.tolist() + [v for f in fms for v in f.ravel().tolist()]
    ctx.nt = any(n != r and n > 1 and r > 1 for n in shape) and needs17(allv)
    with Scratch() as sc:
        p = sc.path()
        with ctx.sut("export_data(ktensor)"):
            _export(case, K, p)
        lines = _read_lines(p)
        k = _expect_header(ctx, lines, "ktensor", shape, "ktensor")
        ctx.require(len(lines) > k + 1 and lines[k].split() == [str(r)], "ktensor-rank-line", lines[k:k + 1])
        ctx.check(_tokens_equal_bits(lines[k + 1].split(), w.tolist()), "ktensor-file-weights", lines[k + 1])
        pos = k + 2
        for n_, f in zip(shape, fms):
            blk = lines[pos:pos + 3 + n_]
            if len(blk) < 3 + n_ or blk[0].strip() != "matrix" or blk[1].split() != ["2"] or \
                    blk[2].split() != [str(n_), str(r)]:
                ctx.check(False, "ktensor-file-matrix-block-header", blk[:3])
                break
            rows_ok = all(_tokens_equal_bits(blk[3 + i].split(), f[i, :].tolist()) for i in range(n_))
            ctx.check(rows_ok, "ktensor-file-factor-row-by-row", blk[3:5])
            pos += 3 + n_
        with ctx.sut("import_data(ktensor)"):
            R = _import(case, p)
    ctx.require(isinstance(R, ttb.ktensor), "ktensor-roundtrip-type", type(R).__name__)
    ctx.check(tuple(int(s) for s in R.shape) == shape, "ktensor-roundtrip-shape", R.shape)
    ctx.check(same_bits(R.weights, w), "ktensor-roundtrip-weights-bits", ref.diff_info(R.weights, w))
    ctx.require(len(R.factor_matrices) == len(fms), "ktensor-roundtrip-number-of-factors", len(R.factor_matrices))
    for i, (g, f) in enumerate(zip(R.factor_matrices, fms)):
        ctx.check(same_bits(g, f), "ktensor-roundtrip-factor-bits", f"mode {i}: {ref.diff_info(g, f)}")
    ctx.check(all(same_bits(np.asarray(a_), b_) for a_, b_ in zip(K.factor_matrices, fms)) and same_bits(K.weights, w),
              "export-leaves-object")


# --------------------------------------------------------------------------
# matrix
# --------------------------------------------------------------------------


@st.composite
def _matrix_case(draw, tier, max_size=None):
    maxs = max_size or (5 if tier == "quick" else 8)
    m, n = draw(st.integers(1, maxs)), draw(st.integers(1, maxs))
    dtype = draw(st.sampled_from(_DTYPE_CHOICES))
    rows = [_draw_typed(draw, dtype, n) for _ in range(m)]
    return dict(m=m, n=n, rows=rows, dtype=dtype, layout=draw(st.sampled_from(["C", "F", "transposed-view", "strided-view"])))


@cell("C16/matrix", strategy=_matrix_case, quick=500, thorough=10000, shards=(2, 8))
def rt_matrix(ctx, case):
    m, n = case["m"], case["n"]
    if case.get("big"):
        A = _big_values(case["big"]["seed"], m * n).reshape(m, n)
    else:
        A = np.array(case["rows"], dtype=float).reshape(m, n).astype(_DTYPES[case["dtype"]])
    lay = case["layout"]
    if lay == "C":
        M = np.ascontiguousarray(A.copy())
    elif lay == "F":
        M = np.asfortranarray(A.copy())
    elif lay == "transposed-view":
        M = np.ascontiguousarray(A.T.copy()).T
    else:
        big = np.zeros((2 * m, 2 * n), dtype=A.dtype)
        big[::2, ::2] = A
        M = big[::2, ::2]
    if _pres(case).get("view") == "readonly":
        M.flags.writeable = False
    ctx.label(*_pres_labels(case), "layout-" + lay, "square" if m == n else "non-square", "dtype-" + case["dtype"],
              "vector-like" if 1 in (m, n) else "proper-matrix")
    ctx.nt = m != n and m > 1 and n > 1 and (case["dtype"] != "float" or needs17(A.ravel().tolist()))
    with Scratch() as sc:
        p = sc.path()
        with ctx.sut("export_data(matrix)"):
            _export(case, M, p)
        lines = _read_lines(p)
        k = _expect_header(ctx, lines, "matrix", (m, n), "matrix")
        toks = [t for ln in lines[k:] for t in ln.split()]
        ctx.check(_tokens_equal_bits(toks, [float(v) for v in A.reshape(-1)]), "matrix-file-values-row-by-row", toks[:6])
        with ctx.sut("import_data(matrix)"):
            R = _import(case, p)
    ctx.require(isinstance(R, np.ndarray), "matrix-roundtrip-type", type(R).__name__)
    ctx.require(R.shape == (m, n), "matrix-roundtrip-shape", R.shape)
    if case["dtype"] == "float":
        ctx.check(same_bits(R, A), "matrix-roundtrip-bits", ref.diff_info(R, A))
    else:
        ctx.check(np.array_equal(R, A), "matrix-roundtrip-values", ref.diff_info(R, A))
    ctx.check(np.array_equal(M, A), "export-leaves-object")


# --------------------------------------------------------------------------
# call sequences in one process: the k-th call depends only on its own arguments
# --------------------------------------------------------------------------

_FMT_LOSSY = ["%d", "%.4f", "%.3e", "%g", "%10.2f", "%.0f"]
_FMT_EXACT = ["%.17g", "%.16e", "%.20e"]
_RT = {}  # kind -> round-trip body, filled below


@st.composite
def _sequence_case(draw, tier):
    """2..4 steps; at least one step with an explicit format comes before at least one step with the defaults"""
    n = draw(st.integers(2, 4))
    first_explicit = draw(st.integers(0, n - 2))
    later_default = draw(st.integers(first_explicit + 1, n - 1))
    steps = []
    for i in range(n):
        explicit = True if i == first_explicit else (False if i == later_default else draw(st.booleans()))
        kind = draw(st.sampled_from(["tensor", "sptensor", "ktensor", "matrix"]))
        obj = draw({"tensor": _tensor_case(tier, max_cells=12), "sptensor": _sptensor_case(tier, max_cells=12),
                    "ktensor": _ktensor_case(tier, max_size=3), "matrix": _matrix_case(tier, max_size=3)}[kind])
        fmt = fmtw = None
        if explicit:
            which = draw(st.sampled_from(["data", "data", "weights", "both"]))
            pool = _FMT_LOSSY + _FMT_LOSSY + _FMT_EXACT
            if which in ("data", "both"):
                fmt = draw(st.sampled_from(pool))
            if which in ("weights", "both"):
                fmtw = draw(st.sampled_from(pool))
        steps.append(dict(kind=kind, obj=obj, fmt_data=fmt, fmt_weights=fmtw))
    return dict(steps=steps)


def _unjudged_export(ctx, step):
    """a step with explicit formats: performed for the history it creates, not judged (the property speaks about the
    default format)"""
    kind, obj = step["kind"], dict(step["obj"])
    obj["prov"] = "ctor"
    kw = {k: v for k, v in (("fmt_data", step["fmt_data"]), ("fmt_weights", step["fmt_weights"])) if v is not None}
    try:
        if kind == "tensor":
            X = _make_tensor(ctx, obj)[0]
        elif kind == "sptensor":
            X = _make_sptensor(ctx, obj)[0]
        elif kind == "ktensor":
            X = ttb.ktensor([np.array(f, dtype=float).reshape(n_, obj["rank"]) for f, n_ in zip(obj["factors"], obj["shape"])],
                            np.array(obj["weights"], dtype=float))
        else:
            X = np.array(obj["rows"], dtype=float).reshape(obj["m"], obj["n"])
        with Scratch() as sc:
            ttb.export_data(X, sc.path(), **kw)
            ttb.import_data(sc.path())
        return "explicit-step-answered"
    except Exception:  # noqa: BLE001
        return "explicit-step-raised"


def _sequence_body(ctx, case):
    seen_data = seen_weights = False
    judged_after = 0
    for step in case["steps"]:
        fd, fw = step["fmt_data"], step["fmt_weights"]
        kind = step["kind"]
        if fd is not None or fw is not None:
            ctx.label(_unjudged_export(ctx, step), "explicit-lossy" if (fd in _FMT_LOSSY or fw in _FMT_LOSSY) else "explicit-exact")
            seen_data |= fd is not None
            seen_weights |= fw is not None
            continue
        # default formats: judged like a first call
        after = seen_data or seen_weights
        ctx.label("default-step", f"default-{kind}" + ("-after-explicit" if after else "-first"))
        if after:
            judged_after += 1
            ctx.label(*((["after-explicit-fmt_data"] if seen_data else []) + (["after-explicit-fmt_weights"] if seen_weights else [])))
        _RT[kind](ctx, step["obj"])
    ctx.nt = judged_after >= 1
    ctx.label(f"steps{len(case['steps'])}", f"defaults-after-explicit-{min(judged_after, 2)}")


@cell("C16/sequence", strategy=_sequence_case, quick=250, thorough=5000, shards=(2, 8))
def rt_sequence(ctx, case):
    """every default-format export / default-base import of a sequence is judged exactly like a first call"""
    isolated(ctx, _sequence_body, case)


# --------------------------------------------------------------------------
# sizes above internal block thresholds (round 3): a few large objects per run
# --------------------------------------------------------------------------

_BLOCK_EDGES = [10000, 10001, 16383, 16384, 16385, 32768, 32769, 65536, 65537]


@st.composite
def _large_case(draw, tier):
    """objects with 1e4..1.2e5 stored numbers: vectorised readers / writers that work in blocks (1e4, 16384, 65536
    rows, lines or values) have more than one block to get right.  The data are expanded from a seed inside the body
    (the case stays a few integers); the judges are the ones of the small cells."""
    kind = draw(st.sampled_from(["sptensor", "sptensor", "sptensor", "tensor", "ktensor", "matrix"]))
    seed = draw(st.integers(0, 2 ** 31 - 1))
    count = draw(st.one_of(st.sampled_from(_BLOCK_EDGES[:7]), st.integers(17000, 40000), st.integers(17000, 40000)))
    if kind == "sptensor":
        N = draw(st.integers(1, 4))
        small = [draw(st.integers(1, 30)) for _ in range(N - 1)]
        fill = draw(st.sampled_from([1, 2, 3, 10, 1000]))  # 1: every cell stored
        shape = small + [-(-count * fill // ref.prod(small))]
        shape = [shape[i] for i in draw(st.permutations(range(N)))]
        if ref.prod(shape) // count >= 1000 and draw(st.booleans()):  # (room for distinct cells stays ample)
            shape = [s * 3 + 1 for s in shape]
        return dict(kind=kind, obj=dict(shape=shape, big=dict(seed=seed, nnz=count, order=draw(st.sampled_from(
            ["random", "random", "sorted", "reverse"]))), pattern="some", order="random", dtype="float", prov="ctor",
            zeros=[], a=0, huge=None, base=draw(st.sampled_from([0, 2, 5, -1, 1000]))))
    if kind == "tensor":
        N = draw(st.integers(1, 4))
        small = [draw(st.integers(1, 12)) for _ in range(N - 1)]
        count = draw(st.one_of(st.just(count), st.sampled_from(_BLOCK_EDGES[7:]), st.integers(66000, 120000)))
        shape = small + [-(-count // ref.prod(small))]
        shape = [shape[i] for i in draw(st.permutations(range(N)))]
        return dict(kind=kind, obj=dict(shape=shape, big=dict(seed=seed), dtype="float", prov=draw(st.sampled_from(
            ["ctor", "ctor", "nocopy-C", "permuted", "grown-slab"])), a=draw(st.integers(0, 7)), b=1, v=1.5))
    if kind == "ktensor":
        N = draw(st.integers(1, 3))
        shape = [draw(st.integers(1, 5)) for _ in range(N - 1)] + [count]
        shape = [shape[i] for i in draw(st.permutations(range(N)))]
        return dict(kind=kind, obj=dict(shape=shape, rank=draw(st.integers(1, 4)), big=dict(seed=seed),
                                        layout=[draw(st.sampled_from(["C", "F"])) for _ in range(N)],
                                        copy=draw(st.booleans()), prov="ctor", a=0))
    form = draw(st.sampled_from(["tall", "wide", "square"]))
    k = draw(st.integers(1, 4))
    m, n = {"tall": (count, k), "wide": (k, count), "square": (130 + count % 200, 130 + (count // 7) % 200)}[form]
    return dict(kind=kind, obj=dict(m=m, n=n, big=dict(seed=seed), dtype="float",
                                    layout=draw(st.sampled_from(["C", "F", "transposed-view", "strided-view"]))))


@cell("C16/large", strategy=_large_case, quick=4, thorough=40, shards=(2, 8))
def rt_large(ctx, case):
    """the round trips of the small cells on objects above every internal block size"""
    ctx.label("large-" + case["kind"])
    _RT[case["kind"]](ctx, case["obj"])


# --------------------------------------------------------------------------
# several live objects (round 3): the exported object, the file and every import result are independent of each other
# --------------------------------------------------------------------------


def _state(kind, X):
    """what the object holds now, read through its public attributes (copies)"""
    if kind == "tensor":
        return dict(shape=tuple(int(x) for x in X.shape), subs=None, arrs=[np.array(X.data, dtype=float, copy=True)])
    if kind == "sptensor":
        N = len(X.shape)
        subs = np.array(X.subs, copy=True)
        return dict(shape=tuple(int(x) for x in X.shape), subs=subs.reshape(-1, N) if subs.size else np.zeros((0, N), dtype=int),
                    arrs=[np.array(X.vals, dtype=float, copy=True).reshape(-1, 1)])
    if kind == "ktensor":
        return dict(shape=tuple(int(x) for x in X.shape), subs=None,
                    arrs=[np.array(X.weights, dtype=float, copy=True)] +
                         [np.array(f, dtype=float, copy=True) for f in X.factor_matrices])
    return dict(shape=tuple(X.shape), subs=None, arrs=[np.array(X, dtype=float, copy=True)])


def _holds(kind, X, want) -> bool:
    try:
        if kind == "matrix" and not isinstance(X, np.ndarray):
            return False
        if kind != "matrix" and type(X).__name__ != kind:
            return False
        cur = _state(kind, X)
    except Exception:  # noqa: BLE001
        return False
    return (cur["shape"] == want["shape"] and len(cur["arrs"]) == len(want["arrs"])
            and all(same_bits(a, b) for a, b in zip(cur["arrs"], want["arrs"]))
            and (want["subs"] is None or np.array_equal(cur["subs"], want["subs"])))


def _edit(kind, X, e):
    """one documented in-place change (item assignment / in-place method); returns the object that carries it"""
    if kind == "tensor":
        sub = tuple(e["pos"][d] % n for d, n in enumerate(X.shape))
        X[sub] = e["v"]
    elif kind == "sptensor":
        if X.subs.size and e["how"] % 2 == 0:
            X[tuple(int(i) for i in X.subs[e["pos"][0] % X.subs.shape[0]])] = e["v"]  # a stored value is replaced
        else:
            X[tuple(e["pos"][d] % n for d, n in enumerate(X.shape))] = e["v"]
    elif kind == "ktensor":
        how = e["how"] % 3
        if how == 0:
            X.weights[e["pos"][0] % X.weights.size] = e["v"]
        elif how == 1:
            f = X.factor_matrices[e["pos"][0] % len(X.factor_matrices)]
            f[e["pos"][1] % f.shape[0], e["pos"][2] % f.shape[1]] = e["v"]
        else:
            X.arrange(permutation=np.roll(np.arange(X.weights.size), 1))
    else:
        X[e["pos"][0] % X.shape[0], e["pos"][1] % X.shape[1]] = e["v"]
    return X


@st.composite
def _fork_case(draw, tier):
    kind = draw(st.sampled_from(["tensor", "sptensor", "ktensor", "matrix"]))
    obj = draw({"tensor": _tensor_case(tier, max_cells=24), "sptensor": _sptensor_case(tier, max_cells=24),
                "ktensor": _ktensor_case(tier, max_size=3), "matrix": _matrix_case(tier, max_size=4)}[kind])
    obj = dict(obj, dtype="float", prov="ctor", huge=None) if kind != "ktensor" else dict(obj, prov="ctor")
    if kind in ("tensor", "matrix") and obj.get("dtype") == "float":
        pass
    edits = [dict(pos=[draw(st.integers(0, 7)) for _ in range(4)], how=draw(st.integers(0, 5)),
                  v=draw(st.sampled_from([2.5, -7.0, 1.0 / 3.0, 1e-300, 123456789.12345679]))) for _ in range(2)]
    return dict(kind=kind, obj=obj, edits=edits, same_file=draw(st.booleans()))


def _fork_body(ctx, case):
    kind, obj, (e1, e2) = case["kind"], case["obj"], case["edits"]
    if kind in ("tensor", "matrix", "sptensor") and obj.get("dtype") != "float":
        obj = dict(obj, dtype="float")
    try:
        if kind == "tensor":
            n = ref.prod(obj["shape"])
            X = ttb.tensor(gen.arr_F(obj["shape"], [float(v) for v in obj["data"]][:n]).copy(order="F"), tuple(obj["shape"]))
        elif kind == "sptensor":
            X = _make_sptensor(ctx, dict(obj, vals=[float(v) for v in obj["vals"]]))[0]
        elif kind == "ktensor":
            X = ttb.ktensor([np.array(f, dtype=float).reshape(n_, obj["rank"]) for f, n_ in zip(obj["factors"], obj["shape"])],
                            np.array(obj["weights"], dtype=float))
        else:
            X = np.array(obj["rows"], dtype=float).reshape(obj["m"], obj["n"])
    except Exception:  # noqa: BLE001
        ctx.skip("building-the-object-raised")
    s0 = _state(kind, X)
    ctx.label("fork-" + kind, "same-file-rewritten" if case["same_file"] else "second-file")
    with Scratch() as sc:
        p = sc.path()
        with ctx.sut(f"export_data({kind})"):
            ttb.export_data(X, p)
        with ctx.sut(f"import_data({kind})"):
            R1 = ttb.import_data(p)
        ctx.require(_holds(kind, R1, s0), "fork-first-import-is-what-was-written")
        # 1. a result of import_data is changed in place: the exported object and a second import do not see it
        try:
            R1 = _edit(kind, R1, e1)
        except Exception:  # noqa: BLE001   (assignment is another property's subject)
            ctx.skip("editing-the-import-result-raised")
        s1 = _state(kind, R1)
        changed1 = not _holds(kind, R1, s0)
        ctx.check(_holds(kind, X, s0), "fork-edit-of-import-result-reaches-exported-object")
        with ctx.sut(f"import_data({kind}) again"):
            R2 = ttb.import_data(p)
        ctx.check(_holds(kind, R2, s0), "fork-second-import-sees-edit-of-first-result")
        ctx.check(_holds(kind, R1, s1), "fork-second-import-changes-first-result")
        # 2. the exported object is changed in place and exported again (same path or another one): the file shows the
        #    present state, the objects read before keep theirs
        try:
            X = _edit(kind, X, e2)
        except Exception:  # noqa: BLE001
            ctx.skip("editing-the-exported-object-raised")
        s2 = _state(kind, X)
        changed2 = not _holds(kind, X, s0)
        p2 = p if case["same_file"] else sc.path("y.tns")
        with ctx.sut(f"export_data({kind}) after edit"):
            ttb.export_data(X, p2)
        with ctx.sut(f"import_data({kind}) after edit"):
            R3 = ttb.import_data(p2)
        ctx.check(_holds(kind, R3, s2), "fork-export-after-edit-writes-present-state")
        ctx.check(_holds(kind, R2, s0), "fork-earlier-import-result-changed-by-later-export")
        ctx.check(_holds(kind, R1, s1), "fork-edited-import-result-changed-by-later-export")
        ctx.check(_holds(kind, X, s2), "export-leaves-object")
        if not case["same_file"]:
            with ctx.sut(f"import_data({kind}) first file at the end"):
                R4 = ttb.import_data(p)
            ctx.check(_holds(kind, R4, s0), "fork-first-file-read-again-at-the-end")
    ctx.nt = changed1 and changed2
    ctx.label("both-edits-change-something" if ctx.nt else "an-edit-changed-nothing")


@cell("C16/fork", strategy=_fork_case, quick=120, thorough=2500, shards=(2, 8))
def rt_fork(ctx, case):
    """export X, import, edit the import result in place, import again, edit X in place, export again: every object
    and file keeps / shows exactly its own state (forked child, like C16/sequence)"""
    isolated(ctx, _fork_body, case)


# --------------------------------------------------------------------------
# degenerate objects (round 3): zero-length modes, objects without any mode, rank 0
# --------------------------------------------------------------------------


def _enum_degenerate(tier):
    for shp in ([0], [0, 3], [3, 0], [2, 0, 3], [0, 0], [1, 0]):
        yield dict(kind="tensor", shape=shp)
        if len(shp) == 2:
            yield dict(kind="matrix", shape=shp)
    for shp in ([0, 3], [2, 0, 3], [0], [0, 0]):
        for r in (1, 2):
            yield dict(kind="ktensor", shape=shp, rank=r)
    yield dict(kind="ktensor", shape=[2, 3], rank=0)
    yield dict(kind="ktensor", shape=[4], rank=0)
    for kind in ("tensor", "sptensor", "ktensor"):
        yield dict(kind=kind, shape=None)  # the documented empty object of the class (default constructor)


def is_default_constructed(case):
    return case.get("shape") is None


def is_rank_zero(case):
    return case.get("kind") == "ktensor" and case.get("rank") == 0 and case.get("shape") is not None


PREDICATES = {"default_constructed_object": is_default_constructed, "rank_zero_ktensor": is_rank_zero}


@cell("C16/degenerate", enum=_enum_degenerate)
def rt_degenerate(ctx, case):
    """objects that hold no numbers at all: the file is written and read back as the same (empty) object"""
    kind, shp = case["kind"], case["shape"]
    ctx.nt = True
    tag = "default-constructed" if shp is None else ("rank-zero" if case.get("rank") == 0 else "zero-length-mode")
    ctx.label(kind, tag)
    if shp is None:
        X = {"tensor": ttb.tensor, "sptensor": ttb.sptensor, "ktensor": ttb.ktensor}[kind]()
    elif kind == "tensor":
        X = ttb.tensor(np.zeros(tuple(shp)), tuple(shp))
    elif kind == "matrix":
        X = np.zeros(tuple(shp))
    else:
        r = case["rank"]
        X = ttb.ktensor([np.arange(1.0, n * r + 1).reshape(n, r) / 3.0 for n in shp], np.arange(1.0, r + 1) / 7.0)
    s0 = _state(kind, X)
    with Scratch() as sc:
        p = sc.path()
        with ctx.sut(f"export_data({kind})/{tag}"):
            ttb.export_data(X, p)
        with ctx.sut(f"import_data({kind})/{tag}"):
            R = ttb.import_data(p)
    ctx.require(isinstance(R, np.ndarray) if kind == "matrix" else type(R).__name__ == kind, f"degenerate-type/{tag}",
                type(R).__name__)
    got = _state(kind, R)
    ctx.check(got["shape"] == s0["shape"], f"degenerate-shape/{tag}", (got["shape"], s0["shape"]))
    if kind == "ktensor":
        ctx.check(len(got["arrs"]) == len(s0["arrs"]) and all(
            a.shape == b.shape and same_bits(a, b) for a, b in zip(got["arrs"], s0["arrs"])),
            f"degenerate-ktensor-components/{tag}", [a.shape for a in got["arrs"]])
    else:  # nothing is stored: (the array shape pyttb gives an empty buffer is not the file format's business)
        ctx.check(all(a.size == 0 for a in got["arrs"]), f"degenerate-holds-no-values/{tag}", [a.shape for a in got["arrs"]])
    ctx.check(_holds(kind, X, s0), "export-leaves-object")


# --------------------------------------------------------------------------
# every double class once, deterministically (so that no seed can miss one)
# --------------------------------------------------------------------------


def _enum_specials(tier):
    n = len(_SPECIAL)
    for kind in ("tensor", "sptensor", "ktensor", "matrix"):
        for rot in range(0, n, 5):
            yield dict(kind=kind, rot=rot)


@cell("C16/special-values", enum=_enum_specials)
def rt_specials(ctx, case):
    """the hand-picked doubles (subnormal, +-max, -0.0, 17-digit) through each object kind"""
    vals = _SPECIAL[case["rot"]:] + _SPECIAL[: case["rot"]]
    ctx.nt = True
    ctx.label(case["kind"])
    if case["kind"] == "tensor":
        rt_tensor(ctx, dict(shape=[2, 1, 13], data=vals[:26], dtype="float"))
    elif case["kind"] == "matrix":
        rt_matrix(ctx, dict(m=2, n=13, rows=[vals[:13], vals[13:26]], dtype="float", layout="F"))
    elif case["kind"] == "sptensor":
        nz = [v for v in vals if v != 0.0]
        shape = [3, 1, 9]
        subs = [list(s) for s in ref.all_subs_F(shape)][::-1][: len(nz)]
        rt_sptensor(ctx, dict(shape=shape, subs=subs, vals=nz[: len(subs)], pattern="some", order="reverse",
                              dtype="float", base=[0, 2, 5][case["rot"] % 3]))
    else:
        rt_ktensor(ctx, dict(shape=[4, 1, 3], rank=3, weights=vals[:3],
                             factors=[[vals[3 + 3 * i: 6 + 3 * i] for i in range(4)], [vals[15:18]],
                                      [vals[17 + 3 * i: 20 + 3 * i] for i in range(3)]],
                             layout=["C", "F", "C"], copy=True))


_RT.update(tensor=rt_tensor, sptensor=rt_sptensor, ktensor=rt_ktensor, matrix=rt_matrix)


# --------------------------------------------------------------------------
# round 4, class 11 / 13: the same request in another presentation (judged by the clauses of the plain cells)
# --------------------------------------------------------------------------

_NARROW = ["int32", "int32", "uint8", "uint8", "uint16", "uint64", "int16", "int8", "uint32", "int64"]


@st.composite
def _presentation_case(draw, tier):
    """one object of the small cells + how the caller hands the (valid) arguments over: optional arguments positionally
    in their documented order / by keyword in any order / as explicit None, file name as str or pathlib.Path, the index
    base as Python int or NumPy integer scalar, sparse subscripts in int32 / small unsigned / uint64 arrays (with a mode
    long enough that a stored subscript is the largest value of that dtype), read-only or strided arrays, DEBUG logging
    switched on for the whole round trip"""
    kind = draw(st.sampled_from(["sptensor", "sptensor", "sptensor", "tensor", "ktensor", "matrix"]))
    obj = draw({"tensor": _tensor_case(tier, max_cells=24), "sptensor": _sptensor_case(tier, max_cells=24),
                "ktensor": _ktensor_case(tier, max_size=3), "matrix": _matrix_case(tier, max_size=4)}[kind])
    pres = dict(export=draw(st.sampled_from(_EXPORT_FORMS)), export_path=draw(st.sampled_from(["str", "Path"])),
                import_path=draw(st.sampled_from(["str", "Path"])), base_form=draw(st.sampled_from(_BASE_FORMS)),
                view=draw(st.sampled_from(["plain", "readonly", "strided"])), log_debug=draw(st.sampled_from([False, False, True])))
    if pres["export"].endswith("formats") or pres["export"].endswith("format"):
        pres["fmt_data"], pres["fmt_weights"] = draw(st.sampled_from([("%.16e", "%.17g"), ("%.17g", "%.16e"), ("%.20e", "%.17g"),
                                                                       ("%.17g", "%.20e")]))
    if kind != "sptensor":
        pres["ignored_base"] = draw(st.sampled_from([None, 1, 0, 5]))
        if kind == "tensor":
            obj = dict(obj, prov="ctor")
            pres["copy"] = draw(st.booleans())
    else:
        pres["copy"] = draw(st.booleans())
        if obj["prov"] not in ("ctor", "npint-shape", "explicit-zero"):
            obj = dict(obj, prov="ctor", zeros=[])
        sd = pres["subs_dtype"] = draw(st.sampled_from(_NARROW))
        top = int(np.iinfo(_NP_INT[sd]).max)
        huge = obj.get("huge")
        if sd not in ("int64", "uint64") and draw(st.integers(0, 2)) == 0:
            # a mode exactly as long as the dtype allows, with stored subscripts at its far end
            m = draw(st.integers(0, len(obj["shape"]) - 1))
            H = top + 1
            pos = st.one_of(st.just(H - 1), st.integers(H - 4, H - 1), st.integers(0, H - 1))
            n_m = obj["shape"][m]
            huge = [m, H, sorted(draw(st.lists(pos, min_size=n_m, max_size=n_m, unique=True)))]
        elif huge is not None and huge[1] - 1 > top:
            huge = None
        obj = dict(obj, huge=huge)
    return dict(kind=kind, obj=dict(obj, pres=pres))


def subs_dtype_maximum_stored(case):
    """a stored subscript equals the largest value of the (narrower than int64) dtype the caller's subscript array has"""
    obj = case.get("obj") or {}
    pr, huge = obj.get("pres") or {}, obj.get("huge")
    sd = pr.get("subs_dtype")
    if case.get("kind") != "sptensor" or sd not in _NP_INT or sd in ("int64", "uint64") or not huge or len(huge) < 3:
        return False
    m, H, hmap = huge
    top = int(np.iinfo(_NP_INT[sd]).max)
    stored = [hmap[s[m]] if len(s) > m and s[m] < len(hmap) else -1 for s in obj.get("subs", [])]
    if H - 1 != top or top not in stored:
        return False
    # the array keeps the dtype only if every subscript of every mode fits (it does: the other modes are small)
    return True


PREDICATES["subs_dtype_maximum_stored"] = subs_dtype_maximum_stored


def rejected_sparse_export_2way_single_nonzero(case):
    """a history with a rejected (format that is none) export of a 2-way sparse tensor holding exactly one nonzero"""
    return any(st_.get("op") == "bad-export" and st_.get("how") == "bad-fmt_data" and st_["x"]["kind"] == "sptensor"
               and len(st_["x"]["obj"]["shape"]) == 2 and len(st_["x"]["obj"]["subs"]) == 1 for st_ in case.get("steps", []))


PREDICATES["rejected_sparse_export_2way_single_nonzero"] = rejected_sparse_export_2way_single_nonzero


def _with_debug_logging(on, fn):
    """run fn() with the root logger at DEBUG (records go to a NullHandler): what is computed must not depend on it"""
    if not on:
        return fn()
    root = logging.getLogger()
    level, disabled, handlers = root.level, logging.root.manager.disable, root.handlers[:]
    root.handlers[:] = [logging.NullHandler()]  # (logging.warning() installs a stderr handler when the root has none)
    try:
        logging.disable(logging.NOTSET)
        root.setLevel(logging.DEBUG)
        return fn()
    finally:
        root.setLevel(level)
        root.handlers[:] = handlers
        logging.disable(disabled)


@cell("C16/presentation", strategy=_presentation_case, quick=300, thorough=5000, shards=(2, 8))
def rt_presentation(ctx, case):
    """the round trip of the plain cells with the arguments handed over the way ordinary callers do"""
    ctx.label("presented-" + case["kind"])
    _with_debug_logging(_pres(case["obj"]).get("log_debug"), lambda: _RT[case["kind"]](ctx, case["obj"]))


# --------------------------------------------------------------------------
# round 4, class 11: explicit formats - positional (documented order: fmt_data, then fmt_weights) == keyword, and each
# format reaches the numbers its name says
# --------------------------------------------------------------------------

_FMT_FLOAT = ["%.3e", "%.17g", "%.16e", "%.4f", "%g", "%12.5e", "%.20e", "%+.2e"]  # (C printf == Python % for doubles)


@st.composite
def _format_case(draw, tier):
    kind = draw(st.sampled_from(["ktensor", "ktensor", "sptensor", "tensor", "matrix"]))
    V = st.one_of(st.floats(-1e6, 1e6, allow_nan=False, width=64), st.sampled_from([0.1, 1.0 / 3.0, -2.5, 1e-7, 123456.789]))
    fd = draw(st.sampled_from(_FMT_FLOAT))
    fw = draw(st.sampled_from([f for f in _FMT_FLOAT if f != fd]))
    if kind == "ktensor":
        N, r = draw(st.integers(1, 3)), draw(st.integers(1, 3))
        shape = [draw(st.integers(1, 3)) for _ in range(N)]
        nums = draw(st.lists(V, min_size=r * (1 + sum(shape)), max_size=r * (1 + sum(shape))))
        return dict(kind=kind, shape=shape, rank=r, nums=nums, fmt_data=fd, fmt_weights=fw,
                    give=draw(st.sampled_from(["both", "both", "data", "weights"])), path=draw(st.sampled_from(["str", "Path"])))
    shape = [draw(st.integers(1, 5)), draw(st.integers(1, 5))] if kind == "matrix" else draw(gen.shapes(tier, max_cells=12))
    n = ref.prod(shape)
    nums = draw(st.lists(V.filter(lambda v: v != 0), min_size=n, max_size=n))
    keep = [i for i in range(n) if draw(st.booleans())] or [0]
    return dict(kind=kind, shape=shape, nums=nums, keep=keep, fmt_data=fd, fmt_weights=fw,
                give=draw(st.sampled_from(["both", "data", "data"])), path=draw(st.sampled_from(["str", "Path"])))


def _py_tokens(fmt, values):
    return [t for v in values for t in (fmt % float(v)).split()]


@cell("C16/format-arguments", strategy=_format_case, quick=150, thorough=2500, shards=(2, 8))
def fmt_arguments(ctx, case):
    kind, shape, fd, fw = case["kind"], tuple(case["shape"]), case["fmt_data"], case["fmt_weights"]
    nums = np.array(case["nums"], dtype=float)
    ctx.label("fmt-" + kind, "give-" + case["give"], "path-" + case["path"])
    ctx.nt = True
    if kind == "ktensor":
        r = case["rank"]
        w, offs = nums[:r].copy(), np.cumsum([r] + [n * r for n in shape])
        fms = [nums[offs[i]:offs[i + 1]].reshape(n, r).copy() for i, n in enumerate(shape)]
        X = ttb.ktensor([f.copy() for f in fms], w.copy())
        data_vals, weight_vals = [v for f in fms for v in f.ravel().tolist()], w.tolist()
    elif kind == "sptensor":
        allsubs = ref.all_subs_F(shape)
        subs = np.array([list(allsubs[i]) for i in case["keep"]], dtype=np.int64).reshape(len(case["keep"]), len(shape))
        vals = nums[case["keep"]].reshape(-1, 1)
        X = ttb.sptensor(subs.copy(), vals.copy(), shape)
        data_vals, weight_vals = vals.ravel().tolist(), []
    elif kind == "tensor":
        A = gen.arr_F(shape, nums.tolist())
        X = ttb.tensor(A.copy(order="F"), shape)
        data_vals, weight_vals = A.ravel(order="F").tolist(), []
    else:
        A = nums.reshape(shape)
        X = A.copy()
        data_vals, weight_vals = A.ravel().tolist(), []
    give = case["give"]
    with Scratch() as sc:
        pp, pk = _as_path(case["path"], sc.path("positional.tns")), sc.path("keyword.tns")
        with ctx.sut(f"export_data({kind}, file, formats positionally)"):
            if give == "both":
                ttb.export_data(X, pp, fd, fw)
            elif give == "data":
                ttb.export_data(X, pp, fd)
            else:
                ttb.export_data(X, pp, None, fw)
        with ctx.sut(f"export_data({kind}, file, formats by keyword)"):
            kw = dict(fmt_data=fd) if give == "data" else (dict(fmt_weights=fw) if give == "weights" else dict(fmt_weights=fw, fmt_data=fd))
            ttb.export_data(X, pk, **kw)
        with open(pp) as f1, open(pk) as f2:
            tp, tk = f1.read(), f2.read()
        ctx.check(tp == tk, "formats-positional-in-documented-order-equal-keyword", (tp[:120], tk[:120]))
        # each format reaches the numbers its name says (harness-side formatting of the harness' own numbers)
        use_d = fd if give in ("both", "data") else "%.16e"
        use_w = fw if give in ("both", "weights") else "%.16e"
        lines = [ln for ln in tk.split("\n")]
        if kind == "ktensor":
            ctx.require(len(lines) > 5, "format-file-has-header", lines[:5])
            ctx.check(lines[4].split() == _py_tokens(use_w, weight_vals), "fmt_weights-formats-the-weights", lines[4])
            toks, pos = [], 5
            for n_ in shape:
                toks += [t for ln in lines[pos + 3:pos + 3 + n_] for t in ln.split()]
                pos += 3 + n_
            ctx.check(toks == _py_tokens(use_d, data_vals), "fmt_data-formats-the-factor-entries", toks[:4])
        elif kind == "sptensor":
            toks = [ln.split()[-1] for ln in lines[4:] if ln.strip()]
            ctx.check(toks == _py_tokens(use_d, data_vals), "fmt_data-formats-the-values", toks[:4])
        else:
            toks = [t for ln in lines[3:] for t in ln.split()]
            ctx.check(toks == _py_tokens(use_d, data_vals), "fmt_data-formats-the-values", toks[:4])


# --------------------------------------------------------------------------
# round 4, class 12: state after a rejected request (histories in a forked child, like C16/sequence)
# --------------------------------------------------------------------------

_BAD_FORMATS = ["%q", "%s %s", "no conversion", "%c", 5]  # every one of them raises on the first number it formats
_BAD_EXPORT = ["bad-fmt_data", "bad-fmt_data", "bad-fmt_weights", "unsupported-type"]
_BAD_IMPORT = ["missing-file", "bad-type-line", "order-line-disagrees-with-sizes", "last-line-missing", "value-is-not-a-number"]


@st.composite
def _small_obj(draw, tier, kinds=("tensor", "sptensor", "sptensor", "ktensor", "matrix")):
    kind = draw(st.sampled_from(list(kinds)))
    obj = draw({"tensor": _tensor_case(tier, max_cells=12), "sptensor": _sptensor_case(tier, max_cells=12),
                "ktensor": _ktensor_case(tier, max_size=3), "matrix": _matrix_case(tier, max_size=3)}[kind])
    if kind != "ktensor":
        obj = dict(obj, dtype="float", huge=None)
        for k in ("data", "vals"):
            if k in obj:
                obj[k] = draw(st.lists(FULL_NZ if k == "vals" else FULL, min_size=len(obj[k]), max_size=len(obj[k])))
        if kind == "matrix":
            obj["rows"] = [draw(st.lists(FULL, min_size=obj["n"], max_size=obj["n"])) for _ in range(obj["m"])]
        if kind == "sptensor" and not obj["subs"]:  # at least one stored value, so that a format is used at all
            obj = dict(obj, subs=[[0] * len(obj["shape"])], vals=[1.5], zeros=[], pattern="one")
    return dict(kind=kind, obj=dict(obj, prov="ctor", zeros=[]))


@st.composite
def _rejected_case(draw, tier):
    """2..4 steps, at least one rejected request, and the last step is a valid round trip judged like a first call"""
    n = draw(st.integers(2, 4))
    which = draw(st.integers(0, n - 2))
    steps = []
    for i in range(n):
        op = draw(st.sampled_from(["roundtrip", "bad-export", "bad-import"]))
        if i == which and op == "roundtrip":
            op = draw(st.sampled_from(["bad-export", "bad-import"]))
        if i == n - 1:
            op = "roundtrip"
        if op == "roundtrip":
            steps.append(dict(op=op, **draw(_small_obj(tier, kinds=("sptensor", "sptensor", "tensor", "ktensor", "matrix")))))
        elif op == "bad-export":
            how = draw(st.sampled_from(_BAD_EXPORT))
            x = draw(_small_obj(tier, kinds=("ktensor",) if how == "bad-fmt_weights" else ("tensor", "sptensor", "ktensor", "matrix")))
            onto = draw(st.sampled_from(["no-file", "file-of-another-object", "file-of-another-object"]))
            steps.append(dict(op=op, how=how, fmt=draw(st.sampled_from(_BAD_FORMATS)), onto=onto, x=x,
                              x0=draw(_small_obj(tier)) if onto != "no-file" else None,
                              thing=draw(st.sampled_from(["list", "None", "tenmat", "scalar", "str", "tuple-of-arrays"]))))
        else:
            steps.append(dict(op=op, how=draw(st.sampled_from(_BAD_IMPORT)), x=draw(_small_obj(tier)),
                              base=draw(st.sampled_from([None, None, 0, 1, 2, 7])),
                              base_form=draw(st.sampled_from(["kw-int", "pos-int", "pos-int64"]))))
    return dict(steps=steps)


def _build_plain(ctx, kind, obj):
    try:
        if kind == "tensor":
            return ttb.tensor(gen.arr_F(obj["shape"], [float(v) for v in obj["data"]]).copy(order="F"), tuple(obj["shape"]))
        if kind == "sptensor":
            n = len(obj["subs"])
            return ttb.sptensor(np.array(obj["subs"], dtype=np.int64).reshape(n, len(obj["shape"])),
                                np.array(obj["vals"], dtype=float).reshape(n, 1), tuple(obj["shape"]))
        if kind == "ktensor":
            return ttb.ktensor([np.array(f, dtype=float).reshape(n_, obj["rank"]) for f, n_ in zip(obj["factors"], obj["shape"])],
                               np.array(obj["weights"], dtype=float))
        return np.array(obj["rows"], dtype=float).reshape(obj["m"], obj["n"])
    except Exception:  # noqa: BLE001
        ctx.skip("building-the-object-raised")


def _file_bytes(p):
    if not os.path.exists(p):
        return None
    with open(p, "rb") as f:
        return f.read()


def _unsupported(thing):
    if thing == "tenmat":
        try:
            return ttb.tensor(np.arange(6.0).reshape(2, 3)).to_tenmat(np.array([0]))
        except Exception:  # noqa: BLE001   (matricization is another property's subject)
            return [1.0]
    return {"list": [[1.0, 2.0], [3.0, 4.0]], "None": None, "scalar": 2.5, "str": "tensor",
            "tuple-of-arrays": (np.ones((2, 2)), np.ones(2))}[thing]


def _rejected_export(ctx, sc, i, step):
    kind, how = step["x"]["kind"], step["how"]
    X = _build_plain(ctx, kind, step["x"]["obj"])
    sx = _state(kind, X)
    p = sc.path(f"step{i}.tns")
    s0 = kind0 = None
    if step["onto"] != "no-file":  # the path holds a valid export of another object
        kind0 = step["x0"]["kind"]
        X0 = _build_plain(ctx, kind0, step["x0"]["obj"])
        s0 = _state(kind0, X0)
        with ctx.sut(f"export_data({kind0})"):
            ttb.export_data(X0, p)
        with ctx.sut(f"import_data({kind0})"):
            R0 = ttb.import_data(p)
        ctx.require(_holds(kind0, R0, s0), "rejected/earlier-file-reads-back")
    before = _file_bytes(p)
    ctx.label("rejected-export-" + how, "onto-" + step["onto"])
    if how == "unsupported-type":
        ctx.raises(f"export_data({step['thing']})/unsupported-type", ttb.export_data, _unsupported(step["thing"]), p)
        # nothing about the request is valid: the destination is as it was
        ctx.check(_file_bytes(p) == before, "rejected-export-of-unsupported-type-touches-the-destination")
    elif how == "bad-fmt_weights":
        ctx.raises("export_data(ktensor)/fmt_weights-not-a-format", ttb.export_data, X, p, None, step["fmt"])
    else:
        ctx.raises(f"export_data({kind})/fmt_data-not-a-format", ttb.export_data, X, p, step["fmt"])
    ctx.check(_holds(kind, X, sx), "rejected-export-changes-the-object")
    # whatever the rejected request left at the path does not read as an object that was never written there
    try:
        R = ttb.import_data(p)
    except Exception:  # noqa: BLE001
        ctx.label("after-rejected-export-import-raises")
    else:
        ctx.label("after-rejected-export-import-answers")
        tag = kind + ("-2way-single-nonzero" if kind == "sptensor" and len(sx["shape"]) == 2 and sx["subs"].shape[0] == 1 else "")
        ctx.check(s0 is not None and _holds(kind0, R, s0),
                  "rejected-export-leaves-a-file-that-imports-as-something-else/" + tag, type(R).__name__)
    # the same object, valid request, same path
    with ctx.sut(f"export_data({kind}) after a rejected export"):
        ttb.export_data(X, p)
    with ctx.sut(f"import_data({kind}) after a rejected export"):
        R = ttb.import_data(p)
    ctx.check(_holds(kind, R, sx), "roundtrip-after-rejected-export")


def _rejected_import(ctx, sc, i, step):
    kind, how = step["x"]["kind"], step["how"]
    X = _build_plain(ctx, kind, step["x"]["obj"])
    sx = _state(kind, X)
    good, bad = sc.path(f"step{i}-good.tns"), sc.path(f"step{i}-bad.tns")
    with ctx.sut(f"export_data({kind})"):
        ttb.export_data(X, good)
    with open(good) as f:
        lines = f.read().split("\n")
    while lines and not lines[-1].strip():
        lines.pop()
    ctx.require(len(lines) >= 4, "rejected/file-has-header-and-body", lines[:4])
    if how == "bad-type-line":
        lines[0] = {"tensor": "tensors", "sptensor": "sparse", "ktensor": "", "matrix": "array"}[kind]
    elif how == "order-line-disagrees-with-sizes":
        lines[1] = str(int(lines[1]) + (1 if i % 2 else -1)) if lines[1].strip().isdigit() else "x"
    elif how == "last-line-missing":
        lines.pop()
    elif how == "value-is-not-a-number":
        toks = lines[-1].split()
        lines[-1] = " ".join(toks[:-1] + ["abc"])
    if how != "missing-file":
        with open(bad, "w") as f:
            f.write("\n".join(lines) + "\n")
    before = _file_bytes(bad)
    ctx.label("rejected-import-" + how, "rejected-import-base-" + str(step["base"]))
    args = () if step["base"] is None else (_base_value(step["base_form"], step["base"]),)
    if step["base"] is not None and step["base_form"].startswith("kw-"):
        ctx.raises(f"import_data({kind})/{how}", lambda: ttb.import_data(bad, index_base=args[0]))
    else:
        ctx.raises(f"import_data({kind})/{how}", ttb.import_data, bad, *args)
    ctx.check(_file_bytes(bad) == before, "rejected-import-changes-the-file")
    with ctx.sut(f"import_data({kind}) after a rejected import"):
        R = ttb.import_data(good)
    ctx.check(_holds(kind, R, sx), "import-after-rejected-import")


def _rejected_body(ctx, case):
    rejected = 0
    with Scratch() as sc:
        for i, step in enumerate(case["steps"]):
            if step["op"] == "roundtrip":
                ctx.label("roundtrip-after-%d-rejected" % min(rejected, 2), "roundtrip-" + step["kind"])
                _RT[step["kind"]](ctx, step["obj"])
            elif step["op"] == "bad-export":
                _rejected_export(ctx, sc, i, step)
                rejected += 1
            else:
                _rejected_import(ctx, sc, i, step)
                rejected += 1
    ctx.nt = rejected >= 1
    ctx.label(f"steps{len(case['steps'])}")


@cell("C16/rejected", strategy=_rejected_case, quick=80, thorough=800, shards=(2, 8))
def rt_rejected(ctx, case):
    """rejected exports (a format that is none, an unsupported object) and rejected imports (missing, mislabelled,
    truncated, non-numeric file; with and without an index base) inside a history: the exported object is unchanged, the
    path never reads as an object that was not written there, files that are read are not modified, and the valid steps
    that follow are judged as if the rejected ones had not happened"""
    isolated(ctx, _rejected_body, case)
