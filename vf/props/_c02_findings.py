"""Predicates on C02 case dicts used by known_findings/C02.json.

Each predicate characterises the *class of inputs* on which one confirmed defect of pyttb shows, as narrowly as the
defect allows, so that the same clause failing on any other input is still reported as a VIOLATION."""

from __future__ import annotations


def _leaves(h, out):
    if isinstance(h, dict) and "holder" in h:
        if h["holder"] == "sumtensor":
            for p in h["parts"]:
                _leaves(p, out)
        else:
            out.append(h)
    return out


def holders(case, keys=("X", "Y")):
    """All non-sum holder dicts of a case (sumtensor parts flattened)."""
    out = []
    for k in keys:
        _leaves(case.get(k), out)
    return out


def sparse_nnz(h):
    """Number of stored nonzeros of the sparse object inside a holder (None if it has none)."""
    if h["holder"] == "sptensor":
        return len(h["subs"])
    if h["holder"] == "ttensor" and h.get("sparse_core"):
        return sum(1 for v in h["core"] if v != 0)
    return None


def _nonunit_ktensor_operand(case):
    u = case.get("U") or {}
    return u.get("kind") == "ktensor" and any(w != 1.0 for w in u["weights"])


# -- ktensor.ttv: a selected mode of size 1 (vector.squeeze() turns the length-1 multiplicand into a 0-d array) ------
def kruskal_ttv_selected_singleton(case):
    X = case["X"]
    has_kt = any(h["holder"] == "ktensor" for h in holders(case, ("X",)))
    return has_kt and any(X["shape"][m] == 1 for m in case["des"]["sel"])


# -- sptensor.ttm of a 1-way sparse tensor (also reached through ttensor kernels pushing work onto a sparse core) -----
def oneway_sparse_operand(case):
    hs = holders(case)
    return any(len(h["shape"]) == 1 and sparse_nnz(h) is not None for h in hs)


# -- gathers by a one-row subscript array come back as a Python scalar -------------------------------------------------
def sparse_operand_with_one_nonzero(case):
    return any(sparse_nnz(h) == 1 for h in holders(case))


def receiver_sparse_one_nonzero_dense_factor(case):
    X = case["X"]
    return X["holder"] == "sptensor" and len(X["subs"]) == 1 and case.get("fkind") == "tensor"


# -- kernels that index columns of the (1, 0)-shaped subs / vals of a sparse tensor without nonzeros -------------------
def receiver_sparse_empty(case):
    X = case["X"]
    return X["holder"] == "sptensor" and len(X["subs"]) == 0


def receiver_sparse_empty_all_modes_collapsed(case):
    return receiver_sparse_empty(case) and len(case["dims"]) == len(case["X"]["shape"])


def collapse_custom_reducer_one_nonzero(case):
    X = case["X"]
    return (X["holder"] == "sptensor" and len(X["subs"]) == 1 and case["reducer"] in ("sumsq-np",)
            and len(X["shape"]) - len(case["dims"]) >= 2)


# -- Kruskal operand of mttkrp / mttkrps: weights dropped ---------------------------------------------------------------
def tucker_receiver_weighted_kruskal_operand(case):
    return _nonunit_ktensor_operand(case) and any(h["holder"] == "ttensor" for h in holders(case, ("X",)))


def weighted_kruskal_operand(case):
    return _nonunit_ktensor_operand(case)


# -- sptensor.mask: model of the defect (values are written at the receiver's storage positions) ----------------------
def sparse_mask_misplaces(case):
    X = case["X"]
    if X["holder"] != "sptensor" or case["wkind"] != "sptensor":
        return False
    xs = [tuple(s) for s in X["subs"]]
    ws = [tuple(s) for s in case["wsubs"]]
    if not xs or not ws:
        return False
    pos = {s: i for i, s in enumerate(xs)}
    matched = [pos[w] for w in ws if w in pos]
    n = len(ws)
    if any(j >= n for j in matched):
        return True  # IndexError in the defective code
    buggy = [0.0] * n
    for j in matched:
        buggy[j] = X["vals"][j]
    correct = [X["vals"][pos[w]] if w in pos else 0.0 for w in ws]
    return buggy != correct


def sparse_mask_receiver_empty(case):
    return case["X"]["holder"] == "sptensor" and len(case["X"]["subs"]) == 0


def sparse_mask_W_empty(case):
    return case["wkind"] == "sptensor" and len(case["wsubs"]) == 0


# -- ttv: a bare vector (not wrapped in a list) is recognised by the Python/NumPy type of its first entry; only int,
#    float, np.int64 and np.float64 are on the list, so a bare int32 / uint8 / float32 vector is taken for a list ------
NARROW = ("int32", "uint8", "float32", "int16", "int8", "uint16")


def bare_vector_narrow_dtype(case):
    for step in ([case] + list(case.get("steps") or [])):
        des = step.get("des")
        if des and des.get("form") in ("int", "npint") and ((step.get("vdtypes") or [None])[0] or "").split("@")[0] in NARROW \
                and step.get("op", "ttv") == "ttv":
            return True
    return False


# -- sumtensor.ttv over all modes adds up the parts' scalars only when they are Python floats: a part that stores
#    integers and meets integer vectors contracts to a Python int --------------------------------------------------
def _is_int(dt):
    return dt is not None and dt.split("@")[0] != "float64"


def _part_contracts_to_int(p):
    if p["holder"] in ("tensor", "sptensor"):
        # a sparse part without stored entries has float64 (empty) values whatever the case asked for
        return _is_int(p.get("dtype")) and (p["holder"] == "tensor" or len(p["subs"]) > 0)
    if p["holder"] == "ttensor":
        return _is_int(p.get("cdtype")) and all(_is_int(d) for d in (p.get("fdtypes") or [None]))
    return False


def sum_full_contraction_with_integer_part(case):
    X = case.get("X")
    if not X or X.get("holder") != "sumtensor" or not any(_part_contracts_to_int(p) for p in X["parts"]):
        return False
    if "calls" in case:  # sequence cells: one vector list for all calls
        return any(c["op"] == "ttv" and c.get("sel") is None for c in case["calls"]) and all(
            _is_int(d) for d in case.get("vdtypes") or [None])
    for step in ([case] + list(case.get("steps") or [])):
        des = step.get("des")
        if not des or step.get("op", "ttv") != "ttv":
            continue
        full = des["form"] == "all" or (step is case and len(des["sel"]) == len(X["shape"]))
        if full and all(_is_int(d) for d in (step.get("vdtypes") or [None])):
            return True
    return False


# -- sumtensor.mttkrp accumulates with `result += ...`: an integer first summand cannot take a float one -------------
def _part_mttkrp_is_int(p, u, n):
    if u.get("kind") != "list":
        return False
    fd = u.get("fdtypes") or [None] * len(p["shape"])
    if not all(_is_int(d) for k, d in enumerate(fd) if k != n):
        return False
    return _part_contracts_to_int(p)


def sum_mttkrp_integer_first_part_then_float(case):
    X, u = case.get("X"), case.get("U")
    if not X or X.get("holder") != "sumtensor" or not u or len(X["parts"]) < 2:
        return False
    ns = [case["n"]] if case.get("n") is not None else [c["n"] for c in case.get("calls") or [] if c["op"] == "mttkrp"]
    return any(_part_mttkrp_is_int(X["parts"][0], u, n) and not all(_part_mttkrp_is_int(p, u, n) for p in X["parts"][1:])
               for n in ns)


# -- sptensor.scale by a sparse factor multiplies the stored values by factor[subs], which is a Python number when the
#    receiver stores one entry: for unsigned data and a negative factor entry NumPy refuses the Python int ----------
def unsigned_one_entry_receiver_negative_sparse_factor(case):
    X = case.get("X") or {}
    return (X.get("holder") == "sptensor" and X.get("dtype") == "uint8" and len(X["subs"]) == 1
            and case.get("fkind") == "sptensor" and any(v < 0 for v in case.get("fdata") or []))


# -- boolean (indicator) tensors ---------------------------------------------------------------------------------------
def both_operands_boolean(case):
    """innerprod of two boolean operands: x.dot(y) on boolean arrays is the logical OR of ANDs, not the sum"""
    return case.get("op") in ("innerprod-self", "innerprod-bool")


def dense_boolean_through_tenmat(case):
    """dense kernels that matricise the receiver: tenmat's constructor rejects boolean data (tensor's accepts it)"""
    return case.get("kind") == "tensor" and case.get("op") in ("collapse", "scale", "ttt")


def sparse_boolean_collapse_into_one_cell(case):
    """sptensor.collapse hands the boolean values to numpy_groupies.aggregate, whose sum stays boolean when it is
    asked for a single output cell: a result vector of length one, or (multiway result) every stored entry falling
    into the same result cell"""
    if case.get("kind") != "sptensor" or case.get("op") != "collapse":
        return False
    shape, m = case["shape"], case["mode"]
    rem = [n for d, n in enumerate(shape) if d != m]
    if len(rem) == 1:
        return rem[0] == 1
    import numpy as np

    A = np.reshape(np.array(case["bits"], dtype=float), tuple(shape), order="F").sum(axis=m)
    return int(np.count_nonzero(A)) == 1


# -- sptensor.collapse adds unsigned 8-bit values up in their own dtype -------------------------------------------------
def sparse_uint8_collapse_sum_above_255(case):
    X = case.get("X") or {}
    if X.get("holder") != "sptensor" or X.get("dtype") != "uint8" or case.get("reducer") not in ("default", "builtin-sum", "np.sum"):
        return False
    import numpy as np

    A = np.zeros(tuple(X["shape"]))
    for s_, v in zip(X["subs"], X["vals"]):
        A[tuple(s_)] = v
    return float(np.max(A.sum(axis=tuple(sorted(case["dims"]))))) > 255


# -- sptensor.ttv: the number of cells of a >= 2-way result computed in int64 --------------------------------------------
def sparse_ttv_result_cells_overflow_int64(case):
    """C02/hugemodes: ttv leaving two or more modes whose lengths multiply to 2**63 or more"""
    if case.get("op") != "ttv":
        return False
    rem = [int(n) for m, n in enumerate(case["shape"]) if m not in case["sel"]]
    cells = 1
    for n in rem:
        cells *= n
    return len(rem) >= 2 and cells >= 2**63


# -- (round 4) mode numbers given in uint64 ----------------------------------------------------------------------------------
def mode_numbers_uint64(case):
    """C02/present: dims / exclude_dims / contracted modes typed as a uint64 array or uint64 scalars
    (``np.arange(N, dtype=np.uint64)``): joined with an int64 array of remaining modes NumPy promotes to float64"""
    return (case.get("pres") or {}).get("dims") == "uint64"


# -- (round 4) tensor.ttt: one contracted mode named by a numpy integer scalar ---------------------------------------------
def ttt_mode_as_numpy_integer_scalar(case):
    """C02/present/ttt: selfdims (and otherdims) a single numpy integer (``for n in np.arange(N)``), not a Python int"""
    how = (case.get("pres") or {}).get("dims") or ""
    return bool(case.get("scalar_form")) and how not in ("tuple", "pylist", "")


PREDICATES = {f.__name__: f for f in (
    kruskal_ttv_selected_singleton, oneway_sparse_operand, sparse_operand_with_one_nonzero,
    receiver_sparse_one_nonzero_dense_factor, receiver_sparse_empty, receiver_sparse_empty_all_modes_collapsed,
    collapse_custom_reducer_one_nonzero, tucker_receiver_weighted_kruskal_operand, weighted_kruskal_operand,
    sparse_mask_misplaces, sparse_mask_receiver_empty, sparse_mask_W_empty, bare_vector_narrow_dtype,
    sum_full_contraction_with_integer_part, sum_mttkrp_integer_first_part_then_float,
    unsigned_one_entry_receiver_negative_sparse_factor, both_operands_boolean, dense_boolean_through_tenmat,
    sparse_boolean_collapse_into_one_cell, sparse_uint8_collapse_sum_above_255, sparse_ttv_result_cells_overflow_int64,
    mode_numbers_uint64, ttt_mode_as_numpy_integer_scalar,
)}
