"""Predicates on C02 case dicts used by known_findings/C02.json.

Each predicate characterises the *class of inputs* on which one confirmed defect of pyttb shows, as narrowly as the
defect allows, so that the same clause failing on any other input is still reported as a VIOLATION."""

from __future__ import annotations


def _leaves(h, out):
    if isinstance(h, dict) and "holder" in h:
        if h["holder"] == "sumtensor":
            for p in h["parts"]:
                _leaves(p, out)
        else:
            out.append(h)
    return out


def holders(case, keys=("X", "Y")):
    """All non-sum holder dicts of a case (sumtensor parts flattened)."""
    out = []
    for k in keys:
        _leaves(case.get(k), out)
    return out


def sparse_nnz(h):
    """Number of stored nonzeros of the sparse object inside a holder (None if it has none)."""
    if h["holder"] == "sptensor":
        return len(h["subs"])
    if h["holder"] == "ttensor" and h.get("sparse_core"):
        return sum(1 for v in h["core"] if v != 0)
    return None


def _nonunit_ktensor_operand(case):
    u = case.get("U") or {}
    return u.get("kind") == "ktensor" and any(w != 1.0 for w in u["weights"])


# -- ktensor.ttv: a selected mode of size 1 (vector.squeeze() turns the length-1 multiplicand into a 0-d array) ------
def kruskal_ttv_selected_singleton(case):
    X = case["X"]
    has_kt = any(h["holder"] == "ktensor" for h in holders(case, ("X",)))
    return has_kt and any(X["shape"][m] == 1 for m in case["des"]["sel"])


# -- sptensor.ttm of a 1-way sparse tensor (also reached through ttensor kernels pushing work onto a sparse core) -----
def oneway_sparse_operand(case):
    hs = holders(case)
    return any(len(h["shape"]) == 1 and sparse_nnz(h) is not None for h in hs)


# -- gathers by a one-row subscript array come back as a Python scalar -------------------------------------------------
def sparse_operand_with_one_nonzero(case):
    return any(sparse_nnz(h) == 1 for h in holders(case))


def receiver_sparse_one_nonzero_dense_factor(case):
    X = case["X"]
    return X["holder"] == "sptensor" and len(X["subs"]) == 1 and case.get("fkind") == "tensor"


# -- kernels that index columns of the (1, 0)-shaped subs / vals of a sparse tensor without nonzeros -------------------
def receiver_sparse_empty(case):
    X = case["X"]
    return X["holder"] == "sptensor" and len(X["subs"]) == 0


def receiver_sparse_empty_all_modes_collapsed(case):
    return receiver_sparse_empty(case) and len(case["dims"]) == len(case["X"]["shape"])


def collapse_custom_reducer_one_nonzero(case):
    X = case["X"]
    return (X["holder"] == "sptensor" and len(X["subs"]) == 1 and case["reducer"] in ("sumsq-np",)
            and len(X["shape"]) - len(case["dims"]) >= 2)


# -- Kruskal operand of mttkrp / mttkrps: weights dropped ---------------------------------------------------------------
def tucker_receiver_weighted_kruskal_operand(case):
    return _nonunit_ktensor_operand(case) and any(h["holder"] == "ttensor" for h in holders(case, ("X",)))


def weighted_kruskal_operand(case):
    return _nonunit_ktensor_operand(case)


# -- sptensor.mask: model of the defect (values are written at the receiver's storage positions) ----------------------
def sparse_mask_misplaces(case):
    X = case["X"]
    if X["holder"] != "sptensor" or case["wkind"] != "sptensor":
        return False
    xs = [tuple(s) for s in X["subs"]]
    ws = [tuple(s) for s in case["wsubs"]]
    if not xs or not ws:
        return False
    pos = {s: i for i, s in enumerate(xs)}
    matched = [pos[w] for w in ws if w in pos]
    n = len(ws)
    if any(j >= n for j in matched):
        return True  # IndexError in the defective code
    buggy = [0.0] * n
    for j in matched:
        buggy[j] = X["vals"][j]
    correct = [X["vals"][pos[w]] if w in pos else 0.0 for w in ws]
    return buggy != correct


def sparse_mask_receiver_empty(case):
    return case["X"]["holder"] == "sptensor" and len(case["X"]["subs"]) == 0


def sparse_mask_W_empty(case):
    return case["wkind"] == "sptensor" and len(case["wsubs"]) == 0


PREDICATES = {f.__name__: f for f in (
    kruskal_ttv_selected_singleton, oneway_sparse_operand, sparse_operand_with_one_nonzero,
    receiver_sparse_one_nonzero_dense_factor, receiver_sparse_empty, receiver_sparse_empty_all_modes_collapsed,
    collapse_custom_reducer_one_nonzero, tucker_receiver_weighted_kruskal_operand, weighted_kruskal_operand,
    sparse_mask_misplaces, sparse_mask_receiver_empty, sparse_mask_W_empty,
)}
