"""C02 cells for the kernels that take a mode designation: ttv and ttm."""

from __future__ import annotations

import numpy as np
from scipy import sparse
from hypothesis import strategies as st

import pyttb as ttb

from .. import gen, ref
from ..core import cell
from . import _c02_common as cm

VEC_PATTERNS = cm.VEC_PATTERNS


def _junk(kind, shape, ncols=None):
    """Unused entry of a one-per-tensor-mode multiplicand list (it must never be looked at)."""

    def make(m):
        if kind == "empty":
            return np.array([])
        n = shape[m] + (1 if kind == "wrong" else 0)
        if ncols is None:
            return np.full((n,), 7.0)
        return np.full((n, ncols), 7.0)

    return make


# --------------------------------------------------------------------------
# ttv
# --------------------------------------------------------------------------

TTV_ALLOWED = {
    "tensor": ("tensor", "scalar"),
    "sptensor": ("sptensor", "tensor", "scalar"),
    "ktensor": ("ktensor", "scalar"),
    "ttensor": ("ttensor", "scalar"),
    "sumtensor": ("sumtensor", "scalar"),
}


def _ttv_strategy(kind):
    @st.composite
    def s(draw, tier):
        h = draw(cm.holder(tier, kind))
        shape = h["shape"]
        des = draw(cm.designation(len(shape)))
        vk = cm.other_vkind(draw, h["vkind"])
        vecs, vdt = [], []
        for m in des["sel"]:
            pat = draw(st.sampled_from(VEC_PATTERNS))
            v, dt = cm.operand_values(draw, shape[m], pat, vk, cm.has_small_dtype(h))
            vecs.append(v)
            vdt.append(dt)
        return dict(X=h, des=des, vecs=vecs, vdtypes=vdt, vvkind=vk,
                    junk=draw(st.sampled_from(["empty", "wrong", "right"])))

    return s


def ttv_body(ctx, case):
    h, des = case["X"], case["des"]
    kind = h["holder"]
    shape = h["shape"]
    N = len(shape)
    X = cm.build(h)
    A, Aabs = cm.den_case(h), cm.den_case(h, absolute=True)
    vecs = {m: np.array(v, dtype=float) for m, v in zip(des["sel"], case["vecs"])}
    vdt = case.get("vdtypes") or [None] * len(des["sel"])
    passed = {m: cm.cast(vecs[m], dt) for m, dt in zip(des["sel"], vdt)}
    arg, kw = cm.call_args(des, N, passed, _junk(case.get("junk", "empty"), shape))
    arg, kw = cm.present_call(case, arg, kw)  # (round 4) the same request as another caller would type it
    expect = cm.ref_ttv(A, vecs)
    bound = cm.ref_ttv(Aabs, {m: np.abs(v) for m, v in vecs.items()})
    nonconst = any(len(set(v.tolist())) > 1 for v in vecs.values())
    ctx.nt = cm.designation_nontrivial(des, shape) and nonconst and bool(np.any(expect != 0))
    ctx.label(*cm.holder_labels(h), *cm.designation_labels(des, N), cm.fill_label(expect),
              "sel-has-singleton" if any(shape[m] == 1 for m in des["sel"]) else "sel-no-singleton",
              *cm.object_labels(X), *sorted({"vector-dtype-" + (d or "float64") for d in vdt}),
              "vector-zero" if any(not np.any(v) for v in vecs.values()) else "vector-nonzero",
              "values-mixed-kinds" if case.get("vvkind", h["vkind"]) != h["vkind"] else "values-same-kind",
              *cm.pres_labels(case))
    pos, kw = cm.positional(case, kw, ("dims", "exclude_dims"))
    with ctx.sut(f"{kind}.ttv"):
        R = X.ttv(arg, *pos, **kw)
    ctx.label(cm.result_kind(R))
    got = cm.result_array(ctx, R, "ttv-result", allow=TTV_ALLOWED[kind])
    if len(des["sel"]) == N:
        ctx.check(isinstance(R, cm.SCALAR_TYPES), "ttv-all-modes-gives-scalar", type(R).__name__)
    else:
        ctx.check(not isinstance(R, cm.SCALAR_TYPES), "ttv-partial-gives-tensor", type(R).__name__)
    exact = cm.intvalued(h) and case.get("vvkind", "int") == "int"
    nterms = cm.terms(h) * ref.prod(shape[m] for m in des["sel"]) * (len(des["sel"]) + 1)
    cm.compare(ctx, got, expect, bound, cm.pres_nterms(case, nterms), cm.pres_exact(case, exact), "ttv-value",
               f"des={des}")


for _k, (_q, _t) in {"tensor": (1000, 10000), "sptensor": (1200, 12000), "ktensor": (800, 8000),
                     "ttensor": (800, 8000), "sumtensor": (600, 5000)}.items():
    cell(f"C02/ttv/{_k}", strategy=_ttv_strategy(_k), quick=_q, thorough=_t, shards=(2, 8))(ttv_body)


ENUM_HOLDERS = ("tensor", "sptensor", "sptensor-thin", "sptensor-one", "sptensor-empty", "ktensor", "ttensor-dense",
                "ttensor-sparse", "sumtensor")


def _enum_shapes(tier):
    shapes = [(3,), (2, 3), (3, 2, 4), (2, 1, 3)]
    if tier == "thorough":
        shapes += [(1, 3), (4, 3, 2), (2, 3, 2, 4), (3, 1, 2, 2)]
    return shapes


def _enum_ttv(tier):
    for sh in _enum_shapes(tier):
        N = len(sh)
        for hk in ENUM_HOLDERS:
            h0 = cm.fixed_holder(hk, sh, salt=len(sh))
            for i, des in enumerate(cm.all_designations(N)):
                vecs = [cm.fixed_vector(sh[m], m + 1) for m in des["sel"]]
                # the holder cycles through the derived states / integer dtypes, the vectors through dtypes
                yield dict(X=cm.fixed_state(h0, i), des=des, vecs=vecs, junk=("empty", "wrong", "right")[i % 3],
                           vdtypes=[(None, "int64", None, "int32")[(i + j) % 4] for j in range(len(vecs))])


@cell("C02/ttv/enumerated", enum=_enum_ttv, shards=(8, 16))
def ttv_enumerated(ctx, case):
    """every designation of every non-empty mode subset (all listed orders, both list lengths, both conventions)
    on fixed non-cubical shapes, for every holder class"""
    ttv_body(ctx, case)


# --------------------------------------------------------------------------
# ttm
# --------------------------------------------------------------------------

TTM_ALLOWED = {"tensor": ("tensor",), "sptensor": ("sptensor", "tensor"), "ttensor": ("ttensor",)}


def _ttm_strategy(kind):
    @st.composite
    def s(draw, tier):
        h = draw(cm.holder(tier, kind))
        shape = h["shape"]
        des = draw(cm.designation(len(shape)))
        vk = cm.other_vkind(draw, h["vkind"])
        transpose = draw(st.booleans())
        mats, mdt = [], []
        for m in des["sel"]:
            J = draw(st.integers(1, 3))
            pat = draw(st.sampled_from(VEC_PATTERNS))
            flat, dt = cm.operand_values(draw, J * shape[m], pat, vk, cm.has_small_dtype(h))
            if J >= 2 and draw(st.integers(0, 5)) == 0:
                r0 = draw(st.integers(0, J - 1))  # a zero row of the (J, I_m) matrix: a zero slice of the product
                flat[r0 * shape[m]:(r0 + 1) * shape[m]] = [0.0] * shape[m]
            mdt.append(dt)
            # stored as the (J, I_m) matrix of the definition, row-major nested list
            mats.append([flat[r * shape[m]:(r + 1) * shape[m]] for r in range(J)])
        # scipy sparse matrices are accepted by the dense and sparse kernels; for a sparse tensor they are the
        # only way to a sparse product (and so to the 50 % switch of sptensor.ttm)
        mkind = "ndarray"
        if kind in ("tensor", "sptensor"):
            mkind = draw(st.sampled_from(["ndarray", "ndarray", "coo", "csr"] if kind == "sptensor" else
                                         ["ndarray", "ndarray", "ndarray", "coo"]))
        return dict(X=h, des=des, mats=mats, transpose=transpose, mkind=mkind, mdtypes=mdt, mvkind=vk,
                    junk=draw(st.sampled_from(["empty", "wrong", "right"])))

    return s


def ttm_body(ctx, case):
    h, des = case["X"], case["des"]
    kind = h["holder"]
    shape = h["shape"]
    N = len(shape)
    transpose = bool(case["transpose"])
    X = cm.build(h)
    A, Aabs = cm.den_case(h), cm.den_case(h, absolute=True)
    mats = {m: np.array(M, dtype=float).reshape(len(M), shape[m]) for m, M in zip(des["sel"], case["mats"])}
    # what is handed to pyttb: the matrix itself, or its transpose together with transpose=True
    mdt = dict(zip(des["sel"], case.get("mdtypes") or [None] * len(des["sel"])))
    passed = {m: cm.cast(np.ascontiguousarray(M.T) if transpose else M, mdt[m]) for m, M in mats.items()}
    mkind = case.get("mkind", "ndarray")
    if mkind == "coo":
        passed = {m: sparse.coo_matrix(M) for m, M in passed.items()}
    elif mkind == "csr":
        passed = {m: sparse.csr_matrix(M) for m, M in passed.items()}
    junk = _junk(case.get("junk", "empty"), shape, ncols=2)
    arg, kw = cm.call_args(des, N, passed, junk)
    arg, kw = cm.present_call(case, arg, kw)
    expect = cm.ref_ttm(A, mats)
    bound = cm.ref_ttm(Aabs, {m: np.abs(M) for m, M in mats.items()})
    nonconst = any(len(set(M.ravel().tolist())) > 1 for M in mats.values())
    nonsquare = any(M.shape[0] != M.shape[1] for M in mats.values())
    ctx.nt = cm.designation_nontrivial(des, shape) and nonconst and nonsquare and bool(np.any(expect != 0))
    ctx.label(*cm.holder_labels(h), *cm.designation_labels(des, N), cm.fill_label(expect),
              "transpose" if transpose else "plain", "nonsquare" if nonsquare else "square", "matrix-" + mkind,
              *cm.object_labels(X), *sorted({"matrix-dtype-" + (d or "float64") for d in mdt.values()}),
              "matrix-has-zero-row" if any((~M.any(axis=1)).any() for M in mats.values()) else "matrix-no-zero-row",
              "values-mixed-kinds" if case.get("mvkind", h["vkind"]) != h["vkind"] else "values-same-kind",
              *cm.pres_labels(case))
    pos, kw = cm.positional(case, dict(kw, transpose=transpose), ("dims", "exclude_dims", "transpose"))
    with ctx.sut(f"{kind}.ttm"):
        R = X.ttm(arg, *pos, **kw)
    ctx.label(cm.result_kind(R))
    got = cm.result_array(ctx, R, "ttm-result", allow=TTM_ALLOWED[kind])
    exact = cm.intvalued(h) and case.get("mvkind", "int") == "int"
    nterms = cm.terms(h) * ref.prod(shape[m] for m in des["sel"]) * (len(des["sel"]) + 1)
    cm.compare(ctx, got, expect, bound, cm.pres_nterms(case, nterms), cm.pres_exact(case, exact), "ttm-value",
               f"des={des} transpose={transpose}")


for _k, (_q, _t) in {"tensor": (1000, 10000), "sptensor": (1000, 10000), "ttensor": (800, 8000)}.items():
    cell(f"C02/ttm/{_k}", strategy=_ttm_strategy(_k), quick=_q, thorough=_t, shards=(2, 8))(ttm_body)


def _enum_ttm(tier):
    for sh in _enum_shapes(tier):
        N = len(sh)
        for hk in ("tensor", "sptensor", "sptensor-thin", "sptensor-one", "sptensor-empty", "ttensor-dense",
                   "ttensor-sparse"):
            h0 = cm.fixed_holder(hk, sh, salt=len(sh) + 1)
            for i, des in enumerate(cm.all_designations(N)):
                for transpose in (False, True):
                    mats = [cm.fixed_matrix(1 + (m + i) % 3, sh[m], m + 2) for m in des["sel"]]
                    yield dict(X=cm.fixed_state(h0, i + transpose), des=des, mats=mats, transpose=transpose,
                               junk=("empty", "wrong", "right")[i % 3],
                               mkind="coo" if hk.startswith("sptensor") and i % 2 else "ndarray",
                               mdtypes=[(None, "int64", None, "int32")[(i + j) % 4] for j in range(len(mats))])


@cell("C02/ttm/enumerated", enum=_enum_ttm, shards=(8, 16))
def ttm_enumerated(ctx, case):
    """every designation x transpose flag on fixed non-cubical shapes, non-square matrices"""
    ttm_body(ctx, case)
