"""C05 cells for pyttb.sptensor."""

from __future__ import annotations

import numpy as np
from hypothesis import strategies as st

import pyttb as ttb

from .. import gen, ref
from . import _c05_reg as R
from . import _c05_tensor as CT
from ._c05_reg import op

S = R.CS.build_sptensor


@st.composite
def sparse(draw, tier, min_nnz=0, **kw):
    """gen.sparse_case; with ``min_nnz`` the case is topped up (first free cells in F order, value 1) so that
    operations that are known to raise on empty / single-entry operands (C02/C03 findings) are rarely starved."""
    kw.setdefault("max_cells", 36 if tier == "quick" else 120)
    kw.setdefault("patterns", ("none", "one", "some", "some", "all", "all"))
    c = draw(gen.sparse_case(tier, **kw))
    if min_nnz and len(c["subs"]) < min_nnz and draw(st.integers(0, 9)):
        have = {tuple(s) for s in c["subs"]}
        for s in ref.all_subs_F(c["shape"]):
            if len(c["subs"]) >= min_nnz:
                break
            if tuple(s) not in have:
                c["subs"].append(list(s))
                c["vals"].append(1.0)
        c["pattern"] = "topped-up"
    return c


def sp_labels(ctx, c):
    ctx.label("pattern-" + c.get("pattern", "?"))


# --------------------------------------------------------------------------
# construction
# --------------------------------------------------------------------------


@st.composite
def g_ctor(draw, tier):
    c = draw(sparse(tier, min_order=1))
    c["shape_arg"] = draw(st.sampled_from(["tuple", "array", "none"]))
    c["copy_kw"] = draw(st.booleans())
    c["vals_dtype"] = draw(st.sampled_from(["float", "float", "int", "bool"]))
    c["_present"] = R.d_present(draw, values=["vals"], indices=["subs", "shape"])
    return c


@op("sptensor/ctor-copy", g_ctor)
def _(ctx, c):
    sp_labels(ctx, c)
    n = len(c["shape"])
    subs = np.array(c["subs"], dtype=int).reshape(len(c["subs"]), n)
    vals = np.array(c["vals"], dtype=float).reshape(-1, 1)
    if c["vals_dtype"] == "int":
        vals = np.round(vals).astype(int)
    elif c["vals_dtype"] == "bool":
        vals = vals != 0
    subs, vals = R.presented(ctx, c, "subs", subs), R.presented(ctx, c, "vals", vals)
    ops = {"subs": subs, "vals": vals}
    shape = tuple(c["shape"])
    if c["shape_arg"] == "array":
        shape = R.presented(ctx, c, "shape", np.array(c["shape"]))
        ops["shape"] = shape
    elif c["shape_arg"] == "none" and len(c["subs"]):
        shape = None
    kw = {"copy": True} if c["copy_kw"] else {}
    return ops, lambda: ttb.sptensor(subs, vals, shape, **kw)


@st.composite
def g_aggr(draw, tier):
    c = draw(sparse(tier, min_order=1, patterns=("one", "some", "all")))
    k = len(c["subs"])
    dup = draw(st.lists(st.integers(0, max(0, k - 1)), min_size=0, max_size=3)) if k else []
    c["subs"] = c["subs"] + [list(c["subs"][i]) for i in dup]
    c["vals"] = c["vals"] + R.d_vals(draw, len(dup), c["vkind"])
    c["fn"] = draw(st.sampled_from(["sum", "max", "default"]))
    c["shape_arg"] = draw(st.sampled_from(["tuple", "array", "none"]))
    return c


@op("sptensor/from_aggregator", g_aggr)
def _(ctx, c):
    n = len(c["shape"])
    subs = np.array(c["subs"], dtype=int).reshape(len(c["subs"]), n)
    vals = np.array(c["vals"], dtype=float).reshape(-1, 1)
    ops = {"subs": subs, "vals": vals}
    shape = tuple(c["shape"])
    if c["shape_arg"] == "array":
        shape = np.array(c["shape"])
        ops["shape"] = shape
    elif c["shape_arg"] == "none":
        shape = None
    ctx.label("fn-" + c["fn"])
    if c["fn"] == "default":
        return ops, lambda: ttb.sptensor.from_aggregator(subs, vals, shape)
    fn = "sum" if c["fn"] == "sum" else np.max
    return ops, lambda: ttb.sptensor.from_aggregator(subs, vals, shape, fn)


_UNARY = {
    "copy": lambda X: X.copy(),
    "deepcopy": lambda X: R.deepcopy(X),
    "allsubs": lambda X: X.allsubs(),
    "double": lambda X: X.double(),
    "full": lambda X: X.full(),
    "to_tensor": lambda X: X.to_tensor(),
    "find": lambda X: X.find(),
    "ones": lambda X: X.ones(),
    "squeeze": lambda X: X.squeeze(),
    "logical_not": lambda X: X.logical_not(),
    "pos": lambda X: +X,
    "neg": lambda X: -X,
    "norm": lambda X: X.norm(),
    "scalar-props": lambda X: (X.nnz, X.ndims, X.shape, X.order),
    "repr": lambda X: (repr(X), str(X)),
    "squash": lambda X: X.squash(),
    "squash-inverse": lambda X: X.squash(True),
}


def _reg_unary(name, f):
    pats = ("one", "some", "all") if name.startswith("squash") else ("none", "one", "some", "all")

    @op("sptensor/" + name, lambda tier: sparse(tier, min_order=1, patterns=pats, min_nnz=1 if name.startswith("squash") else 0))
    def _(ctx, c, f=f):
        X = S(c)
        sp_labels(ctx, c)
        ctx.label(*gen.shape_classes(c["shape"]))
        return {"self": X}, lambda: f(X)


for _n, _f in _UNARY.items():
    _reg_unary(_n, _f)


@op("sptensor/spmatrix", lambda tier: sparse(tier, min_order=2, max_order=2))
def _(ctx, c):
    X = S(c)
    sp_labels(ctx, c)
    return {"self": X}, lambda: X.spmatrix()


# --------------------------------------------------------------------------
# collapse / contract / elemfun / extract / mask
# --------------------------------------------------------------------------


@st.composite
def g_collapse(draw, tier):
    c = draw(sparse(tier, min_order=1, min_nnz=2, patterns=("one", "some", "all", "all")))
    n = len(c["shape"])
    c["dims"] = draw(st.one_of(st.none(), gen.mode_subset(n, 1, n)))
    c["form"] = draw(st.sampled_from(["array", "list"] + (["int"] if c["dims"] and len(c["dims"]) == 1 else [])))
    c["fun"] = draw(st.sampled_from(["sum", "npsum", "max"]))
    return c


@op("sptensor/collapse", g_collapse)
def _(ctx, c):
    X = S(c)
    sp_labels(ctx, c)
    ops = {"self": X}
    fun = {"sum": sum, "npsum": np.sum, "max": np.max}[c["fun"]]
    if c["dims"] is None:
        ctx.label("dims-none")
        return ops, (lambda: X.collapse()) if c["fun"] == "sum" else (lambda: X.collapse(function_handle=fun))
    rem = len(c["shape"]) - len(c["dims"])
    ctx.label("rem-0" if rem == 0 else ("rem-1" if rem == 1 else "rem-many"))
    d = R.as_form(c["dims"], c["form"])
    ops["dims"] = d
    return ops, lambda: X.collapse(d, fun)


@st.composite
def g_contract(draw, tier):
    shape = draw(gen.shapes(tier, min_order=2, max_cells=36))
    n = len(shape)
    i, j = sorted(draw(gen.mode_subset(n, 2, 2)))
    shape[j] = shape[i]
    c = R.d_sparse_like(draw, shape, draw(st.sampled_from(["int", "float"])), patterns=("one", "some", "all"))
    if draw(st.booleans()):
        i, j = j, i
    c["i"], c["j"] = i, j
    return c


@op("sptensor/contract", g_contract)
def _(ctx, c):
    X = S(c)
    sp_labels(ctx, c)
    ctx.label(f"order{len(c['shape'])}")
    return {"self": X}, lambda: X.contract(c["i"], c["j"])


_ELEM = {
    "plus1": lambda v: v + 1,
    "identity": lambda v: v,
    "abs": lambda v: np.abs(v),
    "sqrtabs": lambda v: np.sqrt(np.abs(v)),
}


@st.composite
def g_elemfun(draw, tier):
    c = draw(sparse(tier, min_order=1, patterns=("one", "some", "all")))
    c["f"] = draw(st.sampled_from(sorted(_ELEM)))
    return c


@op("sptensor/elemfun", g_elemfun)
def _(ctx, c):
    X = S(c)
    ctx.label("f-" + c["f"])
    f = _ELEM[c["f"]]
    return {"self": X}, lambda: X.elemfun(f)


@st.composite
def g_extract(draw, tier):
    c = draw(sparse(tier, min_order=1))
    total = ref.prod(c["shape"])
    k = draw(st.integers(1, min(4, total)))
    rows = draw(st.lists(st.tuples(*[st.integers(0, s - 1) for s in c["shape"]]), min_size=k, max_size=k))
    c["search"] = [list(r) for r in rows]
    c["one_d"] = k == 1 and draw(st.booleans())
    return c


@op("sptensor/extract", g_extract)
def _(ctx, c):
    X = S(c)
    sp_labels(ctx, c)
    q = np.array(c["search"], dtype=int).reshape(len(c["search"]), len(c["shape"]))
    if c["one_d"]:
        q = q[0].copy()
    ctx.label("search-1d" if c["one_d"] else "search-2d")
    return {"self": X, "searchsubs": q}, lambda: X.extract(q)


@st.composite
def g_mask(draw, tier):
    c = draw(sparse(tier, min_order=1, min_nnz=2, patterns=("one", "some", "all", "all")))
    c["w"] = R.d_sparse_like(draw, c["shape"], "int")
    return c


@op("sptensor/mask", g_mask)
def _(ctx, c):
    X = S(c)
    w = dict(c["w"])
    w["vals"] = [1.0] * len(w["vals"])
    W = S(w)
    sp_labels(ctx, c)
    return {"self": X, "W": W}, lambda: X.mask(W)


# --------------------------------------------------------------------------
# products
# --------------------------------------------------------------------------


@st.composite
def g_mttkrp(draw, tier):
    c = draw(sparse(tier, min_order=2))
    r = draw(st.integers(1, 3))
    c["r"] = r
    c["n"] = draw(st.integers(0, len(c["shape"]) - 1))
    c["ukind"] = draw(st.sampled_from(["list", "ktensor", "ktensor-weights"]))
    c["U"] = R.d_mats(draw, c["shape"], [r] * len(c["shape"]), c["vkind"])
    c["w"] = R.d_vals(draw, r, c["vkind"])
    c["n_np"] = draw(st.booleans())
    return c


@op("sptensor/mttkrp", g_mttkrp)
def _(ctx, c):
    X = S(c)
    U = CT.build_U(c)
    n = np.int64(c["n"]) if c["n_np"] else c["n"]
    sp_labels(ctx, c)
    ctx.label("U-" + c["ukind"])
    return {"self": X, "U": U}, lambda: X.mttkrp(U, n)


@st.composite
def g_nvecs(draw, tier):
    c = draw(sparse(tier, min_order=2, min_size=2, patterns=("some", "all")))
    n = draw(st.integers(0, len(c["shape"]) - 1))
    c["n"] = n
    c["r"] = draw(st.integers(1, c["shape"][n]))
    c["flipsign"] = draw(st.booleans())
    c["np_seed"] = draw(R.SEED)
    return c


@op("sptensor/nvecs", g_nvecs, quick=30)
def _(ctx, c):
    X = S(c)
    ctx.label("eigs" if c["r"] < c["shape"][c["n"]] - 1 else "eig")
    return {"self": X}, lambda: X.nvecs(c["n"], c["r"], flipsign=c["flipsign"])


@st.composite
def g_ttm(draw, tier):
    c = draw(sparse(tier, min_order=2))
    c.update({k: v for k, v in draw(_ttm_params(c["shape"], c["vkind"])).items()})
    return c


@st.composite
def _ttm_params(draw, shape, vkind):
    n = len(shape)
    p = {}
    p["transpose"] = draw(st.booleans())
    p["single"] = draw(st.booleans())
    if p["single"]:
        p["d"] = dict(how="dims", dims=[draw(st.integers(0, n - 1))], form=draw(st.sampled_from(["int", "array"])))
    else:
        p["d"] = R.d_dims(draw, n, allow_none=True)
    p["full"] = draw(st.booleans())
    newsz = [draw(st.integers(1, 3)) for _ in range(n)]
    p["newsz"] = newsz
    rows, cols = list(newsz), list(shape)
    if p["transpose"]:
        rows, cols = cols, rows
    p["mats"] = R.d_mats(draw, rows, cols, vkind)
    p["identity"] = draw(st.integers(0, 3)) == 0
    return p


@op("sptensor/ttm", g_ttm, quick=60)
def _(ctx, c):
    X = S(c)
    sp_labels(ctx, c)
    ops, M, kw = CT.ttm_args(ctx, c, c["shape"])
    ops["self"] = X
    return ops, lambda: X.ttm(M, **kw)


@st.composite
def g_ttv(draw, tier):
    c = draw(sparse(tier, min_order=1))
    n = len(c["shape"])
    c["single"] = draw(st.booleans())
    if c["single"]:
        c["d"] = dict(how="dims", dims=[draw(st.integers(0, n - 1))], form=draw(st.sampled_from(["int", "array"])))
    else:
        c["d"] = R.d_dims(draw, n, allow_none=True)
    c["full"] = draw(st.booleans())
    c["vecs"] = R.d_vecs(draw, c["shape"], c["vkind"])
    return c


@op("sptensor/ttv", g_ttv, quick=60)
def _(ctx, c):
    X = S(c)
    sp_labels(ctx, c)
    ops, V, kw = CT.ttv_args(ctx, c, c["shape"])
    ops["self"] = X
    return ops, lambda: X.ttv(V, **kw)


# --------------------------------------------------------------------------
# permute / reshape / scale / subdims / to_sptenmat
# --------------------------------------------------------------------------


@st.composite
def g_permute(draw, tier):
    c = draw(sparse(tier, min_order=1))
    n = len(c["shape"])
    c["perm"] = list(range(n)) if draw(st.integers(0, 2)) == 0 else list(draw(st.permutations(range(n))))
    c["form"] = draw(st.sampled_from(["array", "array", "list", "tuple"]))
    return c


@op("sptensor/permute", g_permute, quick=60)
def _(ctx, c):
    X = S(c)
    sp_labels(ctx, c)
    CT.perm_labels(ctx, c)
    o = R.as_form(c["perm"], c["form"])
    return {"self": X, "order": o}, lambda: X.permute(o)


@st.composite
def g_reshape(draw, tier):
    c = draw(sparse(tier, min_order=1))
    n = len(c["shape"])
    if draw(st.booleans()):
        c["old_modes"] = None
        c["new"] = list(c["shape"]) if draw(st.integers(0, 2)) == 0 else R.target_shape(draw, ref.prod(c["shape"]))
    else:
        om = draw(gen.mode_subset(n, 1, n))
        c["old_modes"] = om
        sel = [c["shape"][m] for m in om]
        c["new"] = sel if draw(st.integers(0, 2)) == 0 else R.target_shape(draw, ref.prod(sel), max_parts=3)
    c["form"] = draw(st.sampled_from(["tuple", "array"]))
    return c


@op("sptensor/reshape", g_reshape, quick=60)
def _(ctx, c):
    X = S(c)
    sp_labels(ctx, c)
    s = R.as_form(c["new"], c["form"])
    ops = {"self": X, "new_shape": s}
    if c["old_modes"] is None:
        ctx.label("all-modes", "same-shape" if list(c["new"]) == list(c["shape"]) else "other-shape")
        return ops, lambda: X.reshape(s)
    om = np.array(c["old_modes"], dtype=int)
    ops["old_modes"] = om
    ctx.label("old-modes")
    return ops, lambda: X.reshape(s, om)


@st.composite
def g_scale(draw, tier):
    c = draw(sparse(tier, min_order=1, min_nnz=2, patterns=("some", "all", "all")))
    n = len(c["shape"])
    c["fkind"] = draw(st.sampled_from(["ndarray", "tensor", "sptensor"]))
    dims = [draw(st.integers(0, n - 1))] if c["fkind"] == "ndarray" else sorted(draw(gen.mode_subset(n, 1, n)))
    c["dims"] = dims
    c["form"] = draw(st.sampled_from(["array", "list"] + (["int"] if len(dims) == 1 else [])))
    fshape = [c["shape"][d] for d in dims]
    if c["fkind"] == "sptensor":
        c["factor"] = R.d_sparse_like(draw, fshape, c["vkind"], patterns=("some", "all"))
    else:
        c["factor"] = R.d_vals(draw, ref.prod(fshape), c["vkind"])
    return c


@op("sptensor/scale", g_scale)
def _(ctx, c):
    X = S(c)
    sp_labels(ctx, c)
    fshape = [c["shape"][d] for d in c["dims"]]
    if c["fkind"] == "sptensor":
        factor = S(c["factor"])
    else:
        F = R.CS.aux(c, gen.arr_F(fshape, c["factor"]).copy(order="F"))
        factor = F if c["fkind"] == "ndarray" else ttb.tensor(F.toarray() if hasattr(F, "toarray") else F, tuple(fshape))
    ctx.label("factor-" + c["fkind"])
    d = R.as_form(c["dims"], c["form"])
    return {"self": X, "factor": factor, "dims": d}, lambda: X.scale(factor, d)


def region_key(draw, shape, allow_neg=False, lists=True, degenerate=True):
    ents = []
    for s in shape:
        t = draw(st.sampled_from(["int", "slice", "full", "full"] + (["list", "arr"] if lists else []) +
                                 (["empty", "step"] if degenerate else [])))
        if t == "empty":
            # (round 3, class 10) an empty range in this mode: a read returns nothing, a write is a no-op
            a = draw(st.integers(0, s))
            ents.append(dict(t="slice", v=draw(st.sampled_from([[None, 0, None], [a, a, None], [0, 0, None], [s, None, None]]))))
        elif t == "step":
            ents.append(dict(t="slice", v=draw(st.sampled_from([[None, None, 2], [None, None, -1], [1, None, 2]]))))
        elif t == "int":
            ents.append(dict(t="int", v=draw(st.integers(-s if allow_neg else 0, s - 1))))
        elif t == "full":
            ents.append(dict(t="slice", v=[None, None, None]))
        elif t == "slice":
            a = draw(st.integers(0, s - 1))
            b = draw(st.integers(a + 1, s))
            ents.append(dict(t="slice", v=[a, b, None]))
        else:
            k = draw(st.integers(1, min(s, 3)))
            v = sorted(draw(st.lists(st.integers(0, s - 1), min_size=k, max_size=k, unique=True)))
            ents.append(dict(t=t, v=v))
    return dict(kind="region", v=ents)


@st.composite
def g_subdims(draw, tier):
    c = draw(sparse(tier, min_order=1))
    c["key"] = region_key(draw, c["shape"])
    c["as_list"] = draw(st.booleans())
    return c


@op("sptensor/subdims", g_subdims)
def _(ctx, c):
    X = S(c)
    sp_labels(ctx, c)
    key, _ = CT.build_key(c["key"])
    region = list(key) if c["as_list"] else key
    return {"self": X, "region": region}, lambda: X.subdims(region)


@st.composite
def g_to_sptenmat(draw, tier):
    c = draw(sparse(tier, min_order=1))
    c["p"] = draw(CT.g_partition(len(c["shape"])))
    return c


@op("sptensor/to_sptenmat", g_to_sptenmat, quick=60)
def _(ctx, c):
    X = S(c)
    sp_labels(ctx, c)
    ops = {"self": X}
    kw = CT.partition_args(c["p"], ops)
    ctx.label("partition-" + c["p"]["mode"])
    return ops, lambda: X.to_sptenmat(**kw)


# --------------------------------------------------------------------------
# binary operations
# --------------------------------------------------------------------------


def g_with_other(kinds, same_object=True, patterns=("none", "one", "some", "all"), min_nnz=0):
    @st.composite
    def g(draw, tier):
        c = draw(sparse(tier, min_order=1, max_order=3, patterns=patterns, min_nnz=min_nnz))
        ks = list(kinds) + (["same-object"] if same_object else [])
        c["okind"] = draw(st.sampled_from(ks))
        if c["okind"] == "scalar":
            c["other"] = draw(st.sampled_from([0, 1, 2, -1.5, 0.0]))
        elif c["okind"] != "same-object":
            c["other"] = R.d_other(draw, c["okind"], c["shape"], c["vkind"])
        return c

    return g


def _reg_binary(name, f, kinds, quick=40, same_object=True, patterns=("none", "one", "some", "all")):
    min_nnz = 2 if "none" not in patterns or name == "innerprod" else 0

    @op("sptensor/" + name, g_with_other(kinds, same_object=same_object, patterns=patterns, min_nnz=min_nnz), quick=quick)
    def _(ctx, c, f=f):
        X = S(c)
        sp_labels(ctx, c)
        Y = CT.with_other(ctx, c, X)
        return {"self": X, "other": Y}, lambda: f(X, Y)


_reg_binary("innerprod", lambda X, Y: X.innerprod(Y), ["tensor", "sptensor", "ktensor", "ttensor"])
_reg_binary("isequal", lambda X, Y: X.isequal(Y), ["tensor", "sptensor"])
_reg_binary("logical_and", lambda X, Y: X.logical_and(Y), ["tensor", "sptensor", "scalar"], patterns=("some", "all", "all"))
_reg_binary("logical_or", lambda X, Y: X.logical_or(Y), ["tensor", "sptensor", "scalar"])
_reg_binary("logical_xor", lambda X, Y: X.logical_xor(Y), ["tensor", "sptensor", "scalar"])
_reg_binary("add", lambda X, Y: X + Y, ["tensor", "sptensor", "scalar", "sumtensor"], quick=60)
_reg_binary("sub", lambda X, Y: X - Y, ["tensor", "sptensor", "scalar"])
_reg_binary("mul", lambda X, Y: X * Y, ["tensor", "sptensor", "scalar", "ktensor"], quick=60, patterns=("some", "all", "all"))
_reg_binary("rmul", lambda X, Y: Y * X, ["scalar"], same_object=False)
_reg_binary("truediv", lambda X, Y: X / Y, ["tensor", "sptensor", "scalar", "ktensor"], quick=60, patterns=("some", "all", "all"))
_reg_binary("rtruediv", lambda X, Y: Y / X, ["scalar"], same_object=False)
_reg_binary("eq", lambda X, Y: X == Y, ["tensor", "sptensor", "scalar"], patterns=("some", "all", "all"))
_reg_binary("ne", lambda X, Y: X != Y, ["tensor", "sptensor", "scalar"])
_reg_binary("ge", lambda X, Y: X >= Y, ["tensor", "sptensor", "scalar"])
_reg_binary("gt", lambda X, Y: X > Y, ["tensor", "sptensor", "scalar"])
_reg_binary("le", lambda X, Y: X <= Y, ["tensor", "sptensor", "scalar"])
_reg_binary("lt", lambda X, Y: X < Y, ["tensor", "sptensor", "scalar"])


# --------------------------------------------------------------------------
# indexing
# --------------------------------------------------------------------------


@st.composite
def g_getitem(draw, tier):
    c = draw(sparse(tier, min_order=1))
    shape = c["shape"]
    total = ref.prod(shape)
    kind = draw(st.sampled_from(["lin-int", "lin-slice", "lin-arr", "lin-list", "subs", "region", "region", "empty"]))
    if kind == "empty":
        e = draw(st.sampled_from(["lin-arr", "subs"]))
        c["key"] = dict(kind="subs", v=[], n=len(shape)) if e == "subs" else dict(kind=e, v=[], has_negative=False)
    elif kind == "region":
        c["key"] = region_key(draw, shape, allow_neg=True)
    elif kind == "lin-int":
        c["key"] = dict(kind=kind, v=draw(st.integers(-total, total - 1)))
    elif kind == "lin-slice":
        a = draw(st.one_of(st.none(), st.integers(0, total - 1)))
        b = draw(st.one_of(st.none(), st.integers(1, total)))
        c["key"] = dict(kind=kind, v=[a, b, None])
    elif kind in ("lin-arr", "lin-list"):
        k = draw(st.integers(1, min(4, total)))
        v = draw(st.lists(st.integers(-total, total - 1), min_size=k, max_size=k))
        c["key"] = dict(kind=kind, v=v, has_negative=any(x < 0 for x in v))
    else:
        k = draw(st.integers(1, min(4, total)))
        rows = draw(st.lists(st.tuples(*[st.integers(0, s - 1) for s in shape]), min_size=k, max_size=k))
        c["key"] = dict(kind=kind, v=[list(r) for r in rows])
    return c


@op("sptensor/getitem", g_getitem, quick=120, thorough=2500)
def _(ctx, c):
    X = S(c)
    sp_labels(ctx, c)
    key, lab = CT.build_key(c["key"])
    ctx.label("key-" + lab)
    return {"self": X, "key": key}, lambda: X[key]


@st.composite
def g_setitem(draw, tier):
    c = draw(sparse(tier, min_order=1, max_order=3, patterns=("none", "none", "one", "some", "all")))
    shape = c["shape"]
    n = len(shape)
    kind = draw(st.sampled_from(["subs", "subs", "region-scalar", "region-sptensor", "region-sptensor"] +
                                (["lin"] if n == 1 else [])))
    c["skind"] = kind
    if kind == "subs" and draw(st.integers(0, 7)) == 0:
        c["key"] = dict(kind="subs", v=[], n=n)  # (round 3, class 10) no subscripts: a no-op
        c["vform"] = "scalar"
        c["value"] = draw(st.sampled_from([0.0, 3.0]))
    elif kind == "subs":
        k = draw(st.integers(1, 4))
        grow = draw(st.integers(0, 4)) == 0
        rows = draw(st.lists(st.tuples(*[st.integers(0, s - 1 + (1 if grow else 0)) for s in shape]),
                             min_size=k, max_size=k, unique=True))
        c["key"] = dict(kind="subs", v=[list(r) for r in rows])
        c["vform"] = draw(st.sampled_from(["scalar", "column"]))
        c["value"] = draw(st.sampled_from([0.0, 3.0, -2.5])) if c["vform"] == "scalar" else R.d_vals(draw, k, c["vkind"])
    elif kind == "lin":
        c["key"] = dict(kind="lin-int", v=draw(st.integers(0, shape[0] - 1))) if draw(st.booleans()) else \
            dict(kind="lin-slice", v=[0, draw(st.integers(1, shape[0])), None])
        c["vform"] = "scalar"
        c["value"] = draw(st.sampled_from([0.0, 3.0]))
    elif kind == "region-scalar":
        c["key"] = region_key(draw, shape, allow_neg=False)
        c["vform"] = "scalar"
        c["value"] = draw(st.sampled_from([0, 0.0, 3.0, -2.5, 4]))
    else:
        whole = draw(st.booleans())
        if whole:
            key = dict(kind="region", v=[dict(t="slice", v=[None, None, None]) for _ in shape])
        else:
            key = region_key(draw, shape, allow_neg=False, lists=False, degenerate=False)
        c["key"] = key
        vshape = []
        for e, s in zip(key["v"], shape):
            if e["t"] == "slice":
                a, b, _ = e["v"]
                vshape.append((b if b is not None else s) - (a or 0))
        c["vform"] = "sptensor"
        c["value"] = R.d_sparse_like(draw, vshape, c["vkind"], patterns=("one", "some", "all")) if vshape else None
    return c


def _region_covers_all_stored(c):
    """S[region] = V with V an sptensor, and every stored entry of S lies inside the region (or S stores none):
    then nothing of S survives next to the inserted entries."""
    if c.get("skind") != "region-sptensor" or c.get("value") is None or not c["value"]["subs"]:
        return False
    ents = c["key"]["v"]
    for sub in c["subs"]:
        for s, e in zip(sub, ents):
            if e["t"] == "int":
                if s != e["v"]:
                    return False
            else:
                a, b, _ = e["v"]
                if not ((a or 0) <= s and (b is None or s < b)):
                    return False
    return True


R.pred("setitem_region_covers_all_stored")(_region_covers_all_stored)


@op("sptensor/setitem", g_setitem, quick=160, thorough=3000, inplace="self")
def _(ctx, c):
    X = S(c)
    sp_labels(ctx, c)
    key, lab = CT.build_key(c["key"])
    ctx.label("set-" + c["skind"], "value-" + c["vform"], "key-" + lab)
    if c["vform"] == "scalar":
        v = c["value"]
    elif c["vform"] == "column":
        v = R.CS.aux_present(c, np.array(c["value"], dtype=float).reshape(-1, 1))
    else:
        if c["value"] is None:
            return None
        v = S(c["value"])
    return {"self": X, "key": key, "value": v}, lambda: X.__setitem__(key, v)
