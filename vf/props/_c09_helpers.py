"""Helpers shared by the decomposition checks C09, C10 and C18 (problem construction, snapshots, NumPy reference kernels).

Nothing in here calls the algorithm under test.  pyttb is used only to *hold* the data
(constructors of tensor / sptensor / ttensor / sumtensor / ktensor); every number the oracles
need is computed with NumPy on ``ref.den`` of those holders.

Bulk numeric content (factor entries, noise, masks) is expanded with ``np.random.default_rng(seed)``
from integer seeds that Hypothesis draws: the case stays a handful of integers (replayable, shrinkable in
its structural parameters) and the problems stay well conditioned by construction, which arbitrary
Hypothesis floats (zeros, repeated values -> collinear columns) would not be.
"""

from __future__ import annotations

import contextlib
import io
import re
from typing import Any, Dict, List, Optional, Sequence, Tuple

import numpy as np

import pyttb as ttb

from .. import ref

# --------------------------------------------------------------------------
# NumPy kernels
# --------------------------------------------------------------------------


def unfold(A: np.ndarray, n: int) -> np.ndarray:
    """Mode-n unfolding, remaining modes in increasing order with the *first* one fastest (Kolda & Bader)."""
    A = np.asarray(A, dtype=float)
    return np.reshape(np.moveaxis(A, n, 0), (A.shape[n], -1), order="F")


def mttkrp_ref(A: np.ndarray, factors: Sequence[np.ndarray], n: int) -> np.ndarray:
    """X_(n) * KhatriRao(all factors but n) written as one einsum: out[i_n, r] = sum A[i] prod_{k!=n} U_k[i_k, r]."""
    A = np.asarray(A, dtype=float)
    letters = "abcdefghij"[: A.ndim]
    ops, specs = [], []
    for k in range(A.ndim):
        if k != n:
            ops.append(np.asarray(factors[k], dtype=float))
            specs.append(letters[k] + "z")
    return np.einsum(letters + "," + ",".join(specs) + "->" + letters[n] + "z", A, *ops)


def gram_except(factors: Sequence[np.ndarray], n: int) -> np.ndarray:
    R = factors[0].shape[1]
    Y = np.ones((R, R))
    for i, f in enumerate(factors):
        if i != n:
            Y = Y * (np.asarray(f).T @ np.asarray(f))
    return Y


def sq(A) -> float:
    A = np.asarray(A, dtype=float)
    return float(np.sum(A * A))


def unfolding_margin(A: np.ndarray, R: int) -> float:
    """min over modes of sigma_R / sigma_1 of the mode unfolding (0 when an unfolding has fewer than R rows/cols)."""
    m = 1.0
    for n in range(A.ndim):
        U = unfold(A, n)
        if min(U.shape) < R:
            return 0.0
        s = np.linalg.svd(U, compute_uv=False)
        if s[0] == 0:
            return 0.0
        m = min(m, float(s[R - 1] / s[0]))
    return m


# --------------------------------------------------------------------------
# problems: low-rank Kruskal model + noise in four holders
# --------------------------------------------------------------------------


def true_model(shape: Sequence[int], rtrue: int, seed: int, style: str = "normal"):
    rng = np.random.default_rng([11, seed])
    if style == "uniform":
        fm = [rng.uniform(0.1, 1.0, (n, rtrue)) for n in shape]
    else:
        fm = [rng.standard_normal((n, rtrue)) for n in shape]
    w = np.array([float(2.0 ** (-k)) * 3.0 for k in range(rtrue)])
    return w, fm


def dense_problem(shape, rtrue, seed, noise, style="normal") -> np.ndarray:
    """full(true model) + noise * ||full|| / sqrt(size) * E   (E standard normal; relative noise level)."""
    w, fm = true_model(shape, rtrue, seed, style)
    A = ref.den_kruskal(w, fm)
    rng = np.random.default_rng([13, seed])
    E = rng.standard_normal(tuple(shape))
    if style == "uniform":
        E = np.abs(E)
    nA = np.sqrt(sq(A))
    scale = nA / np.sqrt(max(1, A.size)) if nA > 0 else 1.0
    return A + noise * scale * E


def F(a: np.ndarray) -> np.ndarray:
    return np.array(a, dtype=float, order="F", copy=True)


def make_tensor(A: np.ndarray) -> ttb.tensor:
    return ttb.tensor(F(A), tuple(int(s) for s in A.shape))


def make_sptensor(A: np.ndarray, seed: int, order: str = "random") -> ttb.sptensor:
    """sptensor of the nonzeros of A stored in F order / reversed / randomly permuted."""
    subs = np.argwhere(A != 0)
    if subs.shape[0] == 0:
        return ttb.sptensor(shape=tuple(int(s) for s in A.shape))
    # F order: first index fastest
    key = np.lexsort(tuple(subs[:, k] for k in range(subs.shape[1])))
    subs = subs[key]
    if order == "reverse":
        subs = subs[::-1]
    elif order == "random":
        rng = np.random.default_rng([17, seed])
        subs = subs[rng.permutation(subs.shape[0])]
    vals = A[tuple(subs.T)].reshape(-1, 1).astype(float)
    return ttb.sptensor(np.ascontiguousarray(subs).astype(int), vals, tuple(int(s) for s in A.shape))


def sparsify(A: np.ndarray, density: float, seed: int) -> np.ndarray:
    if density >= 1.0:
        return A.copy()
    rng = np.random.default_rng([19, seed])
    mask = rng.uniform(size=A.shape) < density
    return np.where(mask, A, 0.0)


def make_ttensor_data(shape, R, seed, noise) -> ttb.ttensor:
    """Tucker-format data: core = superdiagonal(3*2^-k) + noise*E of size r_k in [R, n_k], generic factors."""
    rng = np.random.default_rng([23, seed])
    cshape = [int(rng.integers(min(R, n), n + 1)) for n in shape]
    core = noise * rng.standard_normal(tuple(cshape))
    for k in range(min(cshape)):
        core[(k,) * len(cshape)] += 3.0 * 2.0 ** (-k)
    fm = [rng.standard_normal((n, c)) for n, c in zip(shape, cshape)]
    return ttb.ttensor(ttb.tensor(F(core), tuple(cshape)), [F(f) for f in fm])


def make_ktensor(weights, fm) -> ttb.ktensor:
    return ttb.ktensor([F(f) for f in fm], np.array(weights, dtype=float))


def build_data(case: Dict[str, Any]):
    """(pyttb data object, dense array it denotes).  case keys: shape, rtrue, data_seed, noise, holder,
    density, stored, style."""
    shape = [int(s) for s in case["shape"]]
    holder = case["holder"]
    seed = int(case["data_seed"])
    noise = float(case["noise"])
    style = case.get("style", "normal")
    if holder == "ttensor":
        X = make_ttensor_data(shape, int(case["R"]), seed, max(noise, 1e-2))
        return X, ref.den(X)
    A = dense_problem(shape, int(case["rtrue"]), seed, noise, style)
    if holder == "tensor":
        return make_tensor(A), A
    if holder == "sptensor":
        A = sparsify(A, float(case.get("density", 1.0)), seed)
        return make_sptensor(A, seed, case.get("stored", "random")), A
    if holder == "sumtensor":
        # dense noise part + Kruskal part (+ optionally a sparse part)
        w, fm = true_model(shape, int(case["rtrue"]), seed, style)
        K = make_ktensor(w, fm)
        E = A - ref.den_kruskal(w, fm)
        parts: List[Any] = [make_tensor(E), K]
        if case.get("sum_sparse"):
            Sp = sparsify(dense_problem(shape, 1, seed + 1, 0.5, style), 0.5, seed)
            parts.append(make_sptensor(Sp, seed))
        X = ttb.sumtensor(parts, copy=False)
        return X, sum(ref.den(p) for p in parts)
    raise ValueError(holder)


def build_init(case: Dict[str, Any]):
    """Given starting guess as a ktensor (None for the string forms)."""
    kind = case["init"]
    if kind in ("random", "nvecs"):
        return kind
    shape = [int(s) for s in case["shape"]]
    R = int(case["R"])
    rng = np.random.default_rng([29, int(case["init_seed"])])
    if kind == "uniform":
        fm = [rng.uniform(0.0, 1.0, (n, R)) for n in shape]
    else:
        fm = [rng.standard_normal((n, R)) for n in shape]
    if case.get("init_weights") == "nonunit":
        w = rng.uniform(0.5, 2.0, R)
    else:
        w = np.ones(R)
    return make_ktensor(w, fm)


# --------------------------------------------------------------------------
# snapshots (bit-level) of pyttb holders
# --------------------------------------------------------------------------


def snapshot(x) -> Tuple:
    if x is None or isinstance(x, str):
        return ("const", x)
    if isinstance(x, np.ndarray):
        return ("nd", x.shape, x.dtype.str, np.array(x, copy=True, order="C").tobytes())
    if isinstance(x, ttb.tensor):
        return ("tensor", tuple(x.shape), snapshot(np.asarray(x.data)))
    if isinstance(x, ttb.sptensor):
        return ("sptensor", tuple(x.shape), snapshot(np.asarray(x.subs)), snapshot(np.asarray(x.vals)))
    if isinstance(x, ttb.ktensor):
        return ("ktensor", snapshot(np.asarray(x.weights)), tuple(snapshot(np.asarray(f)) for f in x.factor_matrices))
    if isinstance(x, ttb.ttensor):
        return ("ttensor", snapshot(x.core), tuple(snapshot(np.asarray(f)) for f in x.factor_matrices))
    if isinstance(x, ttb.sumtensor):
        return ("sumtensor", tuple(snapshot(p) for p in x.parts))
    if isinstance(x, (list, tuple)):
        return ("seq", tuple(snapshot(p) for p in x))
    return ("other", repr(x))


# --------------------------------------------------------------------------
# duck-typed data wrapper (DESIGN C09 clause 9)
# --------------------------------------------------------------------------


class Recorder:
    """Forwards the data interface cp_als uses and records every mttkrp request."""

    def __init__(self, X):
        self._X = X
        self.calls: List[Tuple[int, List[np.ndarray]]] = []
        self.other: List[str] = []

    @property
    def ndims(self):
        return self._X.ndims

    @property
    def shape(self):
        return self._X.shape

    def norm(self):
        return self._X.norm()

    def mttkrp(self, U, n):
        mats = U.factor_matrices if isinstance(U, ttb.ktensor) else U
        self.calls.append((int(n), [np.array(m, copy=True) for m in mats]))
        return self._X.mttkrp(U, n)

    def innerprod(self, other):
        self.other.append("innerprod")
        return self._X.innerprod(other)

    def nvecs(self, n, r, flipsign=True):
        self.other.append("nvecs")
        return self._X.nvecs(n, r, flipsign)


# --------------------------------------------------------------------------
# stdout
# --------------------------------------------------------------------------


@contextlib.contextmanager
def captured():
    buf = io.StringIO()
    with contextlib.redirect_stdout(buf):
        yield buf


_ITER = re.compile(r"^\s*Iter\s+(\d+):\s*f(?:it)?\s*=\s*(\S+)\s+f-?(?:it)?delta\s*=\s*(\S+)\s*$")
_FINAL = re.compile(r"^\s*Final f\s*=\s*(\S+)\s*$")


def parse_iter_lines(text: str):
    """([(iteration, f, delta)], final f or None, unparsable 'Iter'/'Final' lines)."""
    its, final, bad = [], None, []
    for line in text.splitlines():
        m = _ITER.match(line)
        if m:
            try:
                its.append((int(m.group(1)), float(m.group(2)), float(m.group(3))))
            except ValueError:
                bad.append(line)
            continue
        m = _FINAL.match(line)
        if m:
            try:
                final = float(m.group(1))
            except ValueError:
                bad.append(line)
            continue
        if "Iter" in line or "Final" in line:
            bad.append(line)
    return its, final, bad


def printed_close(printed: float, value: float) -> bool:
    """`{x:e}` keeps 7 significant digits: |printed - value| <= 6e-7 |value| (half an ulp of the 7th digit, rounded up)."""
    if not (np.isfinite(printed) and np.isfinite(value)):
        return False
    return abs(printed - value) <= 6e-7 * abs(value) + 1e-300


def is_float(x) -> bool:
    return isinstance(x, (float, int, np.floating, np.integer)) and not isinstance(x, bool)


def as_int(x) -> Optional[int]:
    if isinstance(x, (int, np.integer)) and not isinstance(x, bool):
        return int(x)
    return None
