"""Helpers shared by the decomposition checks C09, C10 and C18 (problem construction, snapshots, NumPy reference kernels).

Nothing in here calls the algorithm under test.  pyttb is used only to *hold* the data
(constructors of tensor / sptensor / ttensor / sumtensor / ktensor); every number the oracles
need is computed with NumPy on ``ref.den`` of those holders.

Bulk numeric content (factor entries, noise, masks) is expanded with ``np.random.default_rng(seed)``
from integer seeds that Hypothesis draws: the case stays a handful of integers (replayable, shrinkable in
its structural parameters) and the problems stay well conditioned by construction, which arbitrary
Hypothesis floats (zeros, repeated values -> collinear columns) would not be.
"""

from __future__ import annotations

import contextlib
import io
import re
from typing import Any, Dict, List, Optional, Sequence, Tuple

import numpy as np

import pyttb as ttb

from .. import ref

# --------------------------------------------------------------------------
# NumPy kernels
# --------------------------------------------------------------------------


def unfold(A: np.ndarray, n: int) -> np.ndarray:
    """Mode-n unfolding, remaining modes in increasing order with the *first* one fastest (Kolda & Bader)."""
    A = np.asarray(A, dtype=float)
    return np.reshape(np.moveaxis(A, n, 0), (A.shape[n], -1), order="F")


def mttkrp_ref(A: np.ndarray, factors: Sequence[np.ndarray], n: int) -> np.ndarray:
    """X_(n) * KhatriRao(all factors but n) written as one einsum: out[i_n, r] = sum A[i] prod_{k!=n} U_k[i_k, r]."""
    A = np.asarray(A, dtype=float)
    letters = "abcdefghij"[: A.ndim]
    ops, specs = [], []
    for k in range(A.ndim):
        if k != n:
            ops.append(np.asarray(factors[k], dtype=float))
            specs.append(letters[k] + "z")
    return np.einsum(letters + "," + ",".join(specs) + "->" + letters[n] + "z", A, *ops)


def gram_except(factors: Sequence[np.ndarray], n: int) -> np.ndarray:
    R = factors[0].shape[1]
    Y = np.ones((R, R))
    for i, f in enumerate(factors):
        if i != n:
            Y = Y * (np.asarray(f).T @ np.asarray(f))
    return Y


def tucker_fast(core, factors) -> np.ndarray:
    """core x_1 U_1 ... x_N U_N by one mode product after the other (ref.den_tucker is a single unoptimised einsum whose cost
    is prod(core shape) * prod(shape): too slow for the larger problems)."""
    Y = np.asarray(core, dtype=float)
    for k, U in enumerate(factors):
        Y = np.moveaxis(np.tensordot(np.asarray(U, dtype=float), Y, axes=(1, k)), 0, k)
    return Y


def den(x) -> np.ndarray:
    """ref.den with the cheap evaluation order for Tucker tensors (also as parts of a sum)"""
    if isinstance(x, ttb.ttensor):
        return tucker_fast(ref.den(x.core), x.factor_matrices)
    if isinstance(x, ttb.sumtensor):
        return sum(den(p) for p in x.parts)
    return ref.den(x)


def sq(A) -> float:
    A = np.asarray(A, dtype=float)
    return float(np.sum(A * A))


def unfolding_margin(A: np.ndarray, R: int) -> float:
    """min over modes of sigma_R / sigma_1 of the mode unfolding (0 when an unfolding has fewer than R rows/cols)."""
    m = 1.0
    for n in range(A.ndim):
        U = unfold(A, n)
        if min(U.shape) < R:
            return 0.0
        s = np.linalg.svd(U, compute_uv=False)
        if s[0] == 0:
            return 0.0
        m = min(m, float(s[R - 1] / s[0]))
    return m


# --------------------------------------------------------------------------
# problems: low-rank Kruskal model + noise in four holders
# --------------------------------------------------------------------------


def true_model(shape: Sequence[int], rtrue: int, seed: int, style: str = "normal"):
    rng = np.random.default_rng([11, seed])
    if style == "uniform":
        fm = [rng.uniform(0.1, 1.0, (n, rtrue)) for n in shape]
    elif style == "block":  # components with disjoint supports in every mode that has room: block-diagonal model, exact zeros
        fm = []
        for n in shape:
            M = rng.standard_normal((n, rtrue))
            if n >= rtrue:
                owner = np.concatenate([np.arange(rtrue), rng.integers(0, rtrue, n - rtrue)])[rng.permutation(n)]
                M = np.where(owner[:, None] == np.arange(rtrue)[None, :], M, 0.0)
            fm.append(M)
    else:
        fm = [rng.standard_normal((n, rtrue)) for n in shape]
    w = np.array([float(2.0 ** (-k)) * 3.0 for k in range(rtrue)])
    return w, fm


def dense_problem(shape, rtrue, seed, noise, style="normal") -> np.ndarray:
    """full(true model) + noise * ||full|| / sqrt(size) * E   (E standard normal; relative noise level)."""
    w, fm = true_model(shape, rtrue, seed, style)
    A = ref.den_kruskal(w, fm)
    rng = np.random.default_rng([13, seed])
    E = rng.standard_normal(tuple(shape))
    if style == "uniform":
        E = np.abs(E)
    nA = np.sqrt(sq(A))
    scale = nA / np.sqrt(max(1, A.size)) if nA > 0 else 1.0
    return A + noise * scale * E


def F(a: np.ndarray) -> np.ndarray:
    return np.array(a, dtype=float, order="F", copy=True)


def make_tensor(A: np.ndarray) -> ttb.tensor:
    return ttb.tensor(F(A), tuple(int(s) for s in A.shape))


def make_sptensor(A: np.ndarray, seed: int, order: str = "random", dtype: str = "float64", state: str = "plain") -> ttb.sptensor:
    """sptensor of the nonzeros of A stored in F order / reversed / randomly permuted, values held in `dtype`.
    state: "plain"; "explicit-zeros" (a few zero-valued entries stored as well, as S*0 or the constructor leave them);
    "np-shape" (shape entries numpy.int64, as operations on grown tensors leave them); "from-tensor" (tensor.to_sptensor());
    "halved-doubled" ((S * 0.5) * 2, the result of arithmetic).  Falls back to "plain" when a path does not give A back."""
    if state in ("from-tensor", "halved-doubled") and dtype == "float64" and np.any(A != 0):
        try:
            if state == "from-tensor":
                S = make_tensor(A).to_sptensor()
            else:
                S = (make_sptensor(A * 0.5, seed, order) * 2.0)
            if isinstance(S, ttb.sptensor) and tuple(int(n) for n in S.shape) == tuple(A.shape) and np.array_equal(
                    ref.den_sptensor(S), np.asarray(A, dtype=float)):
                return S
        except Exception:  # noqa: BLE001
            pass
    subs = np.argwhere(A != 0)
    if subs.shape[0] == 0:
        return ttb.sptensor(shape=tuple(int(s) for s in A.shape))
    if state == "explicit-zeros":
        zer = np.argwhere(A == 0)
        if zer.shape[0]:
            rng0 = np.random.default_rng([71, seed])
            subs = np.vstack([subs, zer[rng0.permutation(zer.shape[0])[: max(1, min(3, zer.shape[0]))]]])
    # F order: first index fastest
    key = np.lexsort(tuple(subs[:, k] for k in range(subs.shape[1])))
    subs = subs[key]
    if order == "reverse":
        subs = subs[::-1]
    elif order == "random":
        rng = np.random.default_rng([17, seed])
        subs = subs[rng.permutation(subs.shape[0])]
    vals = A[tuple(subs.T)].reshape(-1, 1).astype(np.dtype(dtype))
    shape = tuple(np.int64(s) for s in A.shape) if state == "np-shape" else tuple(int(s) for s in A.shape)
    return ttb.sptensor(np.ascontiguousarray(subs).astype(int), vals, shape)


def sparsify(A: np.ndarray, density: float, seed: int) -> np.ndarray:
    if density >= 1.0:
        return A.copy()
    rng = np.random.default_rng([19, seed])
    mask = rng.uniform(size=A.shape) < density
    return np.where(mask, A, 0.0)


# factor-matrix structures for Tucker data and Kruskal parts (class 6: exactly special, epsilon-perturbed, generic; class 8:
# column norms spread over many decades with the core / the weights compensating)
FSTYLES = ["generic", "generic", "orthonormal", "unit", "unit", "near-orth", "near-unit", "identity", "near-identity", "skewed",
           "mixed"]
NEAR_EPS = [1e-10, 1e-9, 1e-8, 1e-7, 1e-6, 1e-5]


def styled_factor(rng, n: int, c: int, style: str) -> np.ndarray:
    """n x c factor matrix (c <= n) with the named structure.
    generic: standard normal; orthonormal: Q of a QR factorisation (what hosvd / tucker_als return); unit: unit-length columns
    that are not orthogonal (a normalised dictionary); near-orth / near-unit / near-identity: the special structure plus a
    relative perturbation drawn from NEAR_EPS; identity: leading columns of the identity (rows permuted half of the time); skewed: generic
    columns scaled by 10^k, k in -9..9 (the caller compensates in the core / the weights)."""
    M = rng.standard_normal((n, c))
    if style == "generic" or c > n:
        return M
    eps = float(NEAR_EPS[int(rng.integers(0, len(NEAR_EPS)))])
    if style in ("orthonormal", "near-orth"):
        Q, _ = np.linalg.qr(M)
        return Q if style == "orthonormal" else Q + eps * rng.standard_normal((n, c))
    if style in ("unit", "near-unit"):
        U = M / np.sqrt(np.sum(M * M, axis=0))[None, :]
        return U if style == "unit" else U * (1.0 + eps * rng.uniform(-1, 1, c))[None, :]
    if style in ("identity", "near-identity"):
        E = np.eye(n)[:, :c] if rng.uniform() < 0.5 else np.eye(n)[rng.permutation(n), :][:, :c]
        return E if style == "identity" else E + eps * rng.standard_normal((n, c))
    if style == "skewed":
        return M * (10.0 ** rng.integers(-9, 10, c))[None, :]
    raise ValueError(style)


def make_ttensor_data(shape, R, seed, noise, scale=1.0, fstyle="generic", core_holder="dense") -> ttb.ttensor:
    """Tucker-format data: core = superdiagonal(3*2^-k) + noise*E of size r_k in [R, n_k]; factor matrices of structure
    `fstyle` (see styled_factor; "mixed": a structure drawn per mode); with "skewed" factors the core is divided by the
    column scales, so the tensor keeps its magnitude.  core_holder "sparse": the core is held as an sptensor."""
    rng = np.random.default_rng([23, seed])
    cshape = [int(rng.integers(min(R, n), n + 1)) for n in shape]
    core = noise * rng.standard_normal(tuple(cshape))
    for k in range(min(cshape)):
        core[(k,) * len(cshape)] += 3.0 * 2.0 ** (-k)
    if fstyle == "generic":
        fm = [rng.standard_normal((n, c)) for n, c in zip(shape, cshape)]
    else:
        rng2 = np.random.default_rng([79, seed])
        fm = []
        for k, (n, c) in enumerate(zip(shape, cshape)):
            st_k = fstyle if fstyle != "mixed" else FSTYLES[int(rng2.integers(0, len(FSTYLES) - 1))]
            M = styled_factor(rng2, n, c, st_k)
            if st_k == "skewed":
                cn = np.sqrt(np.sum(M * M, axis=0))
                core = core / (cn / np.sqrt(n)).reshape([-1 if j == k else 1 for j in range(len(shape))])
            fm.append(M)
    core = core * scale
    if core_holder == "sparse":
        G = make_sptensor(core, seed, "random")
    else:
        G = ttb.tensor(F(core), tuple(cshape))
    return ttb.ttensor(G, [F(f) for f in fm])


def restyle_kruskal(w, fm, seed, kstyle):
    """the same Kruskal tensor (up to rounding) with another distribution of the column norms / of the structure:
    unit: unit-length columns, weights carry the norms (a normalised model); near-unit: column norms within NEAR_EPS of 1;
    skewed: column norms 10^k, k in -18..18, weights compensating (columns of norm 1e-18 carrying a weight 1e+18);
    orth: the columns of every mode with room are replaced by orthonormal ones (another tensor, exactly orthogonal factors)."""
    w = np.array(w, dtype=float)
    fm = [np.array(f, dtype=float) for f in fm]
    if kstyle == "generic":
        return w, fm
    rng = np.random.default_rng([83, seed])
    if kstyle == "orth":
        out = []
        for f in fm:
            if f.shape[0] >= f.shape[1]:
                f, _ = np.linalg.qr(f)
            out.append(f)
        return w, out
    out = []
    for f in fm:
        cn = np.sqrt(np.sum(f * f, axis=0))
        cn = np.where(cn > 0, cn, 1.0)
        if kstyle == "unit":
            tgt = np.ones_like(cn)
        elif kstyle == "near-unit":
            tgt = 1.0 + float(NEAR_EPS[int(rng.integers(0, len(NEAR_EPS)))]) * rng.uniform(-1, 1, cn.shape)
        elif kstyle == "skewed":
            tgt = 10.0 ** rng.integers(-18, 19, cn.shape)
        else:
            raise ValueError(kstyle)
        out.append(f * (tgt / cn)[None, :])
        w = w * (cn / tgt)
    return w, out


KSTYLES = ["generic", "generic", "unit", "unit", "near-unit", "orth", "skewed"]


def make_ktensor(weights, fm) -> ttb.ktensor:
    return ttb.ktensor([F(f) for f in fm], np.array(weights, dtype=float))


# integer dtypes the data may be held in: (lowest, highest value generated); "full" magnitude uses the whole span
INT_RANGE = {"int64": (-10**6, 10**6), "int32": (-10**6, 10**6), "int16": (-30000, 30000), "int8": (-128, 127),
             "uint8": (0, 255), "uint16": (0, 60000)}
MAGS = {"small": 3, "medium": 100, "full": 10**9}


def int_data(shape, rng, dtype, mag, lowrank, rtrue=2):
    """integer-valued array (float64 holder of the values) within the range of `dtype`: uniform integers, or a rounded
    low-rank model plus integer noise (so that the mode spectra decay)."""
    lo, hi = INT_RANGE[dtype]
    m = min(MAGS[mag], hi)
    lo = max(lo, -m)
    if lowrank:
        if lo < 0:
            fm = [rng.standard_normal((n, rtrue)) for n in shape]
        else:
            fm = [rng.uniform(0.1, 1.0, (n, rtrue)) for n in shape]
        A = ref.den_kruskal(np.array([1.0 / (1 + k) for k in range(rtrue)]), fm)
        A = A / max(float(np.max(np.abs(A))), 1e-300) * m
        A = np.round(A + (0.05 * m + 0.6) * rng.standard_normal(tuple(shape)))
        A = np.clip(A, lo, m)
    else:
        A = rng.integers(lo, m + 1, tuple(shape)).astype(float)
    if not A.any():
        A.flat[0] = 1.0
    return A


def hold(A, dtype="float64", prov="ctor", seed=0):
    """tensor holding the values of A in `dtype`, reached through a public path: constructor from an F-ordered / C-ordered
    array, permute of the transposed tensor, growth by assignment, conversion from sptensor, an elementwise product.
    Returns (tensor, provenance actually used): when a path does not reproduce A exactly (judged by other properties)
    the constructor is used."""
    A = np.asarray(A, dtype=float)
    shape = tuple(int(n) for n in A.shape)
    dt = np.dtype(dtype)
    Ad = A.astype(dt)
    X = None
    try:
        if prov == "c-order":
            X = ttb.tensor(np.ascontiguousarray(Ad))
        elif prov == "permuted" and A.ndim >= 2:
            p = list(range(A.ndim))[::-1]
            X = ttb.tensor(np.asfortranarray(np.transpose(Ad, p))).permute(np.array(p))
        elif prov == "grown" and dtype == "float64":
            from .. import gen

            X = gen.build_tensor(dict(shape=list(shape), data=A.flatten(order="F").tolist(), prov="grown"))
        elif prov == "from-sparse" and dtype == "float64" and A.any():
            X = make_sptensor(A, seed, "random").to_tensor()
        elif prov == "doubled" and dtype == "float64":
            X = ttb.tensor(F(A * 0.5), shape) * 2.0
    except Exception:  # noqa: BLE001
        X = None
    if X is not None:
        ok = isinstance(X, ttb.tensor) and tuple(int(n) for n in X.shape) == shape
        ok = ok and np.asarray(X.data).dtype == dt and np.array_equal(np.asarray(X.data).astype(float), A)
        if ok:
            return X, prov
    return ttb.tensor(np.asfortranarray(Ad), shape), "ctor"


PROVS_F64 = ["ctor", "ctor", "c-order", "permuted", "grown", "from-sparse", "doubled"]
PROVS_ANY = ["ctor", "ctor", "c-order", "permuted"]


def build_data(case: Dict[str, Any]):
    """(pyttb data object, dense array it denotes).  case keys: shape, rtrue, data_seed, noise, holder,
    density, stored, style."""
    shape = [int(s) for s in case["shape"]]
    holder = case["holder"]
    seed = int(case["data_seed"])
    noise = float(case["noise"])
    style = case.get("style", "normal")
    scale = float(case.get("scale", 1.0))  # data magnitude: every relation checked is scale-free
    dtype = case.get("dtype", "float64")
    if holder == "ttensor":
        X = make_ttensor_data(shape, int(case["R"]), seed, max(noise, 1e-2), scale, case.get("fstyle", "generic"),
                              case.get("core_holder", "dense"))
        return X, den(X)
    if dtype in INT_RANGE and holder in ("tensor", "sptensor"):
        # integer-valued data for an integer holder: the model + noise scaled to the magnitude class and rounded
        lo, hi = INT_RANGE[dtype]
        m = min(MAGS[case.get("mag", "medium")], hi)
        A = dense_problem(shape, int(case["rtrue"]), seed, noise, "uniform" if lo == 0 else style)
        A = np.clip(np.round(A / max(float(np.max(np.abs(A))), 1e-300) * m), max(lo, -m), m)
    else:
        dtype = "float64"
        A = dense_problem(shape, int(case["rtrue"]), seed, noise, style) * scale
    if holder == "tensor":
        X, _ = hold(A, dtype, case.get("prov", "ctor"), seed)
        return X, A
    if holder == "sptensor":
        A = sparsify(A, float(case.get("density", 1.0)), seed)
        return make_sptensor(A, seed, case.get("stored", "random"), dtype, case.get("sp_state", "plain")), A
    if holder == "sumtensor":
        # dense noise part + Kruskal part (+ optionally a sparse part)
        w, fm = true_model(shape, int(case["rtrue"]), seed, style)
        w = w * scale
        E = A - ref.den_kruskal(w, fm)
        w, fm = restyle_kruskal(w, fm, seed, case.get("kstyle", "generic"))
        K = make_ktensor(w, fm)
        parts: List[Any] = [make_tensor(E), K]
        if case.get("sum_sparse"):
            Sp = sparsify(dense_problem(shape, 1, seed + 1, 0.5, style), 0.5, seed) * scale
            parts.append(make_sptensor(Sp, seed))
        if case.get("sum_tucker"):
            parts.append(make_ttensor_data(shape, 1, seed + 2, 0.3, 0.5 * scale, case.get("fstyle", "generic")))
        X = ttb.sumtensor(parts, copy=False)
        return X, sum(den(p) for p in parts)
    raise ValueError(holder)


# data magnitudes; the checked relations are scale-free (relative bounds).  1e-9 .. 1e-12 lie below every absolute tolerance
# a "close to zero?" test could use (numpy's default atol is 1e-8), 1e+9 above
SCALES = [1.0, 1.0, 1.0, 1e-6, 1e-3, 1e4, 1e6, 1e-9, 1e-10, 1e-12, 1e9]
GUESS_SCALES = [1.0, 1.0, 1.0, 1.0, 1e-9, 1e-12, 1e9, "columns"]  # magnitude of a given starting guess ("columns": 10^k per column)


def _option_strategies():
    from hypothesis import strategies as st

    # 0, 1e-12 .. 1 log-uniform, and values no fit change can reach (>= 1: the run ends at the first test it makes)
    stoptols = st.one_of(st.sampled_from([0.0, 0.0, 0.0, 1e-4, 1e-4, 1e-3, 1e-2, 1e-2, 0.1, 0.5, 2.5, 1e300]),
                         # (centred: Hypothesis favours 0 and the ends of an integer range; 0 -> 1e-6)
                         st.integers(-24, 24).map(lambda k: float(10.0 ** ((k - 24) / 4.0))))
    printitns = st.sampled_from([0, 0, 1, 1, 2, 3, -1, -5, 7, 1000])  # <= 0 silent; larger than any iteration count
    return stoptols, printitns


STOPTOLS, PRINTITNS = _option_strategies()

STRUCTURED_INITS = ("disjoint", "orth", "zeros", "repeat", "intvalued")


def helmert(n: int) -> np.ndarray:
    """n x n integer matrix with exactly orthogonal columns: ones, then (1,..,1,-k,0,..,0)."""
    M = np.zeros((n, n))
    M[:, 0] = 1.0
    for k in range(1, n):
        M[:k, k] = 1.0
        M[k, k] = -float(k)
    return M


def structured_factor(rng, n: int, R: int, kind: str) -> np.ndarray:
    """n x R factor (n >= R) with linearly independent columns and the named structure.
    disjoint: columns with disjoint supports (small integers: the Gram matrix is exactly diagonal);
    orth: dense integer columns that are exactly orthogonal (Helmert contrasts, rows permuted, columns scaled);
    zeros: generic entries, 30 % exact zeros, one all-zero row when n > R;
    intvalued: small integers."""
    if n < R:
        return rng.standard_normal((n, R))
    if kind == "disjoint":
        owner = np.concatenate([np.arange(R), rng.integers(0, R, n - R)])[rng.permutation(n)]
        vals = rng.integers(1, 4, (n, R)) * rng.choice([-1.0, 1.0], (n, R))
        return np.where(owner[:, None] == np.arange(R)[None, :], vals, 0.0)
    if kind == "orth":
        M = helmert(n)[:, rng.permutation(n)[:R]] * rng.integers(1, 4, R)[None, :]
        return M[rng.permutation(n), :]
    if kind == "zeros":
        M = np.where(rng.uniform(size=(n, R)) < 0.3, 0.0, rng.standard_normal((n, R)))
        M[np.arange(R), np.arange(R)] = 2.0 + np.arange(R)
        if n > R:
            M[n - 1, :] = 0.0
        return M[rng.permutation(n), :]
    M = rng.integers(-3, 4, (n, R)).astype(float)
    M[np.arange(R), np.arange(R)] += 7.0
    return M


def build_init(case: Dict[str, Any]):
    """Given starting guess as a ktensor (None for the string forms)."""
    kind = case["init"]
    if kind in ("random", "nvecs"):
        return kind
    shape = [int(s) for s in case["shape"]]
    R = int(case["R"])
    rng = np.random.default_rng([29, int(case["init_seed"])])
    if kind == "uniform":
        fm = [rng.uniform(0.0, 1.0, (n, R)) for n in shape]
    elif kind in STRUCTURED_INITS:
        # structured guesses (boundary class): every mode is structured with probability 0.6, generic otherwise, so that exact
        # zeros in one Gram matrix meet non-zero entries in the others; a repeated column only in one mode of an
        # N >= 3 problem (the coefficient matrices stay non-singular: Schur product with a positive definite Gram matrix)
        rep_mode = int(rng.integers(0, len(shape)))
        fm = []
        for k, n in enumerate(shape):
            M = rng.standard_normal((n, R))
            if kind == "repeat":
                if k == rep_mode and len(shape) >= 3 and R >= 2:
                    M[:, 1] = M[:, 0]
            elif rng.uniform() < 0.6 or len(shape) == 1:
                M = structured_factor(rng, n, R, kind)
            fm.append(M)
    else:
        fm = [rng.standard_normal((n, R)) for n in shape]
    if case.get("init_weights") == "nonunit":
        w = rng.uniform(0.5, 2.0, R)
    else:
        w = np.ones(R)
    gs = case.get("init_scale", 1.0)
    if gs == "columns":  # every column of every mode at its own magnitude 10^k, k in -9..9
        fm = [f * (10.0 ** rng.integers(-9, 10, R))[None, :] for f in fm]
    elif float(gs) != 1.0:
        fm = [f * float(gs) for f in fm]
    return make_ktensor(w, fm)


# --------------------------------------------------------------------------
# snapshots (bit-level) of pyttb holders
# --------------------------------------------------------------------------


def snapshot(x) -> Tuple:
    if x is None or isinstance(x, str):
        return ("const", x)
    if isinstance(x, np.ndarray):
        return ("nd", x.shape, x.dtype.str, np.array(x, copy=True, order="C").tobytes())
    if isinstance(x, ttb.tensor):
        return ("tensor", tuple(x.shape), snapshot(np.asarray(x.data)))
    if isinstance(x, ttb.sptensor):
        return ("sptensor", tuple(x.shape), snapshot(np.asarray(x.subs)), snapshot(np.asarray(x.vals)))
    if isinstance(x, ttb.ktensor):
        return ("ktensor", snapshot(np.asarray(x.weights)), tuple(snapshot(np.asarray(f)) for f in x.factor_matrices))
    if isinstance(x, ttb.ttensor):
        return ("ttensor", snapshot(x.core), tuple(snapshot(np.asarray(f)) for f in x.factor_matrices))
    if isinstance(x, ttb.sumtensor):
        return ("sumtensor", tuple(snapshot(p) for p in x.parts))
    if isinstance(x, (list, tuple)):
        return ("seq", tuple(snapshot(p) for p in x))
    return ("other", repr(x))


# --------------------------------------------------------------------------
# duck-typed data wrapper (DESIGN C09 clause 9)
# --------------------------------------------------------------------------


class Recorder:
    """Forwards the data interface cp_als uses and records every mttkrp request."""

    def __init__(self, X):
        self._X = X
        self.calls: List[Tuple[int, List[np.ndarray]]] = []
        self.other: List[str] = []

    @property
    def ndims(self):
        return self._X.ndims

    @property
    def shape(self):
        return self._X.shape

    def norm(self):
        return self._X.norm()

    def mttkrp(self, U, n):
        mats = U.factor_matrices if isinstance(U, ttb.ktensor) else U
        self.calls.append((int(n), [np.array(m, copy=True) for m in mats]))
        return self._X.mttkrp(U, n)

    def innerprod(self, other):
        self.other.append("innerprod")
        return self._X.innerprod(other)

    def nvecs(self, n, r, flipsign=True):
        self.other.append("nvecs")
        return self._X.nvecs(n, r, flipsign)


# --------------------------------------------------------------------------
# stdout
# --------------------------------------------------------------------------


@contextlib.contextmanager
def captured():
    buf = io.StringIO()
    with contextlib.redirect_stdout(buf):
        yield buf


_ITER = re.compile(r"^\s*Iter\s+(\d+):\s*f(?:it)?\s*=\s*(\S+)\s+f-?(?:it)?delta\s*=\s*(\S+)\s*$")
_FINAL = re.compile(r"^\s*Final f\s*=\s*(\S+)\s*$")


def parse_iter_lines(text: str):
    """([(iteration, f, delta)], final f or None, unparsable 'Iter'/'Final' lines)."""
    its, final, bad = [], None, []
    for line in text.splitlines():
        m = _ITER.match(line)
        if m:
            try:
                its.append((int(m.group(1)), float(m.group(2)), float(m.group(3))))
            except ValueError:
                bad.append(line)
            continue
        m = _FINAL.match(line)
        if m:
            try:
                final = float(m.group(1))
            except ValueError:
                bad.append(line)
            continue
        if "Iter" in line or "Final" in line:
            bad.append(line)
    return its, final, bad


def printed_close(printed: float, value: float) -> bool:
    """`{x:e}` keeps 7 significant digits: |printed - value| <= 6e-7 |value| (half an ulp of the 7th digit, rounded up)."""
    if not (np.isfinite(printed) and np.isfinite(value)):
        return False
    return abs(printed - value) <= 6e-7 * abs(value) + 1e-300


def is_float(x) -> bool:
    return isinstance(x, (float, int, np.floating, np.integer)) and not isinstance(x, bool)


def as_int(x) -> Optional[int]:
    if isinstance(x, (int, np.integer)) and not isinstance(x, bool):
        return int(x)
    return None


# --------------------------------------------------------------------------
# round 4, class 11: the same valid argument in another presentation
# --------------------------------------------------------------------------

INT_FORMS = ["list", "tuple", "int64", "int32", "int16", "uint8", "uint16", "uint64", "npscalars", "row"]


def int_seq_form(v, form: str):
    """a list of small non-negative ints as list / tuple / integer array of the named dtype / list of numpy integer scalars /
    1 x n row array (parse_one_d documents that extra dimensions are dropped) / bare (numpy) int for a single entry"""
    if v is None:
        return None
    v = [int(x) for x in v]
    if form == "list":
        return list(v)
    if form == "tuple":
        return tuple(v)
    if form == "npscalars":
        return [np.int64(x) if i % 2 else np.int32(x) for i, x in enumerate(v)]
    if form == "row":
        return np.array([v], dtype=np.int64)
    if form.startswith("bare"):
        if len(v) != 1:
            return list(v)
        return {"bare-int": int, "bare-int32": np.int32, "bare-uint8": np.uint8}[form](v[0])
    return np.array(v, dtype=np.dtype(form))


def _ro(a: np.ndarray) -> np.ndarray:
    a = np.array(a, copy=True, order="F")
    a.setflags(write=False)
    return a


def _strided(a: np.ndarray) -> np.ndarray:
    """a non-contiguous view holding the values of a (every second row and column of a larger buffer)"""
    a = np.asarray(a)
    big = np.zeros(tuple(2 * n + 1 for n in a.shape), dtype=a.dtype)
    sl = tuple(slice(1, 2 * n + 1, 2) for n in a.shape)
    big[sl] = a
    return big[sl]


def represent_factors(G: ttb.ktensor, how: str) -> ttb.ktensor:
    """the same Kruskal tensor built by the public constructor from another presentation of the same matrices"""
    fms = [np.asarray(f) for f in G.factor_matrices]
    w = np.asarray(G.weights)
    if how == "c-ordered":
        return ttb.ktensor([np.ascontiguousarray(f) for f in fms], np.array(w, copy=True))
    if how == "strided":
        return ttb.ktensor([_strided(f) for f in fms], _strided(w))
    if how == "readonly":
        return ttb.ktensor([_ro(f) for f in fms], _ro(w))
    if how == "readonly-nocopy":
        return ttb.ktensor([_ro(f) for f in fms], _ro(w), copy=False)
    if how == "tuple":
        return ttb.ktensor(tuple(np.array(f, copy=True, order="F") for f in fms), np.array(w, copy=True))
    if how == "copy-method":
        return G.copy()
    raise ValueError(how)


def represent_data(x, how: str):
    """the same data tensor built by the public constructors from another presentation of the same arrays:
    readonly / readonly-nocopy: every array read-only (and handed over by reference); strided / c-ordered: non-contiguous or
    C-ordered sources; subs-<dtype>: sparse subscripts held in that integer dtype; shape-<dtype>: shape entries numpy integers of
    that dtype (given as a tuple) ; shape-list: shape as a list."""
    copy = how != "readonly-nocopy"
    arr = {"readonly": _ro, "readonly-nocopy": _ro, "strided": _strided, "c-ordered": lambda a: np.ascontiguousarray(np.asarray(a))}.get(
        how, lambda a: np.array(a, copy=True, order="F"))
    if isinstance(x, ttb.tensor):
        shape: Any = tuple(int(n) for n in x.shape)
        if how.startswith("shape-"):
            shape = list(shape) if how == "shape-list" else tuple(np.dtype(how[6:]).type(n) for n in shape)
        return ttb.tensor(arr(np.asarray(x.data)), shape, copy=copy)
    if isinstance(x, ttb.sptensor):
        shape = tuple(int(n) for n in x.shape)
        if np.asarray(x.subs).size == 0:
            return ttb.sptensor(shape=shape)
        subs = np.asarray(x.subs)
        if how.startswith("subs-"):
            subs = subs.astype(np.dtype(how[5:]))
        if how.startswith("shape-"):
            shape = list(shape) if how == "shape-list" else tuple(np.dtype(how[6:]).type(n) for n in shape)
        if how in ("readonly", "readonly-nocopy"):
            s2, v2 = np.array(subs, copy=True), np.array(x.vals, copy=True)
            s2.setflags(write=False)
            v2.setflags(write=False)
            return ttb.sptensor(s2, v2, shape, copy=copy)
        if how == "strided":
            return ttb.sptensor(_strided(subs), _strided(np.asarray(x.vals)), shape)
        return ttb.sptensor(np.array(subs, copy=True), np.array(x.vals, copy=True), shape)
    if isinstance(x, ttb.ktensor):
        if how in ("readonly", "readonly-nocopy", "strided", "c-ordered"):
            return represent_factors(x, how)
        return represent_factors(x, "copy-method")
    if isinstance(x, ttb.ttensor):
        return ttb.ttensor(represent_data(x.core, how), [arr(np.asarray(f)) for f in x.factor_matrices], copy=copy)
    if isinstance(x, ttb.sumtensor):
        return ttb.sumtensor([represent_data(p, how) for p in x.parts], copy=copy)
    raise TypeError(type(x))


@contextlib.contextmanager
def root_logger_at(level):
    """root logger at `level` with a NullHandler attached and logging enabled (the harness disables it), restored afterwards"""
    import logging

    root = logging.getLogger()
    old_level, old_disable = root.level, root.manager.disable
    h = logging.NullHandler()
    root.addHandler(h)
    try:
        logging.disable(logging.NOTSET)
        root.setLevel(level)
        yield
    finally:
        root.setLevel(old_level)
        root.removeHandler(h)
        logging.disable(old_disable)
