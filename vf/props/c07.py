"""C07 — permute, reshape and squeeze are exact index maps."""

from __future__ import annotations

import itertools

import numpy as np
from hypothesis import strategies as st

import pyttb as ttb

from .. import gen, ref
from ..core import cell

PROPERTY = "C07"
RULE = (
    "cases = (holder data, mode order | target shape | old_modes subset) drawn by Hypothesis, or the full "
    "enumeration of N! orders for N<=4; oracle = np.transpose / reshape(order='F') / np.squeeze on the array the "
    "operand denotes (exact equality for dense and sparse, rigorous rounding bound for Kruskal/Tucker), plus the "
    "inverse round trip.  Non-trivial: >=2 distinct mode sizes and a non-involutive order (permute), a target shape "
    "that splits or merges modes of different size (reshape), a singleton mode next to a non-singleton one (squeeze)."
)
ASSUMPTIONS = [
    "oracle: numpy transpose/reshape/squeeze applied to the array reconstructed from the public attributes",
    "Kruskal/Tucker: compared within 64*n*eps*einsum(|.|) (no values change, but both sides are evaluated in floating point)",
]


def tup(shape):
    return tuple(int(s) for s in shape)


def inv(p):
    q = [0] * len(p)
    for i, v in enumerate(p):
        q[v] = i
    return q


# --------------------------------------------------------------------------
# permute
# --------------------------------------------------------------------------


@st.composite
def _perm_dense(draw, tier):
    c = draw(gen.dense_case(tier, min_order=1))
    c["perm"] = list(draw(st.permutations(range(len(c["shape"])))))
    return c


@st.composite
def _perm_sparse(draw, tier):
    c = draw(gen.sparse_case(tier, min_order=1))
    c["perm"] = list(draw(st.permutations(range(len(c["shape"])))))
    return c


def _nt_perm(shape, p):
    return len(set(shape)) >= 2 and not gen.is_involution(p)


def _check_permute_exact(ctx, X, A, p, kind):
    ctx.label(*gen.shape_classes(A.shape), "involution" if gen.is_involution(p) else "non-involution")
    ctx.nt = _nt_perm(A.shape, p)
    with ctx.sut(f"{kind}.permute"):
        R = X.permute(np.array(p))
    ctx.require(type(R) is type(X), "permute-returns-same-class", type(R).__name__)
    expect = np.transpose(A, p)
    ctx.check(tup(R.shape) == expect.shape, "permute-shape", f"{tup(R.shape)} vs {expect.shape} p={p}")
    if isinstance(R, ttb.sptensor):
        probs = ref.sptensor_problems(R)
        ctx.check(not probs, "permute-result-wellformed", probs)
        if probs:
            return
    ctx.check(ref.same_exact(ref.den(R), expect), "permute-index-map", ref.diff_info(ref.den(R), expect))
    with ctx.sut(f"{kind}.permute-inverse"):
        B = R.permute(np.array(inv(p)))
    ctx.check(tup(B.shape) == A.shape, "permute-roundtrip-shape")
    ctx.check(ref.same_exact(ref.den(B), A), "permute-roundtrip", ref.diff_info(ref.den(B), A))
    with ctx.sut(f"{kind}.isequal"):
        eq = B.isequal(X)
    ctx.check(eq, "permute-roundtrip-isequal")
    # order given as a plain list / tuple must mean the same
    with ctx.sut(f"{kind}.permute-list"):
        R2 = X.permute(list(p))
    ctx.check(ref.same_exact(ref.den(R2), expect), "permute-list-form")


@cell("C07/permute/tensor", strategy=_perm_dense, quick=1500, thorough=20000)
def permute_tensor(ctx, case):
    X = gen.build_tensor(case)
    ctx.label("prov-grown" if gen.is_grown(X) else "prov-ctor")
    _check_permute_exact(ctx, X, gen.arr_F(case["shape"], case["data"]), case["perm"], "tensor")


@cell("C07/permute/sptensor", strategy=_perm_sparse, quick=1500, thorough=20000)
def permute_sptensor(ctx, case):
    X = gen.build_sptensor(case)
    ctx.label("pattern-" + case["pattern"], "stored-" + case["order"])
    _check_permute_exact(ctx, X, gen.dense_of_sparse_case(case), case["perm"], "sptensor")


def _enum_perm(tier):
    """All N! orders for fixed small shapes with distinct sizes (N<=4), arange data."""
    shapes = [(2,), (2, 3), (3, 2, 4), (2, 3, 1), (2, 3, 4, 2), (1, 2, 3, 4), (2, 2, 3)]
    if tier == "thorough":
        shapes += [(2, 3, 4, 5), (3, 1, 2, 2), (4, 3, 2, 1), (2, 3, 2, 3, 2), (1, 2, 1, 3, 2)]
    for sh in shapes:
        n = ref.prod(sh)
        for p in itertools.permutations(range(len(sh))):
            for holder in ("tensor", "sptensor"):
                yield dict(shape=list(sh), perm=list(p), holder=holder, n=n)


@cell("C07/permute/enumerated", enum=_enum_perm)
def permute_enumerated(ctx, case):
    sh, p = case["shape"], case["perm"]
    data = [float(((i * 7) % 11) - 3) for i in range(case["n"])]  # distinct-ish values with zeros
    A = gen.arr_F(sh, data)
    if case["holder"] == "tensor":
        X = ttb.tensor(A.copy(order="F"), tuple(sh))
    else:
        sc = gen.sparse_case_from_dense(A)
        sc["subs"], sc["vals"] = sc["subs"][::-1], sc["vals"][::-1]
        X = gen.build_sptensor(sc)
    _check_permute_exact(ctx, X, A, p, case["holder"])


@st.composite
def _perm_kt(draw, tier):
    c = draw(gen.ktensor_case(tier, min_order=1))
    c["perm"] = list(draw(st.permutations(range(len(c["shape"])))))
    return c


@cell("C07/permute/ktensor", strategy=_perm_kt, quick=1000, thorough=12000)
def permute_ktensor(ctx, case):
    K = gen.build_ktensor(case)
    p = case["perm"]
    A = ref.den(K)
    ctx.label(*gen.shape_classes(A.shape))
    ctx.nt = _nt_perm(A.shape, p)
    with ctx.sut("ktensor.permute"):
        R = K.permute(np.array(p))
    ctx.require(isinstance(R, ttb.ktensor), "permute-returns-ktensor")
    expect = np.transpose(A, p)
    ctx.check(tup(R.shape) == expect.shape, "permute-shape")
    bound = np.transpose(ref.abs_kruskal(K.weights, K.factor_matrices), p)
    got = ref.den(R)
    ctx.check(ref.same_bound(got, expect, bound, case["rank"]), "permute-index-map", ref.diff_info(got, expect))
    # factor matrices are moved, not changed
    ok = all(np.array_equal(R.factor_matrices[i], K.factor_matrices[p[i]]) for i in range(len(p)))
    ctx.check(ok and np.array_equal(R.weights, K.weights), "permute-moves-factors-unchanged")
    with ctx.sut("ktensor.permute-inverse"):
        B = R.permute(np.array(inv(p)))
    with ctx.sut("ktensor.isequal"):
        ctx.check(B.isequal(K), "permute-roundtrip-isequal")
    # (dense / sparse holders of the same data are compared with the same reference in their own cells)


@st.composite
def _perm_tt(draw, tier):
    c = draw(gen.ttensor_case(tier, min_order=1))
    c["perm"] = list(draw(st.permutations(range(len(c["shape"])))))
    return c


@cell("C07/permute/ttensor", strategy=_perm_tt, quick=1000, thorough=12000)
def permute_ttensor(ctx, case):
    T = gen.build_ttensor(case)
    p = case["perm"]
    A = ref.den(T)
    ctx.label(*gen.shape_classes(A.shape), "sparse-core" if case["sparse_core"] else "dense-core")
    ctx.nt = _nt_perm(A.shape, p) or _nt_perm(case["cshape"], p)
    with ctx.sut("ttensor.permute"):
        R = T.permute(np.array(p))
    ctx.require(isinstance(R, ttb.ttensor), "permute-returns-ttensor")
    expect = np.transpose(A, p)
    ctx.check(tup(R.shape) == expect.shape, "permute-shape")
    bound = np.transpose(ref.den_tucker(np.abs(ref.den(T.core)), [np.abs(f) for f in T.factor_matrices]), p)
    got = ref.den(R)
    n = ref.prod(case["cshape"])
    ctx.check(ref.same_bound(got, expect, bound, n), "permute-index-map", ref.diff_info(got, expect))
    with ctx.sut("ttensor.permute-inverse"):
        B = R.permute(np.array(inv(p)))
    with ctx.sut("ttensor.isequal"):
        ctx.check(B.isequal(T), "permute-roundtrip-isequal")


# --------------------------------------------------------------------------
# reshape
# --------------------------------------------------------------------------


def factorizations(n: int, max_parts: int = 4):
    """All ordered tuples of 1..max_parts positive integers (ones included) with product n."""
    out = []

    def rec(rem, parts):
        if parts and rem == 1:
            out.append(list(parts))
        if len(parts) == max_parts:
            return
        for d in range(1, rem + 1):
            if rem % d == 0:
                rec(rem // d, parts + [d])

    rec(n, [])
    return out


@st.composite
def _target_shape(draw, n, max_parts=4):
    """A target shape with product n: factor n greedily with random divisors, sprinkle singletons."""
    parts = []
    rem = n
    while rem > 1 and len(parts) < max_parts - 1:
        divs = [d for d in range(1, rem + 1) if rem % d == 0]
        d = draw(st.sampled_from(divs))
        parts.append(d)
        rem //= d
    parts.append(rem)
    if len(parts) < max_parts and draw(st.booleans()):
        pos = draw(st.integers(0, len(parts)))
        parts.insert(pos, 1)
    return parts


@st.composite
def _reshape_dense(draw, tier):
    c = draw(gen.dense_case(tier, min_order=1))
    c["new"] = draw(_target_shape(ref.prod(c["shape"])))
    return c


def _nt_reshape(old, new):
    return tuple(old) != tuple(new) and len(set(old)) >= 2 and ref.prod(old) > 1


@cell("C07/reshape/tensor", strategy=_reshape_dense, quick=1500, thorough=20000)
def reshape_tensor(ctx, case):
    X = gen.build_tensor(case)
    ctx.label("prov-grown" if gen.is_grown(X) else "prov-ctor")
    A = gen.arr_F(case["shape"], case["data"])
    new = case["new"]
    ctx.nt = _nt_reshape(case["shape"], new)
    ctx.label(*gen.shape_classes(case["shape"]), f"to-order{len(new)}")
    with ctx.sut("tensor.reshape"):
        R = X.reshape(tuple(new))
    ctx.require(isinstance(R, ttb.tensor), "reshape-returns-tensor")
    expect = A.reshape(tuple(new), order="F")
    ctx.check(tup(R.shape) == tuple(new), "reshape-shape", tup(R.shape))
    ctx.check(ref.same_exact(ref.den(R), expect), "reshape-index-map", ref.diff_info(ref.den(R), expect))
    with ctx.sut("tensor.reshape-back"):
        B = R.reshape(tuple(case["shape"]))
    ctx.check(ref.same_exact(ref.den(B), A) and tup(B.shape) == A.shape, "reshape-roundtrip")
    # the original must still denote A (reshape returns a new object)
    ctx.check(ref.same_exact(ref.den(X), A), "reshape-leaves-operand")


@st.composite
def _reshape_sparse(draw, tier):
    c = draw(gen.sparse_case(tier, min_order=1))
    n = len(c["shape"])
    mode = draw(st.sampled_from(["all", "subset", "subset"]))
    if mode == "all":
        c["old_modes"] = None
        c["new"] = draw(_target_shape(ref.prod(c["shape"])))
    else:
        om = draw(gen.mode_subset(n, 1, n))
        c["old_modes"] = om
        c["new"] = draw(_target_shape(ref.prod(c["shape"][m] for m in om), max_parts=3))
    return c


@cell("C07/reshape/sptensor", strategy=_reshape_sparse, quick=1500, thorough=20000)
def reshape_sptensor(ctx, case):
    X = gen.build_sptensor(case)
    A = gen.dense_of_sparse_case(case)
    new, om = case["new"], case["old_modes"]
    N = len(case["shape"])
    ctx.label("pattern-" + case["pattern"], "stored-" + case["order"], "old_modes-none" if om is None else
              ("old_modes-sorted" if om == sorted(om) else "old_modes-unsorted"))
    if om is None:
        keep = []
        sel = list(range(N))
    else:
        sel = list(om)
        keep = [m for m in range(N) if m not in sel]
    sel_shape = [case["shape"][m] for m in sel]
    ctx.nt = _nt_reshape(sel_shape, new) or (om is not None and om != sorted(om))
    with ctx.sut("sptensor.reshape"):
        R = X.reshape(tuple(new)) if om is None else X.reshape(tuple(new), np.array(om))
    ctx.require(isinstance(R, ttb.sptensor), "reshape-returns-sptensor")
    At = np.transpose(A, keep + sel)
    keep_shape = [case["shape"][m] for m in keep]
    expect = At.reshape(tuple(keep_shape + list(new)), order="F")
    ctx.check(tup(R.shape) == expect.shape, "reshape-shape", f"{tup(R.shape)} vs {expect.shape}")
    probs = ref.sptensor_problems(R)
    ctx.require(not probs, "reshape-result-wellformed", probs)
    ctx.check(ref.same_exact(ref.den(R), expect), "reshape-index-map", ref.diff_info(ref.den(R), expect))
    if om is None:
        with ctx.sut("sptensor.reshape-back"):
            B = R.reshape(tuple(case["shape"]))
        ctx.check(ref.same_exact(ref.den(B), A), "reshape-roundtrip")
        # the dense holder of the same data agrees
        with ctx.sut("tensor.reshape"):
            D = ttb.tensor(A.copy(order="F"), tuple(case["shape"])).reshape(tuple(new))
        ctx.check(ref.same_exact(ref.den(D), ref.den(R)), "reshape-dense-sparse-agree")
    elif om == sorted(om) and len(sel) >= 1:
        # reshape the trailing block back to the selected modes' shape: must equal the transposed original
        k = len(keep)
        with ctx.sut("sptensor.reshape-back"):
            B = R.reshape(tuple(sel_shape), np.arange(k, k + len(new)))
        ctx.check(ref.same_exact(ref.den(B), At), "reshape-roundtrip", ref.diff_info(ref.den(B), At))


def _enum_reshape(tier):
    ns = [1, 2, 4, 6, 8, 12] if tier == "quick" else [1, 2, 3, 4, 6, 8, 9, 12, 16, 18, 24]
    for n in ns:
        fs = factorizations(n, 4 if n <= 12 else 3)
        for old in fs:
            if len(old) > 3:
                continue
            for new in fs:
                yield dict(old=old, new=new, n=n)


@cell("C07/reshape/enumerated", enum=_enum_reshape, shards=(4, 16))
def reshape_enumerated(ctx, case):
    """every ordered factorisation of the element count as source (<=3 modes) and target (<=4 modes)"""
    old, new, n = case["old"], case["new"], case["n"]
    data = [float(((i * 5) % 7) - 2) for i in range(n)]
    A = gen.arr_F(old, data)
    ctx.nt = _nt_reshape(old, new)
    expect = A.reshape(tuple(new), order="F")
    with ctx.sut("tensor.reshape"):
        R = ttb.tensor(A.copy(order="F"), tuple(old)).reshape(tuple(new))
    ctx.check(tup(R.shape) == tuple(new), "reshape-shape")
    ctx.check(ref.same_exact(ref.den(R), expect), "reshape-index-map", ref.diff_info(ref.den(R), expect))
    S = gen.build_sptensor(gen.sparse_case_from_dense(A))
    with ctx.sut("sptensor.reshape"):
        RS = S.reshape(tuple(new))
    probs = ref.sptensor_problems(RS)
    ctx.require(not probs, "reshape-result-wellformed", probs)
    ctx.check(tup(RS.shape) == tuple(new), "reshape-shape")
    ctx.check(ref.same_exact(ref.den(RS), expect), "reshape-index-map", ref.diff_info(ref.den(RS), expect))


# --------------------------------------------------------------------------
# squeeze
# --------------------------------------------------------------------------


@st.composite
def _squeeze_case(draw, tier):
    sparse = draw(st.booleans())
    base = draw(gen.sparse_case(tier, min_order=1, max_order=3)) if sparse else draw(
        gen.dense_case(tier, min_order=1, max_order=3))
    # insert singleton modes on purpose (this changes nothing in the F-order data list)
    k = draw(st.integers(0, 2))
    shape = list(base["shape"])
    pos = []
    for _ in range(k):
        p = draw(st.integers(0, len(shape)))
        shape.insert(p, 1)
        pos.append(p)
        if sparse:
            for s in base["subs"]:
                s.insert(p, 0)
    base["shape"] = shape
    base["holder"] = "sptensor" if sparse else "tensor"
    if draw(st.integers(0, 9)) == 0:
        # all-singleton tensor
        base["shape"] = [1] * draw(st.integers(1, 4))
        v = draw(st.sampled_from([0.0, 2.0, -3.5]))
        if sparse:
            base["subs"] = [[0] * len(base["shape"])] if v != 0 else []
            base["vals"] = [v] if v != 0 else []
            base["pattern"] = "all" if v != 0 else "none"
        else:
            base["data"] = [v]
    return base


@cell("C07/squeeze", strategy=_squeeze_case, quick=1500, thorough=20000)
def squeeze(ctx, case):
    sparse = case["holder"] == "sptensor"
    if sparse:
        X = gen.build_sptensor(case)
        A = gen.dense_of_sparse_case(case)
    else:
        X = gen.build_tensor(case)
        A = gen.arr_F(case["shape"], case["data"])
    shape = case["shape"]
    ones = sum(1 for s in shape if s == 1)
    ctx.label(case["holder"], "all-singleton" if ones == len(shape) else ("some-singleton" if ones else "no-singleton"))
    ctx.nt = 0 < ones < len(shape)
    with ctx.sut(f"{case['holder']}.squeeze"):
        R = X.squeeze()
    expect = np.squeeze(A)
    if ones == len(shape):
        ctx.label("scalar-zero" if float(expect) == 0 else "scalar-nonzero")
        ctx.require(isinstance(R, (int, float, np.integer, np.floating)), "squeeze-all-singleton-gives-scalar",
                    type(R).__name__)
        ctx.check(float(R) == float(expect), "squeeze-scalar-value", f"{R} vs {float(expect)}")
        return
    ctx.require(type(R) is type(X), "squeeze-returns-same-class", type(R).__name__)
    ctx.check(tup(R.shape) == expect.shape, "squeeze-shape", f"{tup(R.shape)} vs {expect.shape}")
    if sparse:
        probs = ref.sptensor_problems(R)
        ctx.require(not probs, "squeeze-result-wellformed", probs)
    ctx.check(ref.same_exact(ref.den(R), expect), "squeeze-index-map", ref.diff_info(ref.den(R), expect))
