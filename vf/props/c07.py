"""C07 — permute, reshape and squeeze are exact index maps."""

from __future__ import annotations

import itertools

import numpy as np
from hypothesis import strategies as st

import pyttb as ttb

from .. import gen, ref
from ..core import cell

PROPERTY = "C07"
RULE = (
    "cases = (holder data, mode order | target shape | old_modes subset) drawn by Hypothesis, or the full "
    "enumeration of N! orders for N<=4; oracle = np.transpose / reshape(order='F') / np.squeeze on the array the "
    "operand denotes (exact equality for dense and sparse, rigorous rounding bound for Kruskal/Tucker), plus the "
    "inverse round trip.  Non-trivial: >=2 distinct mode sizes and a non-involutive order (permute), a target shape "
    "that splits or merges modes of different size (reshape), a singleton mode next to a non-singleton one (squeeze).  "
    "Operands are not only freshly constructed: dense tensors grown by assignment (C-ordered buffer) or held as int64, "
    "sparse tensors with explicitly stored zeros / int64 values / numpy.int64 shape entries, operands that are "
    "themselves the result of an earlier permute or reshape ('pre'), Kruskal tensors whose weights were absorbed "
    "(C-ordered factors), Tucker tensors with a grown core (copy=False) or a sparse core stored in reverse order with "
    "explicit zeros; orders / shapes / old_modes are passed in every accepted spelling (ndarray of several integer "
    "dtypes, row matrix, list, tuple, list of numpy integers, scalar for one mode); every operation is called twice "
    "on the same object (same answer, operand untouched); Kruskal / Tucker data are also scaled by 1e+6 / 1e-6.  "
    "Round 3: (several live objects) at the end of every dense / sparse cell the result is assigned to and the operand "
    "judged, then the operand is assigned to and the result judged; a permuted Kruskal tensor is re-parameterised in "
    "place, the core of a permuted Tucker tensor is assigned to.  (sizes above thresholds) cell huge-modes/sptensor: "
    "sparse tensors whose mode lengths are products of atoms from {2, 3, 4, 2**10, 2**20, 2**31, 2**31+1, 2**33-1, "
    "2**53+1, 2**53+3, 2**60} with the element count below 2**63, subscripts at 0, n-1, n/2, n/3, 2**53+1, 2**31 - "
    "permute / reshape (all modes regrouped from the same atoms, or a subset of modes) / squeeze judged by exact "
    "Python-integer index arithmetic; cell many-nonzeros/sptensor: 10001 .. 50000 stored entries in unsorted order "
    "against NumPy on the expanded array.  "
    "Round 4: (presentation of valid requests) cells presentations/{tensor,sptensor,factored}: one operand, one request, "
    "and every spelling of the mode order / target shape / old_modes the API accepts - list, tuple, ndarray of int64 / "
    "int32 / int16 / int8 / uint8 / uint16 / uint64, lists and tuples of NumPy integer scalars, row and column matrix, "
    "read-only array, strided view, and for a single entry a Python int, NumPy integer scalars and a 0-d array; "
    "old_modes omitted / None / by keyword / all modes in order - each judged against NumPy on the denoted array (hence "
    "against each other), with the same value dtype for every spelling, the argument and the operand left alone (dtype "
    "included).  Operands are held as ordinary callers hold them: values in float32 / int32 / uint8 / int64 (exact index "
    "maps: values must come back bit for bit), subscripts in int32 / int16 / int8 / uint8 / uint16 / uint64 (one mode of "
    "length 100 .. 257 in a quarter of the cases so that arithmetic in a narrow dtype would wrap), read-only buffers "
    "handed over with copy=False, strided and F-ordered views, C-ordered arrays, shapes given as list / ndarray / NumPy "
    "integers, factor matrices read-only / strided / C-ordered / in a tuple, sparse Tucker cores with narrow subscripts.  "
    "(state after a rejected request) cell rejected/history: histories of 2..5 steps on one receiver mixing valid permute / "
    "reshape / reshape-subset / squeeze steps with rejected ones (order too short / long / with a repeated, missing or "
    "negative mode / a matrix; shape with another element count, a dropped or extra mode, two negated entries, a float or "
    "zero entry; old_modes out of range / repeated / negative / a matrix); after each rejection the receiver is bit for "
    "bit what it was (shape, arrays, dtypes), well-formed, denotes the same array, and the next valid step is judged "
    "against the model as if the rejected step had not happened."
)
ASSUMPTIONS = [
    "oracle: numpy transpose/reshape/squeeze applied to the array reconstructed from the public attributes",
    "Kruskal/Tucker: compared within 64*n*eps*einsum(|.|) (no values change, but both sides are evaluated in floating point)",
    "derived operand states are produced through the public API only (assignment growth, the constructors, "
    "normalize(weight_factor=...), ttensor(..., copy=False), an earlier permute / reshape); when the preparing call "
    "itself fails the freshly constructed operand is used (the preparing operation is judged in its own cell)",
    "an explicitly stored zero of a sparse operand may be kept or dropped by the operation; the result must be "
    "well-formed otherwise and denote the right array",
    "integer dtypes: int64 for dense data and sparse values (integer-valued cases only); Kruskal / Tucker factors are "
    "documented as float and stay float64; float32 is left out (no rounding bound adapted to it)",
    "old_modes of sptensor.reshape is documented as ndarray or int: arrays (int64 / int32), python int and numpy "
    "integer scalars are used, no lists",
    "several live objects: on the unchanged tree no result of permute / reshape / squeeze shares memory with its "
    "operand (identity orders, unchanged shapes and tensors without singleton modes included)",
    "huge modes: element counts of 2**63 and more are rejected by sptensor.reshape ('Reshape must maintain tensor "
    "size': the count comparison overflows) and are not generated",
    "round 4: result dtypes are not prescribed, only that every spelling of the same request returns the same value "
    "dtype; float32 data is judged exactly (no arithmetic is involved) - only for the dense and sparse holders",
    "round 4: old_modes is also passed as list / tuple (parse_one_d is applied to it; the annotation says ndarray or int)",
    "round 4: when the constructor does not accept or does not preserve a presentation of the operand, the plainly "
    "constructed operand is used (label operand:fallback-plain; constructors belong to other properties)",
    "round 4: a mode order / old_modes / target shape is 'rejected' when any exception is raised; tensor.permute of a "
    "1-way tensor lets the order [1] through (a 1-based leftover, returns a copy) - not generated; a negative old_modes "
    "entry may be rejected or honoured the way Python counts from the end",
    "class 13 (reporting options / logging level) does not apply: permute, reshape and squeeze have no reporting options "
    "and do not log",
]


# --------------------------------------------------------------------------
# operands in derived states (class 1) and integer dtypes (class 2)
# --------------------------------------------------------------------------


@st.composite
def _dense_operand(draw, tier, **kw):
    """gen.dense_case (which draws prov ctor/grown) + dtype + 'pre': the operand is the result of an earlier
    permute / reshape of another tensor (the pre-image is constructed so that the operand denotes shape/data)."""
    c = draw(gen.dense_case(tier, **kw))
    if c["vkind"] == "int" and draw(st.integers(0, 2)) == 0:
        c["dt"] = "int64"
    _draw_pre(draw, c)
    return c


def _draw_pre(draw, c):
    pre = draw(st.sampled_from([None, None, None, "permute", "reshape"]))
    n = len(c["shape"])
    if pre == "permute" and n >= 2:
        c["pre"] = dict(op="permute", q=list(draw(st.permutations(range(n)))))
    elif pre == "reshape" and ref.prod(c["shape"]) >= 2:
        c["pre"] = dict(op="reshape", shape0=draw(_target_shape(ref.prod(c["shape"]))))


def _pre_image(A, pre):
    """array the earlier operation starts from, so that its result is A"""
    if pre["op"] == "permute":
        return np.transpose(A, inv(pre["q"]))
    return A.reshape(tuple(pre["shape0"]), order="F")


def _apply_pre(X0, pre, shape):
    return X0.permute(np.array(pre["q"])) if pre["op"] == "permute" else X0.reshape(tuple(shape))


def build_dense(ctx, case):
    """(X, A): dense operand and the array it denotes"""
    A = gen.arr_F(case["shape"], case["data"])
    pre = case.get("pre")
    A0 = _pre_image(A, pre) if pre else A
    c0 = dict(shape=list(A0.shape), data=[float(v) for v in A0.reshape(-1, order="F")], prov=case.get("prov"))
    if case.get("dt") == "int64":
        X = ttb.tensor(A0.astype(np.int64).copy(order="F"), tuple(A0.shape))
    else:
        X = gen.build_tensor(c0)
    if gen.is_grown(X):
        ctx.label("operand:grown")
    if pre:
        Y = None
        try:
            Y = _apply_pre(X, pre, case["shape"])
        except Exception:  # noqa: BLE001
            pass
        if isinstance(Y, ttb.tensor) and tup(Y.shape) == A.shape and ref.same_exact(ref.den(Y), A):
            X = Y
            ctx.label("operand:result-of-" + pre["op"])
        else:  # the preparing call misbehaved (judged in its own cell): fresh operand
            X = ttb.tensor(A.copy(order="F"), tuple(case["shape"]))
    if np.asarray(X.data).dtype.kind in "iu":
        ctx.label("operand:int64")
    return X, A


@st.composite
def _sparse_operand(draw, tier, **kw):
    c = draw(gen.sparse_case(tier, **kw))
    if c["vkind"] == "int" and draw(st.integers(0, 2)) == 0:
        c["dt"] = "int64"
    if draw(st.integers(0, 3)) == 0:
        A = gen.dense_of_sparse_case(c)
        zeros = [[int(i) for i in z] for z in np.argwhere(A == 0)]
        if zeros:
            k = draw(st.integers(1, min(2, len(zeros))))
            idx = draw(st.lists(st.integers(0, len(zeros) - 1), min_size=k, max_size=k, unique=True))
            c["ez"] = [[zeros[i], draw(st.integers(0, len(c["subs"])))] for i in idx]
    _draw_pre(draw, c)
    return c


def _sp_from(A, entries, dt):
    """sptensor from (subscript, value) pairs in the given stored order"""
    if not entries:
        return ttb.sptensor(shape=tuple(A.shape))
    subs = np.array([e[0] for e in entries], dtype=int).reshape(len(entries), A.ndim)
    vals = np.array([e[1] for e in entries], dtype=float).astype(dt).reshape(-1, 1)
    return ttb.sptensor(subs, vals, tuple(A.shape))


def build_sparse(ctx, case):
    """(X, A, has_explicit_zeros)"""
    A = gen.dense_of_sparse_case(case)
    entries = [(list(s), v) for s, v in zip(case["subs"], case["vals"])]
    for pos, at in case.get("ez") or []:
        entries.insert(min(at, len(entries)), (list(pos), 0.0))
    dt = np.int64 if case.get("dt") == "int64" else float
    pre = case.get("pre")
    X = _sp_from(A, entries, dt)
    if pre:
        # the stored entries of the pre-image, in the same stored order
        A0 = _pre_image(A, pre)
        if pre["op"] == "permute":
            iq = inv(pre["q"])
            e0 = [([s[iq[i]] for i in range(len(s))], v) for s, v in entries]
        else:
            e0 = [(_relin(s, A.shape, A0.shape), v) for s, v in entries]
        try:
            Y = _apply_pre(_sp_from(A0, e0, dt), pre, case["shape"])
            if (isinstance(Y, ttb.sptensor) and tup(Y.shape) == A.shape and not ref.sptensor_problems(Y, True)
                    and ref.same_exact(ref.den(Y), A)):
                X = Y
                ctx.label("operand:result-of-" + pre["op"])
        except Exception:  # noqa: BLE001
            pass
    ez = bool(X.vals.size and (np.asarray(X.vals) == 0).any())
    if ez:
        ctx.label("operand:explicit-zeros")
    if any(isinstance(n, np.integer) for n in X.shape):
        ctx.label("operand:numpy-int-shape")
    if X.vals.size and np.asarray(X.vals).dtype.kind in "iu":
        ctx.label("operand:int64")
    return X, A, ez


def _relin(sub, shape, shape0):
    i = ref.lin_index(sub, shape)
    out = []
    for n in shape0:
        out.append(i % n)
        i //= n
    return out


def _snapshot(X):
    if isinstance(X, ttb.sptensor):
        return (tup(X.shape), np.array(X.subs, copy=True), np.array(X.vals, copy=True))
    return (tup(X.shape), np.array(X.data, copy=True))


def _untouched(X, snap) -> bool:
    now = _snapshot(X)
    return now[0] == snap[0] and all(a.shape == b.shape and np.array_equal(a, b) for a, b in zip(now[1:], snap[1:]))


def _independent(ctx, X, snap, R, expect, name):
    """(round 3, several live objects) result and operand are separate objects: assign into the result and judge the
    operand, then assign into the operand and judge the result.  Changes the operand: call it last."""
    if expect.size == 0 or not snap[0]:
        return
    first_r, first_x = tuple(0 for _ in expect.shape), tuple(0 for _ in snap[0])
    with ctx.sut(f"{name}-result.setitem"):
        R[first_r] = 987654.0
    ctx.check(_untouched(X, snap), f"{name}-result-does-not-alias-operand")
    with ctx.sut(f"{name}-operand.setitem"):
        X[first_x] = -123456.0
    exp2 = np.array(expect, dtype=float)
    exp2[first_r] = 987654.0
    ctx.check(ref.same_exact(ref.den(R), exp2), f"{name}-operand-does-not-alias-result", ref.diff_info(ref.den(R), exp2))


ORDER_FORMS = ["array", "list", "tuple", "npint-list", "row2d", "int32", "uint8"]


def order_arg(p, form):
    """the mode order in one of the spellings parse_one_d documents"""
    if form == "list":
        return [int(i) for i in p]
    if form == "tuple":
        return tuple(int(i) for i in p)
    if form == "npint-list":
        return [np.int64(i) for i in p]
    if form == "row2d":
        return np.array([list(p)], dtype=int)
    if form == "int32":
        return np.array(p, dtype=np.int32)
    if form == "uint8":
        return np.array(p, dtype=np.uint8)
    if form == "scalar":
        return int(p[0])
    if form == "npint-scalar":
        return np.int64(p[0])
    return np.array(p, dtype=int)


def _order_form(draw, n):
    forms = ORDER_FORMS + (["scalar", "npint-scalar"] if n == 1 else [])
    return draw(st.sampled_from(["array", "array"] + forms))


SHAPE_FORMS = ["tuple", "list", "array", "npint-tuple", "int32"]


def shape_arg(new, form):
    if form == "list":
        return [int(i) for i in new]
    if form == "array":
        return np.array(new, dtype=int)
    if form == "int32":
        return np.array(new, dtype=np.int32)
    if form == "npint-tuple":
        return tuple(np.int64(i) for i in new)
    if form == "scalar":
        return int(new[0])
    return tuple(int(i) for i in new)


def _shape_form(draw, new):
    if len(new) == 1 and draw(st.booleans()):
        return "scalar"
    return draw(st.sampled_from(["tuple", "tuple"] + SHAPE_FORMS))


PREDICATES = {
    # known finding C07-F2: old_modes of sptensor.reshape given as a single integer
    "old_modes_scalar": lambda case: case.get("omform") in ("scalar", "npint-scalar"),
}


def tup(shape):
    return tuple(int(s) for s in shape)


def inv(p):
    q = [0] * len(p)
    for i, v in enumerate(p):
        q[v] = i
    return q


# --------------------------------------------------------------------------
# permute
# --------------------------------------------------------------------------


@st.composite
def _perm_dense(draw, tier):
    c = draw(_dense_operand(tier, min_order=1))
    c["perm"] = list(draw(st.permutations(range(len(c["shape"])))))
    c["pform"] = _order_form(draw, len(c["shape"]))
    return c


@st.composite
def _perm_sparse(draw, tier):
    c = draw(_sparse_operand(tier, min_order=1))
    c["perm"] = list(draw(st.permutations(range(len(c["shape"])))))
    c["pform"] = _order_form(draw, len(c["shape"]))
    return c


def _nt_perm(shape, p):
    return len(set(shape)) >= 2 and not gen.is_involution(p)


def _check_permute_exact(ctx, X, A, p, kind, pform="array", ez=False):
    ctx.label(*gen.shape_classes(A.shape), "involution" if gen.is_involution(p) else "non-involution",
              "order-as-" + pform)
    ctx.nt = _nt_perm(A.shape, p)
    snap = _snapshot(X)
    with ctx.sut(f"{kind}.permute"):
        R = X.permute(order_arg(p, pform))
    ctx.require(type(R) is type(X), "permute-returns-same-class", type(R).__name__)
    expect = np.transpose(A, p)
    ctx.check(tup(R.shape) == expect.shape, "permute-shape", f"{tup(R.shape)} vs {expect.shape} p={p}")
    if isinstance(R, ttb.sptensor):
        probs = ref.sptensor_problems(R, allow_explicit_zero=ez)
        ctx.check(not probs, "permute-result-wellformed", probs)
        if probs:
            return
    ctx.check(ref.same_exact(ref.den(R), expect), "permute-index-map", ref.diff_info(ref.den(R), expect))
    ctx.check(_untouched(X, snap), "permute-leaves-operand")
    with ctx.sut(f"{kind}.permute-inverse"):
        B = R.permute(np.array(inv(p)))
    ctx.check(tup(B.shape) == A.shape, "permute-roundtrip-shape")
    ctx.check(ref.same_exact(ref.den(B), A), "permute-roundtrip", ref.diff_info(ref.den(B), A))
    with ctx.sut(f"{kind}.isequal"):
        eq = B.isequal(X)
    ctx.check(eq, "permute-roundtrip-isequal")
    # the same call again on the same object, the order spelled as a plain list (or as an array): the same answer
    with ctx.sut(f"{kind}.permute-list"):
        R2 = X.permute(list(p) if pform != "list" else np.array(p))
    ctx.check(tup(R2.shape) == expect.shape and ref.same_exact(ref.den(R2), expect), "permute-list-form")
    ctx.check(_untouched(X, snap), "permute-leaves-operand")
    # the first result is not disturbed by the later calls either
    ctx.check(ref.same_exact(ref.den(R), expect), "permute-result-stable")
    _independent(ctx, X, snap, R, expect, "permute")


@cell("C07/permute/tensor", strategy=_perm_dense, quick=1500, thorough=20000)
def permute_tensor(ctx, case):
    X, A = build_dense(ctx, case)
    ctx.label("prov-grown" if gen.is_grown(X) else "prov-ctor")
    _check_permute_exact(ctx, X, A, case["perm"], "tensor", case.get("pform", "array"))


@cell("C07/permute/sptensor", strategy=_perm_sparse, quick=1500, thorough=20000)
def permute_sptensor(ctx, case):
    X, A, ez = build_sparse(ctx, case)
    ctx.label("pattern-" + case["pattern"], "stored-" + case["order"])
    _check_permute_exact(ctx, X, A, case["perm"], "sptensor", case.get("pform", "array"), ez)


def _enum_perm(tier):
    """All N! orders for fixed small shapes with distinct sizes (N<=4), arange data."""
    shapes = [(2,), (2, 3), (3, 2, 4), (2, 3, 1), (2, 3, 4, 2), (1, 2, 3, 4), (2, 2, 3)]
    if tier == "thorough":
        shapes += [(2, 3, 4, 5), (3, 1, 2, 2), (4, 3, 2, 1), (2, 3, 2, 3, 2), (1, 2, 1, 3, 2)]
    for sh in shapes:
        n = ref.prod(sh)
        for p in itertools.permutations(range(len(sh))):
            for holder in ("tensor", "sptensor"):
                yield dict(shape=list(sh), perm=list(p), holder=holder, n=n)


@cell("C07/permute/enumerated", enum=_enum_perm)
def permute_enumerated(ctx, case):
    sh, p = case["shape"], case["perm"]
    data = [float(((i * 7) % 11) - 3) for i in range(case["n"])]  # distinct-ish values with zeros
    A = gen.arr_F(sh, data)
    if case["holder"] == "tensor":
        X = ttb.tensor(A.copy(order="F"), tuple(sh))
    else:
        sc = gen.sparse_case_from_dense(A)
        sc["subs"], sc["vals"] = sc["subs"][::-1], sc["vals"][::-1]
        X = gen.build_sptensor(sc)
    _check_permute_exact(ctx, X, A, p, case["holder"])


SCALES = [1.0, 1.0, 1e6, 1e-6]


@st.composite
def _perm_kt(draw, tier):
    c = draw(gen.ktensor_case(tier, min_order=1))
    n = len(c["shape"])
    c["perm"] = list(draw(st.permutations(range(n))))
    c["pform"] = _order_form(draw, n)
    # derived state: weights absorbed into one factor / spread over all (leaves C-ordered factor matrices)
    c["absorb"] = draw(st.sampled_from([None, None, "all"] + list(range(n))))
    c["scale"] = draw(st.sampled_from(SCALES))
    return c


def build_kt(ctx, case):
    K = gen.build_ktensor(case)
    if case.get("scale", 1.0) != 1.0:
        K = ttb.ktensor([f.copy() for f in K.factor_matrices], K.weights * case["scale"])
        ctx.label(f"scale-{case['scale']:g}")
    ab = case.get("absorb")
    if ab is not None:
        try:
            K2 = K.copy().normalize(weight_factor=ab)
            if isinstance(K2, ttb.ktensor) and np.all(np.isfinite(ref.den(K2))):
                K = K2
        except Exception:  # noqa: BLE001  (normalize is judged by C08)
            pass
    if any(not f.flags["F_CONTIGUOUS"] for f in K.factor_matrices):
        ctx.label("operand:C-ordered-factors")
    return K


@cell("C07/permute/ktensor", strategy=_perm_kt, quick=1000, thorough=12000)
def permute_ktensor(ctx, case):
    K = build_kt(ctx, case)
    p = case["perm"]
    pform = case.get("pform", "array")
    A = ref.den(K)
    ctx.label(*gen.shape_classes(A.shape), "order-as-" + pform)
    ctx.nt = _nt_perm(A.shape, p)
    w0, f0 = K.weights.copy(), [f.copy() for f in K.factor_matrices]
    with ctx.sut("ktensor.permute"):
        R = K.permute(order_arg(p, pform))
    ctx.require(isinstance(R, ttb.ktensor), "permute-returns-ktensor")
    expect = np.transpose(A, p)
    ctx.check(tup(R.shape) == expect.shape, "permute-shape")
    bound = np.transpose(ref.abs_kruskal(K.weights, K.factor_matrices), p)
    got = ref.den(R)
    ctx.check(ref.same_bound(got, expect, bound, case["rank"]), "permute-index-map", ref.diff_info(got, expect))
    # factor matrices are moved, not changed
    ok = all(np.array_equal(R.factor_matrices[i], K.factor_matrices[p[i]]) for i in range(len(p)))
    ctx.check(ok and np.array_equal(R.weights, K.weights), "permute-moves-factors-unchanged")
    with ctx.sut("ktensor.permute-inverse"):
        B = R.permute(np.array(inv(p)))
    with ctx.sut("ktensor.isequal"):
        ctx.check(B.isequal(K), "permute-roundtrip-isequal")
    # second call on the same object: same answer, operand untouched
    with ctx.sut("ktensor.permute-again"):
        R2 = K.permute(list(p))
    ok2 = isinstance(R2, ttb.ktensor) and len(R2.factor_matrices) == len(p) and all(
        np.array_equal(a, b) for a, b in zip(R2.factor_matrices, R.factor_matrices)) and np.array_equal(R2.weights, R.weights)
    ctx.check(ok2, "permute-second-call-same")
    ctx.check(np.array_equal(K.weights, w0) and all(np.array_equal(a, b) for a, b in zip(K.factor_matrices, f0)),
              "permute-leaves-operand")
    # (round 3) the result is an object of its own: re-parameterising it in place does not reach the operand
    with ctx.sut("ktensor.permute-result-then-normalize-in-place"):
        R.normalize(weight_factor="all", normtype=1)
        R.fixsigns()
    ctx.check(np.array_equal(K.weights, w0) and all(np.array_equal(a, b) for a, b in zip(K.factor_matrices, f0)),
              "permute-result-does-not-alias-operand")
    # (dense / sparse holders of the same data are compared with the same reference in their own cells)


@st.composite
def _perm_tt(draw, tier):
    c = draw(gen.ttensor_case(tier, min_order=1))
    n = len(c["shape"])
    c["perm"] = list(draw(st.permutations(range(n))))
    c["pform"] = _order_form(draw, n)
    # derived states of the core: grown by assignment and handed over with copy=False; sparse core stored in reverse
    # order / with an explicitly stored zero
    c["core_prov"] = draw(st.sampled_from(["ctor", "ctor", "grown", "reverse", "ez"]))
    c["scale"] = draw(st.sampled_from(SCALES))
    return c


def build_tt(ctx, case):
    sc = case.get("scale", 1.0)
    core = gen.arr_F(case["cshape"], case["core"]) * sc
    if sc != 1.0:
        ctx.label(f"scale-{sc:g}")
    fm = [np.array(f, dtype=float).reshape(s, c) for f, s, c in zip(case["factors"], case["shape"], case["cshape"])]
    prov = case.get("core_prov", "ctor")
    if case.get("sparse_core"):
        entries = [(list(s), float(core[s])) for s in ref.all_subs_F(core.shape) if core[s] != 0]
        if prov in ("reverse", "ez"):
            entries = entries[::-1]
        if prov == "ez":
            zeros = [list(s) for s in ref.all_subs_F(core.shape) if core[s] == 0]
            if zeros:
                entries.insert(len(entries) // 2, (zeros[0], 0.0))
                ctx.label("core:explicit-zero")
        c = _sp_from(core, entries, float)
        if prov in ("reverse", "ez") and len(entries) > 1:
            ctx.label("core:sparse-unsorted")
        return ttb.ttensor(c, fm)
    if prov == "grown":
        c = gen.build_tensor(dict(shape=list(case["cshape"]), data=[float(v) for v in core.reshape(-1, order="F")], prov="grown"))
        if gen.is_grown(c):
            T = ttb.ttensor(c, fm, copy=False)
            if gen.is_grown(T.core):
                ctx.label("core:grown")
            return T
    return ttb.ttensor(ttb.tensor(core.copy(order="F"), tuple(case["cshape"])), fm)


@cell("C07/permute/ttensor", strategy=_perm_tt, quick=1000, thorough=12000)
def permute_ttensor(ctx, case):
    T = build_tt(ctx, case)
    p = case["perm"]
    pform = case.get("pform", "array")
    A = ref.den(T)
    ctx.label(*gen.shape_classes(A.shape), "sparse-core" if case["sparse_core"] else "dense-core", "order-as-" + pform)
    ctx.nt = _nt_perm(A.shape, p) or _nt_perm(case["cshape"], p)
    csnap = _snapshot(T.core)
    with ctx.sut("ttensor.permute"):
        R = T.permute(order_arg(p, pform))
    ctx.require(isinstance(R, ttb.ttensor), "permute-returns-ttensor")
    expect = np.transpose(A, p)
    ctx.check(tup(R.shape) == expect.shape, "permute-shape")
    bound = np.transpose(ref.den_tucker(np.abs(ref.den(T.core)), [np.abs(f) for f in T.factor_matrices]), p)
    got = ref.den(R)
    n = ref.prod(case["cshape"])
    ctx.check(ref.same_bound(got, expect, bound, n), "permute-index-map", ref.diff_info(got, expect))
    with ctx.sut("ttensor.permute-inverse"):
        B = R.permute(np.array(inv(p)))
    with ctx.sut("ttensor.isequal"):
        ctx.check(B.isequal(T), "permute-roundtrip-isequal")
    with ctx.sut("ttensor.permute-again"):
        R2 = T.permute(list(p))
    ctx.check(isinstance(R2, ttb.ttensor) and ref.same_exact(ref.den(R2), got), "permute-second-call-same")
    ctx.check(_untouched(T.core, csnap), "permute-leaves-operand")
    # (round 3) the result has a core of its own: assigning into it does not reach the operand's core
    if ref.prod(case["cshape"]):
        with ctx.sut("ttensor.permute-result-core.setitem"):
            R.core[tuple(0 for _ in case["cshape"])] = 987654.0
        ctx.check(_untouched(T.core, csnap), "permute-result-does-not-alias-operand")


# --------------------------------------------------------------------------
# reshape
# --------------------------------------------------------------------------


def factorizations(n: int, max_parts: int = 4):
    """All ordered tuples of 1..max_parts positive integers (ones included) with product n."""
    out = []

    def rec(rem, parts):
        if parts and rem == 1:
            out.append(list(parts))
        if len(parts) == max_parts:
            return
        for d in range(1, rem + 1):
            if rem % d == 0:
                rec(rem // d, parts + [d])

    rec(n, [])
    return out


@st.composite
def _target_shape(draw, n, max_parts=4):
    """A target shape with product n: factor n greedily with random divisors, sprinkle singletons."""
    if draw(st.integers(0, 7)) == 0:
        return [n]  # flatten to a vector
    parts = []
    rem = n
    while rem > 1 and len(parts) < max_parts - 1:
        divs = [d for d in range(1, rem + 1) if rem % d == 0]
        d = draw(st.sampled_from(divs))
        parts.append(d)
        rem //= d
    parts.append(rem)
    if len(parts) < max_parts and draw(st.booleans()):
        pos = draw(st.integers(0, len(parts)))
        parts.insert(pos, 1)
    return parts


@st.composite
def _reshape_dense(draw, tier):
    c = draw(_dense_operand(tier, min_order=1))
    c["new"] = draw(_target_shape(ref.prod(c["shape"])))
    c["sform"] = _shape_form(draw, c["new"])
    return c


def _nt_reshape(old, new):
    return tuple(old) != tuple(new) and len(set(old)) >= 2 and ref.prod(old) > 1


@cell("C07/reshape/tensor", strategy=_reshape_dense, quick=1500, thorough=20000)
def reshape_tensor(ctx, case):
    X, A = build_dense(ctx, case)
    ctx.label("prov-grown" if gen.is_grown(X) else "prov-ctor")
    new = case["new"]
    sform = case.get("sform", "tuple")
    ctx.nt = _nt_reshape(case["shape"], new)
    ctx.label(*gen.shape_classes(case["shape"]), f"to-order{len(new)}", "shape-as-" + sform)
    snap = _snapshot(X)
    with ctx.sut("tensor.reshape"):
        R = X.reshape(shape_arg(new, sform))
    ctx.require(isinstance(R, ttb.tensor), "reshape-returns-tensor")
    expect = A.reshape(tuple(new), order="F")
    ctx.check(tup(R.shape) == tuple(new), "reshape-shape", tup(R.shape))
    ctx.check(ref.same_exact(ref.den(R), expect), "reshape-index-map", ref.diff_info(ref.den(R), expect))
    with ctx.sut("tensor.reshape-back"):
        B = R.reshape(tuple(case["shape"]))
    ctx.check(ref.same_exact(ref.den(B), A) and tup(B.shape) == A.shape, "reshape-roundtrip")
    # the original must still denote A (reshape returns a new object), and a second call gives the same answer
    ctx.check(ref.same_exact(ref.den(X), A) and _untouched(X, snap), "reshape-leaves-operand")
    with ctx.sut("tensor.reshape-again"):
        R2 = X.reshape(tuple(new))
    ctx.check(isinstance(R2, ttb.tensor) and tup(R2.shape) == tuple(new) and ref.same_exact(ref.den(R2), expect),
              "reshape-second-call-same")
    ctx.check(ref.same_exact(ref.den(R), expect), "reshape-result-stable")
    _independent(ctx, X, snap, R, expect, "reshape")


@st.composite
def _reshape_sparse(draw, tier):
    c = draw(_sparse_operand(tier, min_order=1))
    n = len(c["shape"])
    mode = draw(st.sampled_from(["all", "subset", "subset"]))
    if mode == "all":
        c["old_modes"] = None
        c["new"] = draw(_target_shape(ref.prod(c["shape"])))
        c["omform"] = None
    else:
        om = draw(gen.mode_subset(n, 1, n))
        c["old_modes"] = om
        c["new"] = draw(_target_shape(ref.prod(c["shape"][m] for m in om), max_parts=3))
        c["omform"] = draw(st.sampled_from(["array", "array", "int32"] + (["scalar", "npint-scalar"] if len(om) == 1 else [])))
    c["sform"] = _shape_form(draw, c["new"])
    return c


@cell("C07/reshape/sptensor", strategy=_reshape_sparse, quick=1500, thorough=20000)
def reshape_sptensor(ctx, case):
    X, A, ez = build_sparse(ctx, case)
    new, om = case["new"], case["old_modes"]
    sform, omform = case.get("sform", "tuple"), case.get("omform") or "array"
    N = len(case["shape"])
    ctx.label("pattern-" + case["pattern"], "stored-" + case["order"], "old_modes-none" if om is None else
              ("old_modes-sorted" if om == sorted(om) else "old_modes-unsorted"), "shape-as-" + sform)
    if om is not None:
        ctx.label("old_modes-as-" + omform)
    if om is None:
        keep = []
        sel = list(range(N))
    else:
        sel = list(om)
        keep = [m for m in range(N) if m not in sel]
    sel_shape = [case["shape"][m] for m in sel]
    ctx.nt = _nt_reshape(sel_shape, new) or (om is not None and om != sorted(om))
    snap = _snapshot(X)
    with ctx.sut("sptensor.reshape"):
        R = X.reshape(shape_arg(new, sform)) if om is None else X.reshape(shape_arg(new, sform), order_arg(om, omform))
    ctx.require(isinstance(R, ttb.sptensor), "reshape-returns-sptensor")
    At = np.transpose(A, keep + sel)
    keep_shape = [case["shape"][m] for m in keep]
    expect = At.reshape(tuple(keep_shape + list(new)), order="F")
    ctx.check(tup(R.shape) == expect.shape, "reshape-shape", f"{tup(R.shape)} vs {expect.shape}")
    probs = ref.sptensor_problems(R, allow_explicit_zero=ez)
    ctx.require(not probs, "reshape-result-wellformed", probs)
    ctx.check(ref.same_exact(ref.den(R), expect), "reshape-index-map", ref.diff_info(ref.den(R), expect))
    ctx.check(_untouched(X, snap), "reshape-leaves-operand")
    if om is None:
        with ctx.sut("sptensor.reshape-back"):
            B = R.reshape(tuple(case["shape"]))
        ctx.check(ref.same_exact(ref.den(B), A), "reshape-roundtrip")
        # the dense holder of the same data agrees
        with ctx.sut("tensor.reshape"):
            D = ttb.tensor(A.copy(order="F"), tuple(case["shape"])).reshape(tuple(new))
        ctx.check(ref.same_exact(ref.den(D), ref.den(R)), "reshape-dense-sparse-agree")
    elif om == sorted(om) and len(sel) >= 1:
        # reshape the trailing block back to the selected modes' shape: must equal the transposed original
        k = len(keep)
        with ctx.sut("sptensor.reshape-back"):
            B = R.reshape(tuple(sel_shape), np.arange(k, k + len(new)))
        ctx.check(ref.same_exact(ref.den(B), At), "reshape-roundtrip", ref.diff_info(ref.den(B), At))
    # second call on the same object
    with ctx.sut("sptensor.reshape-again"):
        R2 = X.reshape(tuple(new)) if om is None else X.reshape(tuple(new), np.array(om))
    ctx.check(isinstance(R2, ttb.sptensor) and tup(R2.shape) == expect.shape and ref.same_exact(ref.den(R2), expect),
              "reshape-second-call-same")
    ctx.check(_untouched(X, snap), "reshape-leaves-operand")
    ctx.check(ref.same_exact(ref.den(R), expect), "reshape-result-stable")
    _independent(ctx, X, snap, R, expect, "reshape")


def _enum_reshape(tier):
    ns = [1, 2, 4, 6, 8, 12] if tier == "quick" else [1, 2, 3, 4, 6, 8, 9, 12, 16, 18, 24]
    for n in ns:
        fs = factorizations(n, 4 if n <= 12 else 3)
        for old in fs:
            if len(old) > 3:
                continue
            for new in fs:
                yield dict(old=old, new=new, n=n)


@cell("C07/reshape/enumerated", enum=_enum_reshape, shards=(4, 16))
def reshape_enumerated(ctx, case):
    """every ordered factorisation of the element count as source (<=3 modes) and target (<=4 modes)"""
    old, new, n = case["old"], case["new"], case["n"]
    data = [float(((i * 5) % 7) - 2) for i in range(n)]
    A = gen.arr_F(old, data)
    ctx.nt = _nt_reshape(old, new)
    expect = A.reshape(tuple(new), order="F")
    with ctx.sut("tensor.reshape"):
        R = ttb.tensor(A.copy(order="F"), tuple(old)).reshape(tuple(new))
    ctx.check(tup(R.shape) == tuple(new), "reshape-shape")
    ctx.check(ref.same_exact(ref.den(R), expect), "reshape-index-map", ref.diff_info(ref.den(R), expect))
    S = gen.build_sptensor(gen.sparse_case_from_dense(A))
    with ctx.sut("sptensor.reshape"):
        RS = S.reshape(tuple(new))
    probs = ref.sptensor_problems(RS)
    ctx.require(not probs, "reshape-result-wellformed", probs)
    ctx.check(tup(RS.shape) == tuple(new), "reshape-shape")
    ctx.check(ref.same_exact(ref.den(RS), expect), "reshape-index-map", ref.diff_info(ref.den(RS), expect))


# --------------------------------------------------------------------------
# squeeze
# --------------------------------------------------------------------------


@st.composite
def _squeeze_case(draw, tier):
    sparse = draw(st.booleans())
    base = draw(gen.sparse_case(tier, min_order=1, max_order=3)) if sparse else draw(
        gen.dense_case(tier, min_order=1, max_order=3))
    # insert singleton modes on purpose (this changes nothing in the F-order data list)
    k = draw(st.integers(0, 2))
    shape = list(base["shape"])
    pos = []
    for _ in range(k):
        p = draw(st.integers(0, len(shape)))
        shape.insert(p, 1)
        pos.append(p)
        if sparse:
            for s in base["subs"]:
                s.insert(p, 0)
    base["shape"] = shape
    base["holder"] = "sptensor" if sparse else "tensor"
    if draw(st.integers(0, 9)) == 0:
        # all-singleton tensor
        base["shape"] = [1] * draw(st.integers(1, 4))
        v = draw(st.sampled_from([0.0, 2.0, -3.5]))
        if sparse:
            base["subs"] = [[0] * len(base["shape"])] if v != 0 else []
            base["vals"] = [v] if v != 0 else []
            base["pattern"] = "all" if v != 0 else "none"
            if v == 0 and draw(st.booleans()):
                base["ez"] = [[[0] * len(base["shape"]), 0]]  # the single entry is an explicitly stored zero
        else:
            base["data"] = [v]
            base["prov"] = "ctor"
    else:
        # derived states / dtypes (after the singleton modes are in place)
        if base["vkind"] == "int" and draw(st.integers(0, 2)) == 0 and all(float(v).is_integer() for v in (
                base["vals"] if sparse else base["data"])):
            base["dt"] = "int64"
        if sparse and draw(st.integers(0, 3)) == 0:
            A = gen.dense_of_sparse_case(base)
            zeros = [[int(i) for i in z] for z in np.argwhere(A == 0)]
            if zeros:
                i = draw(st.integers(0, len(zeros) - 1))
                base["ez"] = [[zeros[i], draw(st.integers(0, len(base["subs"])))]]
        _draw_pre(draw, base)
    return base


@cell("C07/squeeze", strategy=_squeeze_case, quick=1500, thorough=20000)
def squeeze(ctx, case):
    sparse = case["holder"] == "sptensor"
    ez = False
    if sparse:
        X, A, ez = build_sparse(ctx, case)
    else:
        X, A = build_dense(ctx, case)
    shape = case["shape"]
    ones = sum(1 for s in shape if s == 1)
    ctx.label(case["holder"], "all-singleton" if ones == len(shape) else ("some-singleton" if ones else "no-singleton"))
    ctx.nt = 0 < ones < len(shape)
    snap = _snapshot(X)
    with ctx.sut(f"{case['holder']}.squeeze"):
        R = X.squeeze()
    expect = np.squeeze(A)
    if ones == len(shape):
        ctx.label("scalar-zero" if float(expect) == 0 else "scalar-nonzero")
        ctx.require(isinstance(R, (int, float, np.integer, np.floating)), "squeeze-all-singleton-gives-scalar",
                    type(R).__name__)
        ctx.check(float(R) == float(expect), "squeeze-scalar-value", f"{R} vs {float(expect)}")
        ctx.check(_untouched(X, snap), "squeeze-leaves-operand")
        return
    ctx.require(type(R) is type(X), "squeeze-returns-same-class", type(R).__name__)
    ctx.check(tup(R.shape) == expect.shape, "squeeze-shape", f"{tup(R.shape)} vs {expect.shape}")
    if sparse:
        probs = ref.sptensor_problems(R, allow_explicit_zero=ez)
        ctx.require(not probs, "squeeze-result-wellformed", probs)
    ctx.check(ref.same_exact(ref.den(R), expect), "squeeze-index-map", ref.diff_info(ref.den(R), expect))
    ctx.check(_untouched(X, snap), "squeeze-leaves-operand")
    # second call on the same object; squeezing the result again changes nothing
    with ctx.sut(f"{case['holder']}.squeeze-again"):
        R2 = X.squeeze()
        R3 = R.squeeze()
    for nm, Y in (("squeeze-second-call-same", R2), ("squeeze-idempotent", R3)):
        ctx.check(type(Y) is type(X) and tup(Y.shape) == expect.shape and ref.same_exact(ref.den(Y), expect), nm)
    ctx.check(ref.same_exact(ref.den(R), expect), "squeeze-result-stable")
    _independent(ctx, X, snap, R, expect, "squeeze")


# --------------------------------------------------------------------------
# (round 3) sizes above internal thresholds: huge sparse modes, many stored entries
# --------------------------------------------------------------------------
# Sparse tensors are made for modes far longer than anything that fits a dense array: mode lengths above 2**31 (int32)
# and above 2**53 (where float64 no longer holds every integer), with the element count kept below 2**63 so that a
# linear index still fits int64.  The oracle is exact Python-integer index arithmetic on the stored subscripts (no
# dense array).  A second cell uses moderately large tensors with 1e4 .. 5e4 stored entries against NumPy on the
# expanded array.

_ATOMS = [2, 2, 4, 3, 2 ** 10, 2 ** 20, 2 ** 31, 2 ** 31 + 1, 2 ** 33 - 1, 2 ** 53 + 1, 2 ** 53 + 3, 2 ** 60]


def _py_lin(sub, shape):
    i, m = 0, 1
    for s, n in zip(sub, shape):
        i += int(s) * m
        m *= int(n)
    return i


def _py_unlin(i, shape):
    out = []
    for n in shape:
        out.append(i % int(n))
        i //= int(n)
    return out


@st.composite
def _huge_case(draw, tier):
    # atoms whose product stays below 2**63; modes are products of adjacent atoms
    atoms, total = [], 1
    for _ in range(draw(st.integers(1, 6))):
        cand = [a for a in _ATOMS if total * a < 2 ** 63]
        if not cand:
            break
        a = draw(st.sampled_from(cand))
        atoms.append(a)
        total *= a
    def group(seq, cuts):
        out, cur = [], 1
        for i, a in enumerate(seq):
            cur *= a
            if i in cuts or i == len(seq) - 1:
                out.append(cur)
                cur = 1
        return out
    cuts = set(draw(st.lists(st.integers(0, max(0, len(atoms) - 2)), max_size=3))) if len(atoms) > 1 else set()
    shape = group(atoms, cuts)
    if draw(st.booleans()):
        shape.insert(draw(st.integers(0, len(shape))), 1)  # a singleton mode (squeeze)
    shape = shape[:5]
    total = ref.prod(shape)
    nnz = draw(st.sampled_from([1, 2, 3, 4, 5, 3, 0]))
    subs = []
    for _ in range(nnz):
        sub = []
        for n in shape:
            picks = [0, n - 1, n // 2, n // 3, min(n - 1, 2 ** 53 + 1), min(n - 1, 2 ** 31), draw(st.integers(0, n - 1))]
            sub.append(int(draw(st.sampled_from(picks))))
        if sub not in subs:
            subs.append(sub)
    vals = [draw(gen.NZ_INT_VALUES) for _ in subs]
    op = draw(st.sampled_from(["permute", "reshape", "reshape", "reshape-subset", "squeeze"]))
    c = dict(shape=[int(n) for n in shape], subs=subs, vals=vals, op=op)
    N = len(shape)
    if op == "permute":
        c["perm"] = list(draw(st.permutations(range(N))))
    elif op == "reshape":
        seq = list(draw(st.permutations(atoms)))
        cuts2 = set(draw(st.lists(st.integers(0, max(0, len(seq) - 2)), max_size=3))) if len(seq) > 1 else set()
        new = group(seq, cuts2) if seq else [1]
        c["new"] = [int(n) for n in new]
        if ref.prod(c["new"]) != total:
            c["new"] = [int(total)]
    elif op == "reshape-subset":
        om = draw(gen.mode_subset(N, 1, N))
        sel = [shape[m] for m in om]
        c["old_modes"] = om
        c["new"] = [int(x) for x in (list(draw(st.permutations(sel))) if draw(st.booleans()) else [ref.prod(sel)])]
    return c


@cell("C07/huge-modes/sptensor", strategy=_huge_case, quick=500, thorough=8000)
def huge_modes_sptensor(ctx, case):
    shape, subs, vals = case["shape"], case["subs"], case["vals"]
    N, op = len(shape), case["op"]
    big = max(shape)
    ctx.label("op-" + op, f"order{N}", "mode>2^53" if big > 2 ** 53 else ("mode>2^31" if big > 2 ** 31 else "modes-small"),
              "count>2^53" if ref.prod(shape) > 2 ** 53 else "count<=2^53", f"nnz{min(len(subs), 3)}")
    ctx.nt = big > 2 ** 31 and len(subs) >= 1
    if subs:
        X = ttb.sptensor(np.array(subs, dtype=np.int64).reshape(len(subs), N), np.array(vals, dtype=float).reshape(-1, 1),
                         tuple(shape))
    else:
        X = ttb.sptensor(shape=tuple(shape))
    entries = {tuple(s): float(v) for s, v in zip(subs, vals)}
    if op == "permute":
        p = case["perm"]
        with ctx.sut("sptensor.permute"):
            R = X.permute(np.array(p))
        eshape = [shape[i] for i in p]
        expect = {tuple(s[i] for i in p): v for s, v in entries.items()}
    elif op == "squeeze":
        with ctx.sut("sptensor.squeeze"):
            R = X.squeeze()
        keep = [i for i, n in enumerate(shape) if n != 1]
        if not keep:
            ctx.require(isinstance(R, (int, float, np.integer, np.floating)), "squeeze-all-singleton-gives-scalar", type(R).__name__)
            ctx.check(float(R) == float(sum(entries.values())), "squeeze-scalar-value", R)
            return
        eshape = [shape[i] for i in keep]
        expect = {tuple(s[i] for i in keep): v for s, v in entries.items()}
    else:
        new = case["new"]
        om = case.get("old_modes")
        sel = list(range(N)) if om is None else list(om)
        keep = [m for m in range(N) if m not in sel]
        with ctx.sut("sptensor.reshape"):
            R = X.reshape(tuple(new)) if om is None else X.reshape(tuple(new), np.array(om))
        eshape = [shape[m] for m in keep] + list(new)
        expect = {}
        for s, v in entries.items():
            lin = _py_lin([s[m] for m in sel], [shape[m] for m in sel])
            expect[tuple([s[m] for m in keep] + _py_unlin(lin, new))] = v
    ctx.require(isinstance(R, ttb.sptensor), f"{op}-returns-sptensor", type(R).__name__)
    ctx.check([int(n) for n in R.shape] == [int(n) for n in eshape], "huge-shape", f"{tuple(R.shape)} vs {eshape}")
    if R.subs.size:
        ctx.require(np.issubdtype(np.asarray(R.subs).dtype, np.integer), "huge-subscripts-are-integers", str(R.subs.dtype))
        got = {tuple(int(i) for i in r): float(v) for r, v in zip(np.asarray(R.subs), np.asarray(R.vals).reshape(-1))}
        ctx.check(len(got) == R.subs.shape[0], "huge-distinct-subscripts")
    else:
        got = {}
    ctx.check(got == expect, "huge-index-map", f"got {sorted(got.items())[:3]} expect {sorted(expect.items())[:3]}")
    # the operand is untouched
    now = {tuple(int(i) for i in r): float(v) for r, v in zip(np.asarray(X.subs), np.asarray(X.vals).reshape(-1))} if X.subs.size else {}
    ctx.check(now == entries and [int(n) for n in X.shape] == shape, "huge-leaves-operand")


@st.composite
def _many_case(draw, tier):
    shape = draw(st.sampled_from([[300, 200, 30], [1500, 900], [60, 50, 40, 10], [120000, 7], [250, 1, 400, 9]]))
    total = ref.prod(shape)
    nnz = draw(st.sampled_from([10001, 16385, 20000, 33000, 50000]))
    seed = draw(st.integers(0, 2 ** 16))
    op = draw(st.sampled_from(["permute", "reshape", "reshape-subset", "squeeze"]))
    c = dict(shape=shape, nnz=min(nnz, total // 2), seed=seed, op=op)
    N = len(shape)
    if op == "permute":
        c["perm"] = list(draw(st.permutations(range(N))))
    elif op == "reshape":
        c["new"] = draw(st.sampled_from([[total], [total // 2, 2], [2, total // 4, 2], [10, total // 10]]))
    elif op == "reshape-subset":
        c["old_modes"] = draw(gen.mode_subset(N, 1, N - 1))
        c["new"] = [ref.prod(shape[m] for m in c["old_modes"])]
    return c


@cell("C07/many-nonzeros/sptensor", strategy=_many_case, quick=3, thorough=40)
def many_nonzeros_sptensor(ctx, case):
    """1e4 .. 5e4 stored entries (positions: a fixed-stride walk through the linear indices, stored in that - unsorted -
    order), judged against NumPy on the expanded array"""
    shape, nnz, op = case["shape"], case["nnz"], case["op"]
    total = ref.prod(shape)
    stride = 2 * (case["seed"] % 1000) + 7919
    while np.gcd(stride, total) != 1:
        stride += 2
    lin = (case["seed"] + stride * np.arange(nnz, dtype=np.int64)) % total
    subs = np.array(np.unravel_index(lin, tuple(shape), order="F")).T.astype(np.int64)
    vals = ((np.arange(nnz) % 13) - 6.0)
    vals[vals == 0] = 7.0
    X = ttb.sptensor(subs.copy(), vals.reshape(-1, 1).copy(), tuple(shape))
    A = np.zeros(tuple(shape))
    A[tuple(subs.T)] = vals
    N = len(shape)
    ctx.label("op-" + op, f"nnz>={nnz // 10000}e4")
    ctx.nt = True
    if op == "permute":
        with ctx.sut("sptensor.permute"):
            R = X.permute(np.array(case["perm"]))
        expect = np.transpose(A, case["perm"])
    elif op == "squeeze":
        with ctx.sut("sptensor.squeeze"):
            R = X.squeeze()
        expect = np.squeeze(A)
    else:
        om = case.get("old_modes")
        sel = list(range(N)) if om is None else list(om)
        keep = [m for m in range(N) if m not in sel]
        with ctx.sut("sptensor.reshape"):
            R = X.reshape(tuple(case["new"])) if om is None else X.reshape(tuple(case["new"]), np.array(om))
        expect = np.transpose(A, keep + sel).reshape(tuple([shape[m] for m in keep] + list(case["new"])), order="F")
    ctx.require(isinstance(R, ttb.sptensor), f"{op}-returns-sptensor", type(R).__name__)
    ctx.require(tup(R.shape) == expect.shape, "many-shape", f"{tup(R.shape)} vs {expect.shape}")
    rs, rv = np.asarray(R.subs), np.asarray(R.vals).reshape(-1)
    ctx.require(rs.ndim == 2 and rs.shape == (nnz, expect.ndim) and np.issubdtype(rs.dtype, np.integer)
                and bool((rs >= 0).all()) and bool((rs < np.array(expect.shape)).all()), "many-result-wellformed", rs.shape)
    B = np.zeros(expect.shape)
    np.add.at(B, tuple(rs.T), rv)
    ctx.check(len(np.unique(np.ravel_multi_index(tuple(rs.T), expect.shape))) == nnz, "many-distinct-subscripts")
    ctx.check(np.array_equal(B, expect), "many-index-map", ref.diff_info(B, expect))
    ctx.check(np.array_equal(np.asarray(X.subs), subs) and np.array_equal(np.asarray(X.vals).reshape(-1), vals), "many-leaves-operand")


# --------------------------------------------------------------------------
# (round 4, class 11) how the caller presents a valid request
# --------------------------------------------------------------------------
# One operand, one request (a mode order / a target shape / an old_modes subset), every spelling of it the API accepts:
# list, tuple, ndarray of int64 / int32 / int16 / int8 / uint8 / uint16 / uint64, lists and tuples of NumPy integer
# scalars, a row or a column matrix, a read-only array, a strided view, and - for a request of length one - a bare
# Python int, NumPy integer scalars and a 0-d array.  The operand itself is presented the way ordinary callers hold
# data: float32 / int32 / uint8 / int64 values (permute, reshape and squeeze move entries and change no value, so the
# values must come back bit for bit whatever the dtype), subscripts in int32 / uint8 / uint16 / uint64 / int8, arrays
# that are read-only (handed over with copy=False) or non-contiguous strided views, shapes given as list / ndarray /
# NumPy integers.  Every presentation must give the reference answer (NumPy on the denoted array), hence the same
# answer as every other presentation, in the same value dtype, and must leave the operand and the argument alone.

_IDT = dict(int64=np.int64, int32=np.int32, int16=np.int16, int8=np.int8, uint8=np.uint8, uint16=np.uint16,
            uint64=np.uint64)


def _fits(v, dt):
    info = np.iinfo(_IDT[dt])
    return all(info.min <= int(x) <= info.max for x in v)


def _strided(a):
    """a non-contiguous view with the same content as the 1-D array a"""
    big = np.full(2 * a.size + 1, 99, dtype=a.dtype)
    big[1::2] = a
    return big[1::2]


def int_forms(v):
    """[(name, factory)]: every presentation of the integer sequence v; the factory builds a fresh argument"""
    v = [int(x) for x in v]
    out = [("list", lambda: list(v)), ("tuple", lambda: tuple(v))]
    for dt in _IDT:
        if _fits(v, dt):
            out.append(("array-" + dt, lambda dt=dt: np.array(v, dtype=_IDT[dt])))
    for dt in ("int64", "int32", "uint8", "uint64"):
        if _fits(v, dt):
            out.append(("list-of-np." + dt, lambda dt=dt: [_IDT[dt](x) for x in v]))
            out.append(("tuple-of-np." + dt, lambda dt=dt: tuple(_IDT[dt](x) for x in v)))
    out.append(("row-matrix", lambda: np.array([v], dtype=np.int64).reshape(1, len(v))))
    out.append(("column-matrix", lambda: np.array(v, dtype=np.int64).reshape(len(v), 1)))

    def ro():
        a = np.array(v, dtype=np.int64)
        a.setflags(write=False)
        return a

    out.append(("array-readonly", ro))
    out.append(("array-strided", lambda: _strided(np.array(v, dtype=np.int64))))
    out.append(("array-strided-int32", lambda: _strided(np.array(v, dtype=np.int32))))
    if len(v) == 1:
        out.append(("python-int", lambda: int(v[0])))
        for dt in ("int64", "int32", "uint8", "uint64"):
            if _fits(v, dt):
                out.append(("np." + dt + "-scalar", lambda dt=dt: _IDT[dt](v[0])))
        out.append(("0d-array", lambda: np.array(v[0], dtype=np.int64)))
    return out


def _arg_intact(arg, v):
    """the caller's argument still holds v (pyttb must not write into what it was given)"""
    try:
        return [int(x) for x in np.asarray(arg).reshape(-1)] == [int(x) for x in v]
    except Exception:  # noqa: BLE001
        return False


VDT = dict(float64=np.float64, float32=np.float32, int64=np.int64, int32=np.int32, uint8=np.uint8)


def _values_as(data, vdt):
    """the generated values as they are once held in dtype vdt (uint8: magnitudes)"""
    a = np.array(data, dtype=float)
    if vdt == "uint8":
        a = np.abs(a)
    return a.astype(VDT[vdt])


@st.composite
def _vdt(draw, vkind, ints=("int64", "int32", "uint8")):
    if vkind == "int":
        return draw(st.sampled_from(["float64", "float32"] + list(ints)))
    return draw(st.sampled_from(["float64", "float32", "float32"]))


DENSE_MEM = ["plain", "readonly-nocopy", "readonly", "strided", "strided-nocopy", "C-ordered", "flat+shape"]


def _present_dense(ctx, A, mem, shform):
    """dense tensor denoting A, built from the presentation `mem` of the caller's array"""
    sh = tuple(A.shape)
    if mem == "readonly-nocopy":
        a = np.asfortranarray(A.copy())
        a.setflags(write=False)
        return ttb.tensor(a, copy=False)
    if mem == "readonly":
        a = A.copy()
        a.setflags(write=False)
        return ttb.tensor(a)
    if mem in ("strided", "strided-nocopy"):
        big = np.full(tuple(2 * n + 1 for n in sh), 77, dtype=A.dtype, order="F" if mem == "strided-nocopy" else "C")
        view = big[tuple(slice(1, None, 2) for _ in sh)]
        view[...] = A
        return ttb.tensor(view, copy=False) if mem == "strided-nocopy" else ttb.tensor(view)
    if mem == "C-ordered":
        return ttb.tensor(np.ascontiguousarray(A))
    if mem == "flat+shape":
        forms = dict(int_forms(sh))
        return ttb.tensor(A.reshape(-1, order="F").copy(), forms.get(shform, forms["tuple"])())
    return ttb.tensor(A.copy(order="F"), sh)


@st.composite
def _pres_dense(draw, tier):
    c = draw(gen.dense_case(tier, min_order=1))
    c["vdt"] = draw(_vdt(c["vkind"]))
    c["mem"] = draw(st.sampled_from(DENSE_MEM))
    c["shform"] = draw(st.sampled_from(["tuple", "list", "array-uint8", "array-int32", "tuple-of-np.int32", "array-uint64"]))
    c["perm"] = list(draw(st.permutations(range(len(c["shape"])))))
    c["new"] = draw(_target_shape(ref.prod(c["shape"])))
    if draw(st.integers(0, 3)) == 0:
        c["new"] = [ref.prod(c["shape"])]  # the 1-way target, where a bare int is accepted
    if draw(st.integers(0, 2)) == 0 and len(c["shape"]) < 5:
        # a singleton mode for squeeze (F-order data list unchanged)
        c["shape"].insert(draw(st.integers(0, len(c["shape"]))), 1)
        c["perm"] = list(draw(st.permutations(range(len(c["shape"])))))
    return c


def _vals_equal(got, expect):
    got, expect = np.asarray(got), np.asarray(expect)
    return got.shape == expect.shape and bool(np.array_equal(got.astype(np.float64), expect.astype(np.float64)))


@cell("C07/presentations/tensor", strategy=_pres_dense, quick=200, thorough=2000)
def presentations_tensor(ctx, case):
    shape = case["shape"]
    A = np.reshape(_values_as(case["data"], case["vdt"]), tuple(shape), order="F")
    X = None
    try:
        X = _present_dense(ctx, A, case["mem"], case["shform"])
    except Exception:  # noqa: BLE001  (the constructor is judged elsewhere)
        pass
    if not (isinstance(X, ttb.tensor) and tup(X.shape) == A.shape and _vals_equal(X.data, A)):
        X = ttb.tensor(A.copy(order="F"), tuple(shape))
        ctx.label("operand:fallback-plain")
    else:
        ctx.label("operand-mem:" + case["mem"])
    ctx.label("operand-values:" + str(np.asarray(X.data).dtype), *gen.shape_classes(shape))
    if not np.asarray(X.data).flags["WRITEABLE"]:
        ctx.label("operand:read-only-buffer")
    p, new = case["perm"], case["new"]
    ctx.nt = _nt_perm(shape, p) or _nt_reshape(shape, new)
    snap = _snapshot(X)
    dt0 = np.asarray(X.data).dtype
    reqs = [("permute", p, np.transpose(A, p), lambda a: X.permute(a)),
            ("reshape", new, A.reshape(tuple(new), order="F"), lambda a: X.reshape(a))]
    for op, v, expect, call in reqs:
        first = None
        for name, make in int_forms(v):
            arg = make()
            ctx.label(f"{op}:{name}")
            with ctx.sut(f"tensor.{op}[{name}]"):
                R = call(arg)
            ok = isinstance(R, ttb.tensor) and tup(R.shape) == expect.shape and _vals_equal(R.data, expect)
            ctx.check(ok, f"{op}-presentation-gives-reference-answer", f"{name}: " + (
                ref.diff_info(ref.den(R), expect.astype(float)) if isinstance(R, ttb.tensor) else type(R).__name__))
            ctx.check(_arg_intact(arg, v), f"{op}-leaves-argument", name)
            if isinstance(R, ttb.tensor):
                rdt = np.asarray(R.data).dtype
                first = first or (name, rdt)
                ctx.check(rdt == first[1], f"{op}-presentations-agree-on-dtype", f"{name}:{rdt} vs {first[0]}:{first[1]}")
                ctx.check(all(type(n) is int for n in R.shape) or not all(type(n) is int for n in X.shape),
                          f"{op}-shape-entries-plain-ints", name)
            ctx.check(_untouched(X, snap) and np.asarray(X.data).dtype == dt0, f"{op}-leaves-operand", name)
    # squeeze has no argument: the operand's presentation is the variable
    with ctx.sut("tensor.squeeze"):
        R = X.squeeze()
    expect = np.squeeze(A)
    if expect.ndim == 0:
        ctx.check(isinstance(R, (int, float, np.integer, np.floating)) and float(R) == float(expect),
                  "squeeze-presentation-gives-reference-answer", R)
    else:
        ctx.check(isinstance(R, ttb.tensor) and tup(R.shape) == expect.shape and _vals_equal(R.data, expect),
                  "squeeze-presentation-gives-reference-answer")
    ctx.check(_untouched(X, snap) and np.asarray(X.data).dtype == dt0, "squeeze-leaves-operand")


SPARSE_MEM = ["plain", "readonly-nocopy", "readonly", "strided", "strided-nocopy", "F-ordered-subs-nocopy"]
SUBS_DT = ["int64", "int32", "uint8", "uint16", "uint64", "int8", "int16"]


def _present_sparse(A, subs, vals, sdt, vdt, mem, shform):
    """sptensor denoting A from the caller's subs / vals in the given dtype, memory layout and shape spelling"""
    forms = dict(int_forms(A.shape))
    shp = forms.get(shform, forms["tuple"])()
    if not subs:
        return ttb.sptensor(shape=shp)
    s = np.array(subs, dtype=np.int64).reshape(len(subs), A.ndim).astype(_IDT[sdt])
    v = _values_as(vals, vdt).reshape(-1, 1)
    kw = {}
    if mem in ("readonly-nocopy", "readonly"):
        s.setflags(write=False)
        v.setflags(write=False)
    if mem in ("strided", "strided-nocopy"):
        bs = np.full((2 * s.shape[0] + 1, 2 * s.shape[1] + 1), 0, dtype=s.dtype)
        bs[1::2, 1::2] = s
        s = bs[1::2, 1::2]
        bv = np.full((2 * v.shape[0] + 1, 2), 55, dtype=v.dtype)
        bv[1::2, :1] = v
        v = bv[1::2, :1]
    if mem == "F-ordered-subs-nocopy":
        s = np.asfortranarray(s)
    if mem.endswith("nocopy"):
        kw["copy"] = False
    return ttb.sptensor(s, v, shp, **kw)


@st.composite
def _pres_sparse(draw, tier):
    c = draw(gen.sparse_case(tier, min_order=1, patterns=("none", "one", "some", "some", "all", "all", "all")))
    c["vdt"] = draw(_vdt(c["vkind"], ints=("int64", "int32")))
    c["sdt"] = draw(st.sampled_from(SUBS_DT))
    c["mem"] = draw(st.sampled_from(SPARSE_MEM))
    c["shform"] = draw(st.sampled_from(["tuple", "list", "array-uint8", "array-int32", "tuple-of-np.int32", "array-uint64",
                                        "tuple-of-np.uint64"]))
    if draw(st.integers(0, 2)) == 0 and len(c["shape"]) < 5:
        pos = draw(st.integers(0, len(c["shape"])))
        c["shape"].insert(pos, 1)
        for s in c["subs"]:
            s.insert(pos, 0)
    n = len(c["shape"])
    if draw(st.integers(0, 3)) == 0 and ref.prod(c["shape"]) <= 16:
        # one long mode: subscripts near the top of what a narrow integer dtype holds (127 / 128 / 255 / 256), so that
        # index arithmetic carried out in the caller's dtype would wrap; some entries are moved to the far end
        m = draw(st.integers(0, n - 1))
        L = draw(st.sampled_from([100, 127, 128, 129, 200, 255, 256, 257]))
        for s in c["subs"]:
            if draw(st.booleans()):
                s[m] = L - 1 - s[m]
        c["shape"][m] = L
        c["long"] = L
    c["perm"] = list(draw(st.permutations(range(n))))
    c["new"] = draw(_target_shape(ref.prod(c["shape"])))
    if draw(st.integers(0, 3)) == 0:
        c["new"] = [ref.prod(c["shape"])]
    c["old_modes"] = draw(gen.mode_subset(n, 1, n))
    if draw(st.integers(0, 2)) == 0:
        c["old_modes"] = [draw(st.integers(0, n - 1))]  # a single mode, where a bare int is accepted
    c["new_sub"] = draw(_target_shape(ref.prod(c["shape"][m] for m in c["old_modes"]), max_parts=3))
    return c


def _float_subs_only(probs):
    return bool(probs) and all(q.startswith("subs-dtype-float") for q in probs)


def _sp_judge(ctx, R, expect, vdt0, clause, name, ez=False):
    """R is a well-formed sptensor denoting expect; -> value dtype or None"""
    if not ctx.check(isinstance(R, ttb.sptensor), clause + "-returns-sptensor", f"{name}: {type(R).__name__}"):
        return None
    probs = ref.sptensor_problems(R, allow_explicit_zero=ez)
    ctx.check(not probs, clause + "-result-wellformed", f"{name}: {probs}")
    if probs and not (_float_subs_only(probs) and bool(np.all(np.asarray(R.subs) == np.floor(np.asarray(R.subs))))):
        return None
    ctx.check(tup(R.shape) == expect.shape, clause + "-presentation-gives-reference-shape", f"{name}: {tup(R.shape)} vs {expect.shape}")
    if tup(R.shape) != expect.shape:
        return None
    B = np.zeros(expect.shape)
    if R.subs.size:
        np.add.at(B, tuple(np.asarray(R.subs).astype(np.int64).T), np.asarray(R.vals).reshape(-1).astype(float))
    ctx.check(bool(np.array_equal(B, expect)), clause + "-presentation-gives-reference-answer", f"{name}: " + ref.diff_info(B, expect))
    return np.asarray(R.vals).dtype if R.vals.size else None


def _sp_snapshot(X):
    return (tup(X.shape), np.array(X.subs, copy=True), np.array(X.vals, copy=True), np.asarray(X.subs).dtype,
            np.asarray(X.vals).dtype)


def _sp_untouched(X, snap):
    return (tup(X.shape) == snap[0] and np.asarray(X.subs).shape == snap[1].shape and np.array_equal(X.subs, snap[1])
            and np.asarray(X.vals).shape == snap[2].shape and np.array_equal(X.vals, snap[2])
            and np.asarray(X.subs).dtype == snap[3] and np.asarray(X.vals).dtype == snap[4])


PREDICATES["subs_uint64"] = lambda case: case.get("sdt") == "uint64"
# C07-F4: only a sparse tensor without stored entries lets a target shape with negative entries through
PREDICATES["rejected_sparse_no_nonzeros"] = lambda case: case.get("holder") == "sptensor" and not case.get("subs")
PREDICATES["rejected_sparse"] = lambda case: case.get("holder") == "sptensor"


@cell("C07/presentations/sptensor", strategy=_pres_sparse, quick=150, thorough=1500)
def presentations_sptensor(ctx, case):
    shape = case["shape"]
    N = len(shape)
    vals = _values_as(case["vals"], case["vdt"]) if case["vals"] else np.zeros(0)
    A = np.zeros(tuple(shape))
    for s, v in zip(case["subs"], vals):
        A[tuple(s)] = float(v)
    X = None
    if case.get("long"):
        ctx.label("operand:long-mode")
    if case["subs"] and not _fits([max(max(s) for s in case["subs"])], case["sdt"]):
        case = dict(case, sdt="int64")  # the caller's dtype must hold every subscript
    try:
        X = _present_sparse(A, case["subs"], case["vals"], case["sdt"], case["vdt"], case["mem"], case["shform"])
    except Exception:  # noqa: BLE001  (the constructor is judged elsewhere)
        pass
    if not (isinstance(X, ttb.sptensor) and tup(X.shape) == A.shape and not ref.sptensor_problems(X)
            and ref.same_exact(ref.den(X), A)):
        X = _present_sparse(A, case["subs"], case["vals"], "int64", case["vdt"], "plain", "tuple")
        ctx.label("operand:fallback-plain")
    else:
        ctx.label("operand-mem:" + case["mem"], "operand-shape-as:" + case["shform"])
    if X.subs.size:
        ctx.label("operand-subs:" + str(np.asarray(X.subs).dtype), "operand-values:" + str(np.asarray(X.vals).dtype))
        if not np.asarray(X.subs).flags["WRITEABLE"]:
            ctx.label("operand:read-only-buffers")
        if not (np.asarray(X.subs).flags["C_CONTIGUOUS"] or np.asarray(X.subs).flags["F_CONTIGUOUS"]):
            ctx.label("operand:strided-buffers")
    else:
        ctx.label("operand:no-nonzeros")
    p, new, om, new_sub = case["perm"], case["new"], case["old_modes"], case["new_sub"]
    ctx.nt = bool(case["subs"]) and (_nt_perm(shape, p) or _nt_reshape(shape, new))
    snap = _sp_snapshot(X)
    first = {}

    def judge(op, R, expect, name, args):
        vdt = _sp_judge(ctx, R, expect, snap[4], op, name)
        if vdt is not None:
            first.setdefault(op, (name, vdt))
            ctx.check(vdt == first[op][1], f"{op}-presentations-agree-on-dtype", f"{name}:{vdt} vs {first[op]}")
        for arg, v in args:
            ctx.check(_arg_intact(arg, v), f"{op}-leaves-argument", name)
        ctx.check(_sp_untouched(X, snap), f"{op}-leaves-operand", name)

    # permute
    expect = np.transpose(A, p)
    for name, make in int_forms(p):
        arg = make()
        ctx.label("permute:" + name)
        with ctx.sut(f"sptensor.permute[{name}]"):
            R = X.permute(arg)
        judge("permute", R, expect, name, [(arg, p)])
    # reshape of all modes: every spelling of the shape; old_modes omitted, None, or all modes in order
    expect = A.reshape(tuple(new), order="F")
    allm = int_forms(list(range(N)))
    for i, (name, make) in enumerate(int_forms(new)):
        arg = make()
        ctx.label("reshape:" + name)
        how = i % 4
        with ctx.sut(f"sptensor.reshape[{name}]"):
            if how == 0:
                R = X.reshape(arg)
            elif how == 1:
                R = X.reshape(new_shape=arg, old_modes=None)
            else:
                oname, omake = allm[(i // 4) % len(allm)]
                oarg = omake()
                name = name + "/all-modes-" + oname
                R = X.reshape(arg, oarg) if how == 2 else X.reshape(old_modes=oarg, new_shape=arg)
        judge("reshape", R, expect, name, [(arg, new)])
    # reshape of a subset of modes: spellings of the shape paired with spellings of old_modes
    keep = [m for m in range(N) if m not in om]
    At = np.transpose(A, keep + list(om))
    expect = At.reshape(tuple([shape[m] for m in keep] + list(new_sub)), order="F")
    sf, of = int_forms(new_sub), int_forms(om)
    pairs = [(i % len(sf), i % len(of)) for i in range(max(len(sf), len(of)))]
    pairs += [(i % len(sf), (i + 5) % len(of)) for i in range(0, max(len(sf), len(of)), 3)]
    for i, j in pairs:
        (sname, smake), (oname, omake) = sf[i], of[j]
        sarg, oarg = smake(), omake()
        ctx.label("old_modes:" + oname)
        name = sname + "/" + oname
        with ctx.sut(f"sptensor.reshape-subset[{oname}]"):
            R = X.reshape(sarg, oarg)
        judge("reshape-subset", R, expect, name, [(sarg, new_sub), (oarg, om)])
    # squeeze
    with ctx.sut("sptensor.squeeze"):
        R = X.squeeze()
    expect = np.squeeze(A)
    if expect.ndim == 0:
        ctx.check(isinstance(R, (int, float, np.integer, np.floating)) and float(R) == float(expect),
                  "squeeze-presentation-gives-reference-answer", R)
    else:
        judge("squeeze", R, expect, "-", [])


FACTOR_MEM = ["plain", "readonly-nocopy", "strided", "C-ordered-nocopy", "tuple-of-factors"]


def _present_factors(fm, mem):
    """(factor list as the caller holds it, constructor keywords)"""
    out = []
    for f in fm:
        if mem == "readonly-nocopy":
            g = np.asfortranarray(f.copy())
            g.setflags(write=False)
        elif mem == "strided":
            big = np.full((2 * f.shape[0] + 1, 2 * f.shape[1] + 1), 7.0)
            big[1::2, 1::2] = f
            g = big[1::2, 1::2]
        elif mem == "C-ordered-nocopy":
            g = np.ascontiguousarray(f.copy())
        else:
            g = f.copy()
        out.append(g)
    return (tuple(out) if mem == "tuple-of-factors" else out), (dict(copy=False) if mem.endswith("nocopy") else {})


@st.composite
def _pres_kt(draw, tier):
    holder = draw(st.sampled_from(["ktensor", "ttensor"]))
    c = draw(gen.ktensor_case(tier, min_order=1)) if holder == "ktensor" else draw(gen.ttensor_case(tier, min_order=1))
    c["holder"] = holder
    c["perm"] = list(draw(st.permutations(range(len(c["shape"])))))
    c["mem"] = draw(st.sampled_from(FACTOR_MEM))
    c["core_sdt"] = draw(st.sampled_from(["int64", "int32", "uint8", "uint16"]))
    return c


@cell("C07/presentations/factored", strategy=_pres_kt, quick=150, thorough=1500)
def presentations_factored(ctx, case):
    """Kruskal / Tucker holders: every spelling of the mode order moves the very same factor matrices (bit for bit)"""
    p, shape = case["perm"], case["shape"]
    kt = case["holder"] == "ktensor"
    X = None
    try:
        if kt:
            fm = [np.array(f, dtype=float).reshape(n, case["rank"]) for f, n in zip(case["factors"], shape)]
            fl, kw = _present_factors(fm, case["mem"])
            X = ttb.ktensor(fl, np.array(case["weights"], dtype=float), **kw)
        else:
            fm = [np.array(f, dtype=float).reshape(s, c) for f, s, c in zip(case["factors"], shape, case["cshape"])]
            fl, kw = _present_factors(fm, case["mem"])
            core = gen.arr_F(case["cshape"], case["core"])
            if case.get("sparse_core"):
                ents = [(list(s), float(core[s])) for s in ref.all_subs_F(core.shape) if core[s] != 0]
                cs = np.array([e[0] for e in ents], dtype=np.int64).reshape(len(ents), core.ndim).astype(_IDT[case["core_sdt"]])
                C = ttb.sptensor(cs, np.array([e[1] for e in ents]).reshape(-1, 1), tuple(core.shape)) if ents else ttb.sptensor(
                    shape=tuple(core.shape))
                ctx.label("core-subs:" + case["core_sdt"])
            else:
                C = ttb.tensor(core.copy(order="F"), tuple(case["cshape"]))
            X = ttb.ttensor(C, list(fl), **kw)
        ok = all(np.array_equal(a, b) for a, b in zip(X.factor_matrices, fm))
    except Exception:  # noqa: BLE001  (constructors are judged elsewhere)
        ok = False
    if not ok:
        X = gen.build_ktensor(case) if kt else build_tt(ctx, dict(case, core_prov="ctor"))
        ctx.label("operand:fallback-plain")
    else:
        ctx.label("operand-mem:" + case["mem"])
    ctx.label(case["holder"], *gen.shape_classes(shape))
    ctx.nt = _nt_perm(shape, p) or (not kt and _nt_perm(case["cshape"], p))
    f0 = [np.array(f, copy=True) for f in X.factor_matrices]
    w0 = np.array(X.weights, copy=True) if kt else None
    c0 = None if kt else np.array(ref.den(X.core), copy=True)
    A = ref.den(X)
    cls = ttb.ktensor if kt else ttb.ttensor
    for name, make in int_forms(p):
        arg = make()
        ctx.label("permute:" + name)
        with ctx.sut(f"{case['holder']}.permute[{name}]"):
            R = X.permute(arg)
        if not ctx.check(isinstance(R, cls) and len(R.factor_matrices) == len(p), "permute-returns-same-class", name):
            continue
        ok = all(np.asarray(R.factor_matrices[i]).shape == f0[p[i]].shape and np.array_equal(R.factor_matrices[i], f0[p[i]])
                 for i in range(len(p)))
        if kt:
            ok = ok and np.array_equal(R.weights, w0)
        else:
            ok = ok and ref.same_exact(ref.den(R.core), np.transpose(c0, p))
        ctx.check(ok and tup(R.shape) == tuple(shape[i] for i in p), "permute-presentation-gives-reference-answer", name)
        ctx.check(_arg_intact(arg, p), "permute-leaves-argument", name)
        same = all(np.array_equal(a, b) for a, b in zip(X.factor_matrices, f0)) and (
            np.array_equal(X.weights, w0) if kt else ref.same_exact(ref.den(X.core), c0))
        ctx.check(same and tup(X.shape) == tuple(shape), "permute-leaves-operand", name)


# --------------------------------------------------------------------------
# (round 4, class 12) the state of the receiver after a rejected request
# --------------------------------------------------------------------------
# Histories on one receiver: rejected requests (a mode order that is too short / too long / repeats a mode / names a
# mode that does not exist / is negative / is a matrix; a target shape with another element count - one entry changed,
# a mode dropped, doubled, two entries negated so that the product is still right, a float entry, a zero entry; for
# sparse tensors an old_modes subset whose sizes do not multiply to the target or that names a mode that does not
# exist) interleaved with valid permute / reshape / squeeze steps.  After every rejected request the receiver must be
# bit for bit what it was (shape, data / subs / vals / weights / factors, dtypes) and the following valid step is
# judged against the model as if the rejected step had not happened; the valid step's result becomes the receiver.


def _bad_order(draw, N, holder):
    kind = draw(st.sampled_from(["short", "long", "dup", "oob", "neg", "matrix"]))
    if kind == "dup" and N < 2:
        kind = "long"
    p = list(draw(st.permutations(range(N))))
    if kind == "short":
        v = list(draw(st.permutations(range(N - 1))))
    elif kind == "long":
        v = list(draw(st.permutations(range(N + 1))))
    elif kind == "dup":
        i, j = draw(st.permutations(range(N)))[:2]
        p[i] = p[j]
        v = p
    elif kind == "oob":
        # (tensor.permute of a 1-way tensor lets the order [1] through - a 1-based leftover; N + 1 is used there)
        p[draw(st.integers(0, N - 1))] = N + (1 if N == 1 else draw(st.integers(0, 1)))
        v = p
    elif kind == "neg":
        i = draw(st.integers(0, N - 1))
        p[i] = p[i] - N  # the same mode counted from the end: a valid axis for numpy, not a valid mode order
        v = p
    else:
        v = [p, p]
    return dict(op="permute", bad=kind, arg=v, form=draw(st.sampled_from(["list", "array", "array-int32"])))


def _bad_shape(draw, sel_shape):
    n = ref.prod(sel_shape)
    new = draw(_target_shape(n)) if n >= 1 else [0]
    kind = draw(st.sampled_from(["count+1", "double", "drop-mode", "neg-pair", "float-entry", "zero-entry", "extra-mode"]))
    i = draw(st.integers(0, len(new) - 1))
    if kind == "drop-mode" and not any(s > 1 for s in new):
        kind = "double"
    if kind == "neg-pair" and len(new) < 2:
        new = new + [1]
    if kind == "count+1":
        new[i] += 1
    elif kind == "double":
        new[i] *= 2
    elif kind == "drop-mode":
        new.pop(draw(st.sampled_from([k for k, s in enumerate(new) if s > 1])))
        new = new or [1]
    elif kind == "neg-pair":
        a, b = draw(st.permutations(range(len(new))))[:2]
        new[a], new[b] = -new[a], -new[b]
    elif kind == "float-entry":
        new[i] = float(new[i]) + draw(st.sampled_from([0.0, 0.5]))
    elif kind == "zero-entry":
        new[i] = 0
    else:
        new.insert(i, draw(st.integers(2, 3)))
    return kind, new


@st.composite
def _rejected_case(draw, tier):
    holder = draw(st.sampled_from(["tensor", "tensor", "sptensor", "sptensor", "ktensor", "ttensor"]))
    if holder == "tensor":
        c = draw(gen.dense_case(tier, min_order=1, min_size=1))
        c["vdt"] = draw(_vdt(c["vkind"]))
    elif holder == "sptensor":
        c = draw(gen.sparse_case(tier, min_order=1, patterns=("none", "one", "some", "some", "all", "all")))
        c["vdt"] = draw(_vdt(c["vkind"], ints=("int64", "int32")))
        c["sdt"] = draw(st.sampled_from(["int64", "int64", "int32", "uint8"]))
    elif holder == "ktensor":
        c = draw(gen.ktensor_case(tier, min_order=1))
    else:
        c = draw(gen.ttensor_case(tier, min_order=1))
    c["holder"] = holder
    shape = list(c["shape"])
    steps = []
    nrej = 0
    for k in range(draw(st.integers(2, 5))):
        N = len(shape)
        rejected = draw(st.booleans()) or (k == 1 and nrej == 0)
        ops = ["permute"] if holder in ("ktensor", "ttensor") else ["permute", "reshape", "reshape"] + (
            ["reshape-subset", "reshape-subset"] if holder == "sptensor" else []) + ([] if rejected else ["squeeze"])
        op = draw(st.sampled_from(ops))
        if rejected:
            nrej += 1
            if op == "permute":
                st_ = _bad_order(draw, N, holder)
            elif op == "reshape":
                kind, new = _bad_shape(draw, shape)
                st_ = dict(op="reshape", bad=kind, arg=new, form=draw(st.sampled_from(["tuple", "list", "array"])))
            else:
                om = draw(gen.mode_subset(N, 1, N))
                kind = draw(st.sampled_from(["shape", "shape", "oob-mode", "matrix-modes", "dup-modes", "neg-mode"]))
                big = [m for m in range(N) if shape[m] >= 2]
                if kind in ("dup-modes", "neg-mode") and not big:
                    kind = "oob-mode"
                if kind == "matrix-modes" and len(om) < 2:
                    kind = "oob-mode"  # (a 2 x 1 matrix squeezes to a vector)
                if kind == "dup-modes":
                    # a non-singleton mode named twice, the target sized for the repeated list: every size test passes
                    m = draw(st.sampled_from(big))
                    om = [m, m]
                    new = draw(_target_shape(shape[m] ** 2, max_parts=3))
                elif kind == "neg-mode":
                    # a non-singleton mode counted from the end
                    m = draw(st.sampled_from(big))
                    om = [m - N]
                    new = draw(_target_shape(shape[m], max_parts=3))
                elif kind == "shape":
                    kind, new = _bad_shape(draw, [shape[m] for m in om])
                    if kind in ("neg-pair",) and ref.prod(shape[m] for m in om) == 0:
                        kind, new = "count+1", [1, 2]
                else:
                    new = draw(_target_shape(ref.prod(shape[m] for m in om), max_parts=3))
                    if kind == "oob-mode":
                        om[draw(st.integers(0, len(om) - 1))] = N + draw(st.integers(0, 1))
                    else:
                        om = [om, om]
                st_ = dict(op="reshape-subset", bad=kind, arg=new, old_modes=om, form=draw(st.sampled_from(["tuple", "list", "array"])))
            st_["rejected"] = True
            steps.append(st_)
            continue
        if op == "permute":
            p = list(draw(st.permutations(range(N))))
            steps.append(dict(op=op, arg=p))
            shape = [shape[i] for i in p]
        elif op == "reshape":
            new = draw(_target_shape(ref.prod(shape)))
            steps.append(dict(op=op, arg=new))
            shape = list(new)
        elif op == "reshape-subset":
            om = draw(gen.mode_subset(N, 1, N))
            new = draw(_target_shape(ref.prod(shape[m] for m in om), max_parts=3))
            steps.append(dict(op=op, arg=new, old_modes=om))
            shape = [shape[m] for m in range(N) if m not in om] + list(new)
        else:
            steps.append(dict(op="squeeze"))
            if all(s == 1 for s in shape):
                break  # a scalar comes back: the history ends
            shape = [s for s in shape if s != 1]
        if len(shape) > 6:
            break
    c["steps"] = steps
    return c


def _spell(v, form):
    if form == "array":
        return np.array(v)
    if form == "array-int32":
        return np.array(v, dtype=np.int32)
    if form == "tuple":
        return tuple(v)
    return list(v)


def _state(X):
    """everything that parameterises X, copied: (kind, shape, [(array copy, dtype)])"""
    if isinstance(X, ttb.tensor):
        arrs = [X.data]
    elif isinstance(X, ttb.sptensor):
        arrs = [X.subs, X.vals]
    elif isinstance(X, ttb.ktensor):
        arrs = [X.weights] + list(X.factor_matrices)
    else:
        arrs = list(_state(X.core)[2]) + list(X.factor_matrices)
        return (type(X).__name__, tup(X.shape) + tup(X.core.shape), [(np.array(a, copy=True), np.asarray(a).dtype) for a, _ in arrs[:len(arrs) - len(X.factor_matrices)]]
                + [(np.array(a, copy=True), np.asarray(a).dtype) for a in X.factor_matrices])
    return (type(X).__name__, tup(X.shape), [(np.array(a, copy=True), np.asarray(a).dtype) for a in arrs])


def _same_state(X, st0):
    try:
        now = _state(X)
    except Exception:  # noqa: BLE001
        return False
    return now[0] == st0[0] and now[1] == st0[1] and len(now[2]) == len(st0[2]) and all(
        a.shape == b.shape and da == db and np.array_equal(a, b) for (a, da), (b, db) in zip(now[2], st0[2]))


@cell("C07/rejected/history", strategy=_rejected_case, quick=400, thorough=4000)
def rejected_history(ctx, case):
    holder = case["holder"]
    if holder == "tensor":
        A = np.reshape(_values_as(case["data"], case["vdt"]), tuple(case["shape"]), order="F")
        X = ttb.tensor(A.copy(order="F"), tuple(case["shape"]))
        A = A.astype(float)
    elif holder == "sptensor":
        vals = _values_as(case["vals"], case["vdt"]) if case["vals"] else np.zeros(0)
        A = np.zeros(tuple(case["shape"]))
        for s, v in zip(case["subs"], vals):
            A[tuple(s)] = float(v)
        X = _present_sparse(A, case["subs"], case["vals"], case["sdt"], case["vdt"], "plain", "tuple")
    elif holder == "ktensor":
        X = gen.build_ktensor(case)
        A = ref.den(X)
    else:
        X = build_tt(ctx, dict(case, core_prov="ctor"))
        A = ref.den(X)
    exact = holder in ("tensor", "sptensor")
    absA = None if exact else (ref.abs_kruskal(X.weights, X.factor_matrices) if holder == "ktensor" else ref.den_tucker(
        np.abs(ref.den(X.core)), [np.abs(f) for f in X.factor_matrices]))
    nterms = 1 if exact else (case["rank"] if holder == "ktensor" else ref.prod(case["cshape"]))
    ctx.label(holder)
    ctx.nt = any(s.get("rejected") for s in case["steps"]) and any(not s.get("rejected") for s in case["steps"])
    after_rejected = False
    for k, step in enumerate(case["steps"]):
        op = step["op"]
        if step.get("rejected"):
            what = f"{op}:{step['bad']}"
            ctx.label("rejected-" + what)
            st0 = _state(X)
            arg = _spell(step["arg"], step["form"])
            arg_repr = repr(arg)
            if op == "reshape-subset" and step["bad"] == "neg-mode":
                # either rejected, or honoured the way Python counts from the end - never a tensor of another size
                om = np.array(step["old_modes"])
                try:
                    R = X.reshape(arg, om)
                except Exception:  # noqa: BLE001
                    R = None
                if R is not None:
                    m = step["old_modes"][0] + A.ndim
                    keep = [i for i in range(A.ndim) if i != m]
                    e = np.transpose(A, keep + [m]).reshape(tuple([A.shape[i] for i in keep] + list(step["arg"])), order="F")
                    ctx.check(isinstance(R, ttb.sptensor) and tup(R.shape) == e.shape and not ref.sptensor_problems(R)
                              and ref.same_exact(ref.den(R), e), "negative-old_modes-neither-rejected-nor-honoured",
                              f"shape {tup(getattr(R, 'shape', ()))} from {A.shape}")
            elif op == "reshape-subset":
                om = np.array(step["old_modes"])
                ctx.raises(f"{holder}.{what}", lambda: X.reshape(arg, om))
            elif op == "reshape":
                ctx.raises(f"{holder}.{what}", lambda: X.reshape(arg))
            else:
                ctx.raises(f"{holder}.{what}", lambda: X.permute(arg))
            ctx.check(_same_state(X, st0), "receiver-unchanged-after-rejected-request", what)
            ctx.check(repr(arg) == arg_repr, "argument-unchanged-after-rejected-request", what)
            if isinstance(X, ttb.sptensor):
                probs = ref.sptensor_problems(X)
                ctx.check(not probs, "receiver-wellformed-after-rejected-request", f"{what}: {probs}")
            ok = tup(X.shape) == A.shape and (ref.same_exact(ref.den(X), A) if exact else ref.same_bound(ref.den(X), A, absA, nterms))
            ctx.require(ok, "receiver-denotes-the-same-array-after-rejected-request", what)
            after_rejected = True
            continue
        ctx.label(("valid-after-rejected-" if after_rejected else "valid-") + op)
        st0 = _state(X)
        with ctx.sut(f"{holder}.{op}"):
            if op == "permute":
                R = X.permute(np.array(step["arg"]))
            elif op == "reshape":
                R = X.reshape(tuple(step["arg"]))
            elif op == "reshape-subset":
                R = X.reshape(tuple(step["arg"]), np.array(step["old_modes"]))
            else:
                R = X.squeeze()
        if op == "permute":
            expect = np.transpose(A, step["arg"])
            absA = None if exact else np.transpose(absA, step["arg"])
        elif op == "reshape":
            expect = A.reshape(tuple(step["arg"]), order="F")
        elif op == "reshape-subset":
            om = step["old_modes"]
            keep = [m for m in range(A.ndim) if m not in om]
            expect = np.transpose(A, keep + om).reshape(tuple([A.shape[m] for m in keep] + list(step["arg"])), order="F")
        else:
            expect = np.squeeze(A)
        ctx.check(_same_state(X, st0), "valid-step-leaves-receiver", op)
        if expect.ndim == 0 and op == "squeeze":
            ctx.check(isinstance(R, (int, float, np.integer, np.floating)) and float(R) == float(expect), "history-step-value", op)
            return
        ctx.require(type(R) is type(X), "history-step-returns-same-class", f"{op}: {type(R).__name__}")
        if isinstance(R, ttb.sptensor):
            probs = ref.sptensor_problems(R)
            ctx.require(not probs, "history-step-result-wellformed", f"{op}: {probs}")
        ctx.require(tup(R.shape) == expect.shape, "history-step-shape", f"step {k} {op}: {tup(R.shape)} vs {expect.shape}")
        got = ref.den(R)
        ctx.require(ref.same_exact(got, expect) if exact else ref.same_bound(got, expect, absA, nterms), "history-step-index-map",
                    f"step {k} {op}: " + ref.diff_info(got, expect))
        X, A = R, expect
