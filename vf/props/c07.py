"""C07 — permute, reshape and squeeze are exact index maps."""

from __future__ import annotations

import itertools

import numpy as np
from hypothesis import strategies as st

import pyttb as ttb

from .. import gen, ref
from ..core import cell

PROPERTY = "C07"
RULE = (
    "cases = (holder data, mode order | target shape | old_modes subset) drawn by Hypothesis, or the full "
    "enumeration of N! orders for N<=4; oracle = np.transpose / reshape(order='F') / np.squeeze on the array the "
    "operand denotes (exact equality for dense and sparse, rigorous rounding bound for Kruskal/Tucker), plus the "
    "inverse round trip.  Non-trivial: >=2 distinct mode sizes and a non-involutive order (permute), a target shape "
    "that splits or merges modes of different size (reshape), a singleton mode next to a non-singleton one (squeeze).  "
    "Operands are not only freshly constructed: dense tensors grown by assignment (C-ordered buffer) or held as int64, "
    "sparse tensors with explicitly stored zeros / int64 values / numpy.int64 shape entries, operands that are "
    "themselves the result of an earlier permute or reshape ('pre'), Kruskal tensors whose weights were absorbed "
    "(C-ordered factors), Tucker tensors with a grown core (copy=False) or a sparse core stored in reverse order with "
    "explicit zeros; orders / shapes / old_modes are passed in every accepted spelling (ndarray of several integer "
    "dtypes, row matrix, list, tuple, list of numpy integers, scalar for one mode); every operation is called twice "
    "on the same object (same answer, operand untouched); Kruskal / Tucker data are also scaled by 1e+6 / 1e-6.  "
    "Round 3: (several live objects) at the end of every dense / sparse cell the result is assigned to and the operand "
    "judged, then the operand is assigned to and the result judged; a permuted Kruskal tensor is re-parameterised in "
    "place, the core of a permuted Tucker tensor is assigned to.  (sizes above thresholds) cell huge-modes/sptensor: "
    "sparse tensors whose mode lengths are products of atoms from {2, 3, 4, 2**10, 2**20, 2**31, 2**31+1, 2**33-1, "
    "2**53+1, 2**53+3, 2**60} with the element count below 2**63, subscripts at 0, n-1, n/2, n/3, 2**53+1, 2**31 - "
    "permute / reshape (all modes regrouped from the same atoms, or a subset of modes) / squeeze judged by exact "
    "Python-integer index arithmetic; cell many-nonzeros/sptensor: 10001 .. 50000 stored entries in unsorted order "
    "against NumPy on the expanded array."
)
ASSUMPTIONS = [
    "oracle: numpy transpose/reshape/squeeze applied to the array reconstructed from the public attributes",
    "Kruskal/Tucker: compared within 64*n*eps*einsum(|.|) (no values change, but both sides are evaluated in floating point)",
    "derived operand states are produced through the public API only (assignment growth, the constructors, "
    "normalize(weight_factor=...), ttensor(..., copy=False), an earlier permute / reshape); when the preparing call "
    "itself fails the freshly constructed operand is used (the preparing operation is judged in its own cell)",
    "an explicitly stored zero of a sparse operand may be kept or dropped by the operation; the result must be "
    "well-formed otherwise and denote the right array",
    "integer dtypes: int64 for dense data and sparse values (integer-valued cases only); Kruskal / Tucker factors are "
    "documented as float and stay float64; float32 is left out (no rounding bound adapted to it)",
    "old_modes of sptensor.reshape is documented as ndarray or int: arrays (int64 / int32), python int and numpy "
    "integer scalars are used, no lists",
    "several live objects: on the unchanged tree no result of permute / reshape / squeeze shares memory with its "
    "operand (identity orders, unchanged shapes and tensors without singleton modes included)",
    "huge modes: element counts of 2**63 and more are rejected by sptensor.reshape ('Reshape must maintain tensor "
    "size': the count comparison overflows) and are not generated",
]


# --------------------------------------------------------------------------
# operands in derived states (class 1) and integer dtypes (class 2)
# --------------------------------------------------------------------------


@st.composite
def _dense_operand(draw, tier, **kw):
    """gen.dense_case (which draws prov ctor/grown) + dtype + 'pre': the operand is the result of an earlier
    permute / reshape of another tensor (the pre-image is constructed so that the operand denotes shape/data)."""
    c = draw(gen.dense_case(tier, **kw))
    if c["vkind"] == "int" and draw(st.integers(0, 2)) == 0:
        c["dt"] = "int64"
    _draw_pre(draw, c)
    return c


def _draw_pre(draw, c):
    pre = draw(st.sampled_from([None, None, None, "permute", "reshape"]))
    n = len(c["shape"])
    if pre == "permute" and n >= 2:
        c["pre"] = dict(op="permute", q=list(draw(st.permutations(range(n)))))
    elif pre == "reshape" and ref.prod(c["shape"]) >= 2:
        c["pre"] = dict(op="reshape", shape0=draw(_target_shape(ref.prod(c["shape"]))))


def _pre_image(A, pre):
    """array the earlier operation starts from, so that its result is A"""
    if pre["op"] == "permute":
        return np.transpose(A, inv(pre["q"]))
    return A.reshape(tuple(pre["shape0"]), order="F")


def _apply_pre(X0, pre, shape):
    return X0.permute(np.array(pre["q"])) if pre["op"] == "permute" else X0.reshape(tuple(shape))


def build_dense(ctx, case):
    """(X, A): dense operand and the array it denotes"""
    A = gen.arr_F(case["shape"], case["data"])
    pre = case.get("pre")
    A0 = _pre_image(A, pre) if pre else A
    c0 = dict(shape=list(A0.shape), data=[float(v) for v in A0.reshape(-1, order="F")], prov=case.get("prov"))
    if case.get("dt") == "int64":
        X = ttb.tensor(A0.astype(np.int64).copy(order="F"), tuple(A0.shape))
    else:
        X = gen.build_tensor(c0)
    if gen.is_grown(X):
        ctx.label("operand:grown")
    if pre:
        Y = None
        try:
            Y = _apply_pre(X, pre, case["shape"])
        except Exception:  # noqa: BLE001
            pass
        if isinstance(Y, ttb.tensor) and tup(Y.shape) == A.shape and ref.same_exact(ref.den(Y), A):
            X = Y
            ctx.label("operand:result-of-" + pre["op"])
        else:  # the preparing call misbehaved (judged in its own cell): fresh operand
            X = ttb.tensor(A.copy(order="F"), tuple(case["shape"]))
    if np.asarray(X.data).dtype.kind in "iu":
        ctx.label("operand:int64")
    return X, A


@st.composite
def _sparse_operand(draw, tier, **kw):
    c = draw(gen.sparse_case(tier, **kw))
    if c["vkind"] == "int" and draw(st.integers(0, 2)) == 0:
        c["dt"] = "int64"
    if draw(st.integers(0, 3)) == 0:
        A = gen.dense_of_sparse_case(c)
        zeros = [[int(i) for i in z] for z in np.argwhere(A == 0)]
        if zeros:
            k = draw(st.integers(1, min(2, len(zeros))))
            idx = draw(st.lists(st.integers(0, len(zeros) - 1), min_size=k, max_size=k, unique=True))
            c["ez"] = [[zeros[i], draw(st.integers(0, len(c["subs"])))] for i in idx]
    _draw_pre(draw, c)
    return c


def _sp_from(A, entries, dt):
    """sptensor from (subscript, value) pairs in the given stored order"""
    if not entries:
        return ttb.sptensor(shape=tuple(A.shape))
    subs = np.array([e[0] for e in entries], dtype=int).reshape(len(entries), A.ndim)
    vals = np.array([e[1] for e in entries], dtype=float).astype(dt).reshape(-1, 1)
    return ttb.sptensor(subs, vals, tuple(A.shape))


def build_sparse(ctx, case):
    """(X, A, has_explicit_zeros)"""
    A = gen.dense_of_sparse_case(case)
    entries = [(list(s), v) for s, v in zip(case["subs"], case["vals"])]
    for pos, at in case.get("ez") or []:
        entries.insert(min(at, len(entries)), (list(pos), 0.0))
    dt = np.int64 if case.get("dt") == "int64" else float
    pre = case.get("pre")
    X = _sp_from(A, entries, dt)
    if pre:
        # the stored entries of the pre-image, in the same stored order
        A0 = _pre_image(A, pre)
        if pre["op"] == "permute":
            iq = inv(pre["q"])
            e0 = [([s[iq[i]] for i in range(len(s))], v) for s, v in entries]
        else:
            e0 = [(_relin(s, A.shape, A0.shape), v) for s, v in entries]
        try:
            Y = _apply_pre(_sp_from(A0, e0, dt), pre, case["shape"])
            if (isinstance(Y, ttb.sptensor) and tup(Y.shape) == A.shape and not ref.sptensor_problems(Y, True)
                    and ref.same_exact(ref.den(Y), A)):
                X = Y
                ctx.label("operand:result-of-" + pre["op"])
        except Exception:  # noqa: BLE001
            pass
    ez = bool(X.vals.size and (np.asarray(X.vals) == 0).any())
    if ez:
        ctx.label("operand:explicit-zeros")
    if any(isinstance(n, np.integer) for n in X.shape):
        ctx.label("operand:numpy-int-shape")
    if X.vals.size and np.asarray(X.vals).dtype.kind in "iu":
        ctx.label("operand:int64")
    return X, A, ez


def _relin(sub, shape, shape0):
    i = ref.lin_index(sub, shape)
    out = []
    for n in shape0:
        out.append(i % n)
        i //= n
    return out


def _snapshot(X):
    if isinstance(X, ttb.sptensor):
        return (tup(X.shape), np.array(X.subs, copy=True), np.array(X.vals, copy=True))
    return (tup(X.shape), np.array(X.data, copy=True))


def _untouched(X, snap) -> bool:
    now = _snapshot(X)
    return now[0] == snap[0] and all(a.shape == b.shape and np.array_equal(a, b) for a, b in zip(now[1:], snap[1:]))


def _independent(ctx, X, snap, R, expect, name):
    """(round 3, several live objects) result and operand are separate objects: assign into the result and judge the
    operand, then assign into the operand and judge the result.  Changes the operand: call it last."""
    if expect.size == 0 or not snap[0]:
        return
    first_r, first_x = tuple(0 for _ in expect.shape), tuple(0 for _ in snap[0])
    with ctx.sut(f"{name}-result.setitem"):
        R[first_r] = 987654.0
    ctx.check(_untouched(X, snap), f"{name}-result-does-not-alias-operand")
    with ctx.sut(f"{name}-operand.setitem"):
        X[first_x] = -123456.0
    exp2 = np.array(expect, dtype=float)
    exp2[first_r] = 987654.0
    ctx.check(ref.same_exact(ref.den(R), exp2), f"{name}-operand-does-not-alias-result", ref.diff_info(ref.den(R), exp2))


ORDER_FORMS = ["array", "list", "tuple", "npint-list", "row2d", "int32", "uint8"]


def order_arg(p, form):
    """the mode order in one of the spellings parse_one_d documents"""
    if form == "list":
        return [int(i) for i in p]
    if form == "tuple":
        return tuple(int(i) for i in p)
    if form == "npint-list":
        return [np.int64(i) for i in p]
    if form == "row2d":
        return np.array([list(p)], dtype=int)
    if form == "int32":
        return np.array(p, dtype=np.int32)
    if form == "uint8":
        return np.array(p, dtype=np.uint8)
    if form == "scalar":
        return int(p[0])
    if form == "npint-scalar":
        return np.int64(p[0])
    return np.array(p, dtype=int)


def _order_form(draw, n):
    forms = ORDER_FORMS + (["scalar", "npint-scalar"] if n == 1 else [])
    return draw(st.sampled_from(["array", "array"] + forms))


SHAPE_FORMS = ["tuple", "list", "array", "npint-tuple", "int32"]


def shape_arg(new, form):
    if form == "list":
        return [int(i) for i in new]
    if form == "array":
        return np.array(new, dtype=int)
    if form == "int32":
        return np.array(new, dtype=np.int32)
    if form == "npint-tuple":
        return tuple(np.int64(i) for i in new)
    if form == "scalar":
        return int(new[0])
    return tuple(int(i) for i in new)


def _shape_form(draw, new):
    if len(new) == 1 and draw(st.booleans()):
        return "scalar"
    return draw(st.sampled_from(["tuple", "tuple"] + SHAPE_FORMS))


PREDICATES = {
    # known finding C07-F2: old_modes of sptensor.reshape given as a single integer
    "old_modes_scalar": lambda case: case.get("omform") in ("scalar", "npint-scalar"),
}


def tup(shape):
    return tuple(int(s) for s in shape)


def inv(p):
    q = [0] * len(p)
    for i, v in enumerate(p):
        q[v] = i
    return q


# --------------------------------------------------------------------------
# permute
# --------------------------------------------------------------------------


@st.composite
def _perm_dense(draw, tier):
    c = draw(_dense_operand(tier, min_order=1))
    c["perm"] = list(draw(st.permutations(range(len(c["shape"])))))
    c["pform"] = _order_form(draw, len(c["shape"]))
    return c


@st.composite
def _perm_sparse(draw, tier):
    c = draw(_sparse_operand(tier, min_order=1))
    c["perm"] = list(draw(st.permutations(range(len(c["shape"])))))
    c["pform"] = _order_form(draw, len(c["shape"]))
    return c


def _nt_perm(shape, p):
    return len(set(shape)) >= 2 and not gen.is_involution(p)


def _check_permute_exact(ctx, X, A, p, kind, pform="array", ez=False):
    ctx.label(*gen.shape_classes(A.shape), "involution" if gen.is_involution(p) else "non-involution",
              "order-as-" + pform)
    ctx.nt = _nt_perm(A.shape, p)
    snap = _snapshot(X)
    with ctx.sut(f"{kind}.permute"):
        R = X.permute(order_arg(p, pform))
    ctx.require(type(R) is type(X), "permute-returns-same-class", type(R).__name__)
    expect = np.transpose(A, p)
    ctx.check(tup(R.shape) == expect.shape, "permute-shape", f"{tup(R.shape)} vs {expect.shape} p={p}")
    if isinstance(R, ttb.sptensor):
        probs = ref.sptensor_problems(R, allow_explicit_zero=ez)
        ctx.check(not probs, "permute-result-wellformed", probs)
        if probs:
            return
    ctx.check(ref.same_exact(ref.den(R), expect), "permute-index-map", ref.diff_info(ref.den(R), expect))
    ctx.check(_untouched(X, snap), "permute-leaves-operand")
    with ctx.sut(f"{kind}.permute-inverse"):
        B = R.permute(np.array(inv(p)))
    ctx.check(tup(B.shape) == A.shape, "permute-roundtrip-shape")
    ctx.check(ref.same_exact(ref.den(B), A), "permute-roundtrip", ref.diff_info(ref.den(B), A))
    with ctx.sut(f"{kind}.isequal"):
        eq = B.isequal(X)
    ctx.check(eq, "permute-roundtrip-isequal")
    # the same call again on the same object, the order spelled as a plain list (or as an array): the same answer
    with ctx.sut(f"{kind}.permute-list"):
        R2 = X.permute(list(p) if pform != "list" else np.array(p))
    ctx.check(tup(R2.shape) == expect.shape and ref.same_exact(ref.den(R2), expect), "permute-list-form")
    ctx.check(_untouched(X, snap), "permute-leaves-operand")
    # the first result is not disturbed by the later calls either
    ctx.check(ref.same_exact(ref.den(R), expect), "permute-result-stable")
    _independent(ctx, X, snap, R, expect, "permute")


@cell("C07/permute/tensor", strategy=_perm_dense, quick=1500, thorough=20000)
def permute_tensor(ctx, case):
    X, A = build_dense(ctx, case)
    ctx.label("prov-grown" if gen.is_grown(X) else "prov-ctor")
    _check_permute_exact(ctx, X, A, case["perm"], "tensor", case.get("pform", "array"))


@cell("C07/permute/sptensor", strategy=_perm_sparse, quick=1500, thorough=20000)
def permute_sptensor(ctx, case):
    X, A, ez = build_sparse(ctx, case)
    ctx.label("pattern-" + case["pattern"], "stored-" + case["order"])
    _check_permute_exact(ctx, X, A, case["perm"], "sptensor", case.get("pform", "array"), ez)


def _enum_perm(tier):
    """All N! orders for fixed small shapes with distinct sizes (N<=4), arange data."""
    shapes = [(2,), (2, 3), (3, 2, 4), (2, 3, 1), (2, 3, 4, 2), (1, 2, 3, 4), (2, 2, 3)]
    if tier == "thorough":
        shapes += [(2, 3, 4, 5), (3, 1, 2, 2), (4, 3, 2, 1), (2, 3, 2, 3, 2), (1, 2, 1, 3, 2)]
    for sh in shapes:
        n = ref.prod(sh)
        for p in itertools.permutations(range(len(sh))):
            for holder in ("tensor", "sptensor"):
                yield dict(shape=list(sh), perm=list(p), holder=holder, n=n)


@cell("C07/permute/enumerated", enum=_enum_perm)
def permute_enumerated(ctx, case):
    sh, p = case["shape"], case["perm"]
    data = [float(((i * 7) % 11) - 3) for i in range(case["n"])]  # distinct-ish values with zeros
    A = gen.arr_F(sh, data)
    if case["holder"] == "tensor":
        X = ttb.tensor(A.copy(order="F"), tuple(sh))
    else:
        sc = gen.sparse_case_from_dense(A)
        sc["subs"], sc["vals"] = sc["subs"][::-1], sc["vals"][::-1]
        X = gen.build_sptensor(sc)
    _check_permute_exact(ctx, X, A, p, case["holder"])


SCALES = [1.0, 1.0, 1e6, 1e-6]


@st.composite
def _perm_kt(draw, tier):
    c = draw(gen.ktensor_case(tier, min_order=1))
    n = len(c["shape"])
    c["perm"] = list(draw(st.permutations(range(n))))
    c["pform"] = _order_form(draw, n)
    # derived state: weights absorbed into one factor / spread over all (leaves C-ordered factor matrices)
    c["absorb"] = draw(st.sampled_from([None, None, "all"] + list(range(n))))
    c["scale"] = draw(st.sampled_from(SCALES))
    return c


def build_kt(ctx, case):
    K = gen.build_ktensor(case)
    if case.get("scale", 1.0) != 1.0:
        K = ttb.ktensor([f.copy() for f in K.factor_matrices], K.weights * case["scale"])
        ctx.label(f"scale-{case['scale']:g}")
    ab = case.get("absorb")
    if ab is not None:
        try:
            K2 = K.copy().normalize(weight_factor=ab)
            if isinstance(K2, ttb.ktensor) and np.all(np.isfinite(ref.den(K2))):
                K = K2
        except Exception:  # noqa: BLE001  (normalize is judged by C08)
            pass
    if any(not f.flags["F_CONTIGUOUS"] for f in K.factor_matrices):
        ctx.label("operand:C-ordered-factors")
    return K


@cell("C07/permute/ktensor", strategy=_perm_kt, quick=1000, thorough=12000)
def permute_ktensor(ctx, case):
    K = build_kt(ctx, case)
    p = case["perm"]
    pform = case.get("pform", "array")
    A = ref.den(K)
    ctx.label(*gen.shape_classes(A.shape), "order-as-" + pform)
    ctx.nt = _nt_perm(A.shape, p)
    w0, f0 = K.weights.copy(), [f.copy() for f in K.factor_matrices]
    with ctx.sut("ktensor.permute"):
        R = K.permute(order_arg(p, pform))
    ctx.require(isinstance(R, ttb.ktensor), "permute-returns-ktensor")
    expect = np.transpose(A, p)
    ctx.check(tup(R.shape) == expect.shape, "permute-shape")
    bound = np.transpose(ref.abs_kruskal(K.weights, K.factor_matrices), p)
    got = ref.den(R)
    ctx.check(ref.same_bound(got, expect, bound, case["rank"]), "permute-index-map", ref.diff_info(got, expect))
    # factor matrices are moved, not changed
    ok = all(np.array_equal(R.factor_matrices[i], K.factor_matrices[p[i]]) for i in range(len(p)))
    ctx.check(ok and np.array_equal(R.weights, K.weights), "permute-moves-factors-unchanged")
    with ctx.sut("ktensor.permute-inverse"):
        B = R.permute(np.array(inv(p)))
    with ctx.sut("ktensor.isequal"):
        ctx.check(B.isequal(K), "permute-roundtrip-isequal")
    # second call on the same object: same answer, operand untouched
    with ctx.sut("ktensor.permute-again"):
        R2 = K.permute(list(p))
    ok2 = isinstance(R2, ttb.ktensor) and len(R2.factor_matrices) == len(p) and all(
        np.array_equal(a, b) for a, b in zip(R2.factor_matrices, R.factor_matrices)) and np.array_equal(R2.weights, R.weights)
    ctx.check(ok2, "permute-second-call-same")
    ctx.check(np.array_equal(K.weights, w0) and all(np.array_equal(a, b) for a, b in zip(K.factor_matrices, f0)),
              "permute-leaves-operand")
    # (round 3) the result is an object of its own: re-parameterising it in place does not reach the operand
    with ctx.sut("ktensor.permute-result-then-normalize-in-place"):
        R.normalize(weight_factor="all", normtype=1)
        R.fixsigns()
    ctx.check(np.array_equal(K.weights, w0) and all(np.array_equal(a, b) for a, b in zip(K.factor_matrices, f0)),
              "permute-result-does-not-alias-operand")
    # (dense / sparse holders of the same data are compared with the same reference in their own cells)


@st.composite
def _perm_tt(draw, tier):
    c = draw(gen.ttensor_case(tier, min_order=1))
    n = len(c["shape"])
    c["perm"] = list(draw(st.permutations(range(n))))
    c["pform"] = _order_form(draw, n)
    # derived states of the core: grown by assignment and handed over with copy=False; sparse core stored in reverse
    # order / with an explicitly stored zero
    c["core_prov"] = draw(st.sampled_from(["ctor", "ctor", "grown", "reverse", "ez"]))
    c["scale"] = draw(st.sampled_from(SCALES))
    return c


def build_tt(ctx, case):
    sc = case.get("scale", 1.0)
    core = gen.arr_F(case["cshape"], case["core"]) * sc
    if sc != 1.0:
        ctx.label(f"scale-{sc:g}")
    fm = [np.array(f, dtype=float).reshape(s, c) for f, s, c in zip(case["factors"], case["shape"], case["cshape"])]
    prov = case.get("core_prov", "ctor")
    if case.get("sparse_core"):
        entries = [(list(s), float(core[s])) for s in ref.all_subs_F(core.shape) if core[s] != 0]
        if prov in ("reverse", "ez"):
            entries = entries[::-1]
        if prov == "ez":
            zeros = [list(s) for s in ref.all_subs_F(core.shape) if core[s] == 0]
            if zeros:
                entries.insert(len(entries) // 2, (zeros[0], 0.0))
                ctx.label("core:explicit-zero")
        c = _sp_from(core, entries, float)
        if prov in ("reverse", "ez") and len(entries) > 1:
            ctx.label("core:sparse-unsorted")
        return ttb.ttensor(c, fm)
    if prov == "grown":
        c = gen.build_tensor(dict(shape=list(case["cshape"]), data=[float(v) for v in core.reshape(-1, order="F")], prov="grown"))
        if gen.is_grown(c):
            T = ttb.ttensor(c, fm, copy=False)
            if gen.is_grown(T.core):
                ctx.label("core:grown")
            return T
    return ttb.ttensor(ttb.tensor(core.copy(order="F"), tuple(case["cshape"])), fm)


@cell("C07/permute/ttensor", strategy=_perm_tt, quick=1000, thorough=12000)
def permute_ttensor(ctx, case):
    T = build_tt(ctx, case)
    p = case["perm"]
    pform = case.get("pform", "array")
    A = ref.den(T)
    ctx.label(*gen.shape_classes(A.shape), "sparse-core" if case["sparse_core"] else "dense-core", "order-as-" + pform)
    ctx.nt = _nt_perm(A.shape, p) or _nt_perm(case["cshape"], p)
    csnap = _snapshot(T.core)
    with ctx.sut("ttensor.permute"):
        R = T.permute(order_arg(p, pform))
    ctx.require(isinstance(R, ttb.ttensor), "permute-returns-ttensor")
    expect = np.transpose(A, p)
    ctx.check(tup(R.shape) == expect.shape, "permute-shape")
    bound = np.transpose(ref.den_tucker(np.abs(ref.den(T.core)), [np.abs(f) for f in T.factor_matrices]), p)
    got = ref.den(R)
    n = ref.prod(case["cshape"])
    ctx.check(ref.same_bound(got, expect, bound, n), "permute-index-map", ref.diff_info(got, expect))
    with ctx.sut("ttensor.permute-inverse"):
        B = R.permute(np.array(inv(p)))
    with ctx.sut("ttensor.isequal"):
        ctx.check(B.isequal(T), "permute-roundtrip-isequal")
    with ctx.sut("ttensor.permute-again"):
        R2 = T.permute(list(p))
    ctx.check(isinstance(R2, ttb.ttensor) and ref.same_exact(ref.den(R2), got), "permute-second-call-same")
    ctx.check(_untouched(T.core, csnap), "permute-leaves-operand")
    # (round 3) the result has a core of its own: assigning into it does not reach the operand's core
    if ref.prod(case["cshape"]):
        with ctx.sut("ttensor.permute-result-core.setitem"):
            R.core[tuple(0 for _ in case["cshape"])] = 987654.0
        ctx.check(_untouched(T.core, csnap), "permute-result-does-not-alias-operand")


# --------------------------------------------------------------------------
# reshape
# --------------------------------------------------------------------------


def factorizations(n: int, max_parts: int = 4):
    """All ordered tuples of 1..max_parts positive integers (ones included) with product n."""
    out = []

    def rec(rem, parts):
        if parts and rem == 1:
            out.append(list(parts))
        if len(parts) == max_parts:
            return
        for d in range(1, rem + 1):
            if rem % d == 0:
                rec(rem // d, parts + [d])

    rec(n, [])
    return out


@st.composite
def _target_shape(draw, n, max_parts=4):
    """A target shape with product n: factor n greedily with random divisors, sprinkle singletons."""
    if draw(st.integers(0, 7)) == 0:
        return [n]  # flatten to a vector
    parts = []
    rem = n
    while rem > 1 and len(parts) < max_parts - 1:
        divs = [d for d in range(1, rem + 1) if rem % d == 0]
        d = draw(st.sampled_from(divs))
        parts.append(d)
        rem //= d
    parts.append(rem)
    if len(parts) < max_parts and draw(st.booleans()):
        pos = draw(st.integers(0, len(parts)))
        parts.insert(pos, 1)
    return parts


@st.composite
def _reshape_dense(draw, tier):
    c = draw(_dense_operand(tier, min_order=1))
    c["new"] = draw(_target_shape(ref.prod(c["shape"])))
    c["sform"] = _shape_form(draw, c["new"])
    return c


def _nt_reshape(old, new):
    return tuple(old) != tuple(new) and len(set(old)) >= 2 and ref.prod(old) > 1


@cell("C07/reshape/tensor", strategy=_reshape_dense, quick=1500, thorough=20000)
def reshape_tensor(ctx, case):
    X, A = build_dense(ctx, case)
    ctx.label("prov-grown" if gen.is_grown(X) else "prov-ctor")
    new = case["new"]
    sform = case.get("sform", "tuple")
    ctx.nt = _nt_reshape(case["shape"], new)
    ctx.label(*gen.shape_classes(case["shape"]), f"to-order{len(new)}", "shape-as-" + sform)
    snap = _snapshot(X)
    with ctx.sut("tensor.reshape"):
        R = X.reshape(shape_arg(new, sform))
    ctx.require(isinstance(R, ttb.tensor), "reshape-returns-tensor")
    expect = A.reshape(tuple(new), order="F")
    ctx.check(tup(R.shape) == tuple(new), "reshape-shape", tup(R.shape))
    ctx.check(ref.same_exact(ref.den(R), expect), "reshape-index-map", ref.diff_info(ref.den(R), expect))
    with ctx.sut("tensor.reshape-back"):
        B = R.reshape(tuple(case["shape"]))
    ctx.check(ref.same_exact(ref.den(B), A) and tup(B.shape) == A.shape, "reshape-roundtrip")
    # the original must still denote A (reshape returns a new object), and a second call gives the same answer
    ctx.check(ref.same_exact(ref.den(X), A) and _untouched(X, snap), "reshape-leaves-operand")
    with ctx.sut("tensor.reshape-again"):
        R2 = X.reshape(tuple(new))
    ctx.check(isinstance(R2, ttb.tensor) and tup(R2.shape) == tuple(new) and ref.same_exact(ref.den(R2), expect),
              "reshape-second-call-same")
    ctx.check(ref.same_exact(ref.den(R), expect), "reshape-result-stable")
    _independent(ctx, X, snap, R, expect, "reshape")


@st.composite
def _reshape_sparse(draw, tier):
    c = draw(_sparse_operand(tier, min_order=1))
    n = len(c["shape"])
    mode = draw(st.sampled_from(["all", "subset", "subset"]))
    if mode == "all":
        c["old_modes"] = None
        c["new"] = draw(_target_shape(ref.prod(c["shape"])))
        c["omform"] = None
    else:
        om = draw(gen.mode_subset(n, 1, n))
        c["old_modes"] = om
        c["new"] = draw(_target_shape(ref.prod(c["shape"][m] for m in om), max_parts=3))
        c["omform"] = draw(st.sampled_from(["array", "array", "int32"] + (["scalar", "npint-scalar"] if len(om) == 1 else [])))
    c["sform"] = _shape_form(draw, c["new"])
    return c


@cell("C07/reshape/sptensor", strategy=_reshape_sparse, quick=1500, thorough=20000)
def reshape_sptensor(ctx, case):
    X, A, ez = build_sparse(ctx, case)
    new, om = case["new"], case["old_modes"]
    sform, omform = case.get("sform", "tuple"), case.get("omform") or "array"
    N = len(case["shape"])
    ctx.label("pattern-" + case["pattern"], "stored-" + case["order"], "old_modes-none" if om is None else
              ("old_modes-sorted" if om == sorted(om) else "old_modes-unsorted"), "shape-as-" + sform)
    if om is not None:
        ctx.label("old_modes-as-" + omform)
    if om is None:
        keep = []
        sel = list(range(N))
    else:
        sel = list(om)
        keep = [m for m in range(N) if m not in sel]
    sel_shape = [case["shape"][m] for m in sel]
    ctx.nt = _nt_reshape(sel_shape, new) or (om is not None and om != sorted(om))
    snap = _snapshot(X)
    with ctx.sut("sptensor.reshape"):
        R = X.reshape(shape_arg(new, sform)) if om is None else X.reshape(shape_arg(new, sform), order_arg(om, omform))
    ctx.require(isinstance(R, ttb.sptensor), "reshape-returns-sptensor")
    At = np.transpose(A, keep + sel)
    keep_shape = [case["shape"][m] for m in keep]
    expect = At.reshape(tuple(keep_shape + list(new)), order="F")
    ctx.check(tup(R.shape) == expect.shape, "reshape-shape", f"{tup(R.shape)} vs {expect.shape}")
    probs = ref.sptensor_problems(R, allow_explicit_zero=ez)
    ctx.require(not probs, "reshape-result-wellformed", probs)
    ctx.check(ref.same_exact(ref.den(R), expect), "reshape-index-map", ref.diff_info(ref.den(R), expect))
    ctx.check(_untouched(X, snap), "reshape-leaves-operand")
    if om is None:
        with ctx.sut("sptensor.reshape-back"):
            B = R.reshape(tuple(case["shape"]))
        ctx.check(ref.same_exact(ref.den(B), A), "reshape-roundtrip")
        # the dense holder of the same data agrees
        with ctx.sut("tensor.reshape"):
            D = ttb.tensor(A.copy(order="F"), tuple(case["shape"])).reshape(tuple(new))
        ctx.check(ref.same_exact(ref.den(D), ref.den(R)), "reshape-dense-sparse-agree")
    elif om == sorted(om) and len(sel) >= 1:
        # reshape the trailing block back to the selected modes' shape: must equal the transposed original
        k = len(keep)
        with ctx.sut("sptensor.reshape-back"):
            B = R.reshape(tuple(sel_shape), np.arange(k, k + len(new)))
        ctx.check(ref.same_exact(ref.den(B), At), "reshape-roundtrip", ref.diff_info(ref.den(B), At))
    # second call on the same object
    with ctx.sut("sptensor.reshape-again"):
        R2 = X.reshape(tuple(new)) if om is None else X.reshape(tuple(new), np.array(om))
    ctx.check(isinstance(R2, ttb.sptensor) and tup(R2.shape) == expect.shape and ref.same_exact(ref.den(R2), expect),
              "reshape-second-call-same")
    ctx.check(_untouched(X, snap), "reshape-leaves-operand")
    ctx.check(ref.same_exact(ref.den(R), expect), "reshape-result-stable")
    _independent(ctx, X, snap, R, expect, "reshape")


def _enum_reshape(tier):
    ns = [1, 2, 4, 6, 8, 12] if tier == "quick" else [1, 2, 3, 4, 6, 8, 9, 12, 16, 18, 24]
    for n in ns:
        fs = factorizations(n, 4 if n <= 12 else 3)
        for old in fs:
            if len(old) > 3:
                continue
            for new in fs:
                yield dict(old=old, new=new, n=n)


@cell("C07/reshape/enumerated", enum=_enum_reshape, shards=(4, 16))
def reshape_enumerated(ctx, case):
    """every ordered factorisation of the element count as source (<=3 modes) and target (<=4 modes)"""
    old, new, n = case["old"], case["new"], case["n"]
    data = [float(((i * 5) % 7) - 2) for i in range(n)]
    A = gen.arr_F(old, data)
    ctx.nt = _nt_reshape(old, new)
    expect = A.reshape(tuple(new), order="F")
    with ctx.sut("tensor.reshape"):
        R = ttb.tensor(A.copy(order="F"), tuple(old)).reshape(tuple(new))
    ctx.check(tup(R.shape) == tuple(new), "reshape-shape")
    ctx.check(ref.same_exact(ref.den(R), expect), "reshape-index-map", ref.diff_info(ref.den(R), expect))
    S = gen.build_sptensor(gen.sparse_case_from_dense(A))
    with ctx.sut("sptensor.reshape"):
        RS = S.reshape(tuple(new))
    probs = ref.sptensor_problems(RS)
    ctx.require(not probs, "reshape-result-wellformed", probs)
    ctx.check(tup(RS.shape) == tuple(new), "reshape-shape")
    ctx.check(ref.same_exact(ref.den(RS), expect), "reshape-index-map", ref.diff_info(ref.den(RS), expect))


# --------------------------------------------------------------------------
# squeeze
# --------------------------------------------------------------------------


@st.composite
def _squeeze_case(draw, tier):
    sparse = draw(st.booleans())
    base = draw(gen.sparse_case(tier, min_order=1, max_order=3)) if sparse else draw(
        gen.dense_case(tier, min_order=1, max_order=3))
    # insert singleton modes on purpose (this changes nothing in the F-order data list)
    k = draw(st.integers(0, 2))
    shape = list(base["shape"])
    pos = []
    for _ in range(k):
        p = draw(st.integers(0, len(shape)))
        shape.insert(p, 1)
        pos.append(p)
        if sparse:
            for s in base["subs"]:
                s.insert(p, 0)
    base["shape"] = shape
    base["holder"] = "sptensor" if sparse else "tensor"
    if draw(st.integers(0, 9)) == 0:
        # all-singleton tensor
        base["shape"] = [1] * draw(st.integers(1, 4))
        v = draw(st.sampled_from([0.0, 2.0, -3.5]))
        if sparse:
            base["subs"] = [[0] * len(base["shape"])] if v != 0 else []
            base["vals"] = [v] if v != 0 else []
            base["pattern"] = "all" if v != 0 else "none"
            if v == 0 and draw(st.booleans()):
                base["ez"] = [[[0] * len(base["shape"]), 0]]  # the single entry is an explicitly stored zero
        else:
            base["data"] = [v]
            base["prov"] = "ctor"
    else:
        # derived states / dtypes (after the singleton modes are in place)
        if base["vkind"] == "int" and draw(st.integers(0, 2)) == 0 and all(float(v).is_integer() for v in (
                base["vals"] if sparse else base["data"])):
            base["dt"] = "int64"
        if sparse and draw(st.integers(0, 3)) == 0:
            A = gen.dense_of_sparse_case(base)
            zeros = [[int(i) for i in z] for z in np.argwhere(A == 0)]
            if zeros:
                i = draw(st.integers(0, len(zeros) - 1))
                base["ez"] = [[zeros[i], draw(st.integers(0, len(base["subs"])))]]
        _draw_pre(draw, base)
    return base


@cell("C07/squeeze", strategy=_squeeze_case, quick=1500, thorough=20000)
def squeeze(ctx, case):
    sparse = case["holder"] == "sptensor"
    ez = False
    if sparse:
        X, A, ez = build_sparse(ctx, case)
    else:
        X, A = build_dense(ctx, case)
    shape = case["shape"]
    ones = sum(1 for s in shape if s == 1)
    ctx.label(case["holder"], "all-singleton" if ones == len(shape) else ("some-singleton" if ones else "no-singleton"))
    ctx.nt = 0 < ones < len(shape)
    snap = _snapshot(X)
    with ctx.sut(f"{case['holder']}.squeeze"):
        R = X.squeeze()
    expect = np.squeeze(A)
    if ones == len(shape):
        ctx.label("scalar-zero" if float(expect) == 0 else "scalar-nonzero")
        ctx.require(isinstance(R, (int, float, np.integer, np.floating)), "squeeze-all-singleton-gives-scalar",
                    type(R).__name__)
        ctx.check(float(R) == float(expect), "squeeze-scalar-value", f"{R} vs {float(expect)}")
        ctx.check(_untouched(X, snap), "squeeze-leaves-operand")
        return
    ctx.require(type(R) is type(X), "squeeze-returns-same-class", type(R).__name__)
    ctx.check(tup(R.shape) == expect.shape, "squeeze-shape", f"{tup(R.shape)} vs {expect.shape}")
    if sparse:
        probs = ref.sptensor_problems(R, allow_explicit_zero=ez)
        ctx.require(not probs, "squeeze-result-wellformed", probs)
    ctx.check(ref.same_exact(ref.den(R), expect), "squeeze-index-map", ref.diff_info(ref.den(R), expect))
    ctx.check(_untouched(X, snap), "squeeze-leaves-operand")
    # second call on the same object; squeezing the result again changes nothing
    with ctx.sut(f"{case['holder']}.squeeze-again"):
        R2 = X.squeeze()
        R3 = R.squeeze()
    for nm, Y in (("squeeze-second-call-same", R2), ("squeeze-idempotent", R3)):
        ctx.check(type(Y) is type(X) and tup(Y.shape) == expect.shape and ref.same_exact(ref.den(Y), expect), nm)
    ctx.check(ref.same_exact(ref.den(R), expect), "squeeze-result-stable")
    _independent(ctx, X, snap, R, expect, "squeeze")


# --------------------------------------------------------------------------
# (round 3) sizes above internal thresholds: huge sparse modes, many stored entries
# --------------------------------------------------------------------------
# Sparse tensors are made for modes far longer than anything that fits a dense array: mode lengths above 2**31 (int32)
# and above 2**53 (where float64 no longer holds every integer), with the element count kept below 2**63 so that a
# linear index still fits int64.  The oracle is exact Python-integer index arithmetic on the stored subscripts (no
# dense array).  A second cell uses moderately large tensors with 1e4 .. 5e4 stored entries against NumPy on the
# expanded array.

_ATOMS = [2, 2, 4, 3, 2 ** 10, 2 ** 20, 2 ** 31, 2 ** 31 + 1, 2 ** 33 - 1, 2 ** 53 + 1, 2 ** 53 + 3, 2 ** 60]


def _py_lin(sub, shape):
    i, m = 0, 1
    for s, n in zip(sub, shape):
        i += int(s) * m
        m *= int(n)
    return i


def _py_unlin(i, shape):
    out = []
    for n in shape:
        out.append(i % int(n))
        i //= int(n)
    return out


@st.composite
def _huge_case(draw, tier):
    # atoms whose product stays below 2**63; modes are products of adjacent atoms
    atoms, total = [], 1
    for _ in range(draw(st.integers(1, 6))):
        cand = [a for a in _ATOMS if total * a < 2 ** 63]
        if not cand:
            break
        a = draw(st.sampled_from(cand))
        atoms.append(a)
        total *= a
    def group(seq, cuts):
        out, cur = [], 1
        for i, a in enumerate(seq):
            cur *= a
            if i in cuts or i == len(seq) - 1:
                out.append(cur)
                cur = 1
        return out
    cuts = set(draw(st.lists(st.integers(0, max(0, len(atoms) - 2)), max_size=3))) if len(atoms) > 1 else set()
    shape = group(atoms, cuts)
    if draw(st.booleans()):
        shape.insert(draw(st.integers(0, len(shape))), 1)  # a singleton mode (squeeze)
    shape = shape[:5]
    total = ref.prod(shape)
    nnz = draw(st.sampled_from([1, 2, 3, 4, 5, 3, 0]))
    subs = []
    for _ in range(nnz):
        sub = []
        for n in shape:
            picks = [0, n - 1, n // 2, n // 3, min(n - 1, 2 ** 53 + 1), min(n - 1, 2 ** 31), draw(st.integers(0, n - 1))]
            sub.append(int(draw(st.sampled_from(picks))))
        if sub not in subs:
            subs.append(sub)
    vals = [draw(gen.NZ_INT_VALUES) for _ in subs]
    op = draw(st.sampled_from(["permute", "reshape", "reshape", "reshape-subset", "squeeze"]))
    c = dict(shape=[int(n) for n in shape], subs=subs, vals=vals, op=op)
    N = len(shape)
    if op == "permute":
        c["perm"] = list(draw(st.permutations(range(N))))
    elif op == "reshape":
        seq = list(draw(st.permutations(atoms)))
        cuts2 = set(draw(st.lists(st.integers(0, max(0, len(seq) - 2)), max_size=3))) if len(seq) > 1 else set()
        new = group(seq, cuts2) if seq else [1]
        c["new"] = [int(n) for n in new]
        if ref.prod(c["new"]) != total:
            c["new"] = [int(total)]
    elif op == "reshape-subset":
        om = draw(gen.mode_subset(N, 1, N))
        sel = [shape[m] for m in om]
        c["old_modes"] = om
        c["new"] = [int(x) for x in (list(draw(st.permutations(sel))) if draw(st.booleans()) else [ref.prod(sel)])]
    return c


@cell("C07/huge-modes/sptensor", strategy=_huge_case, quick=500, thorough=8000)
def huge_modes_sptensor(ctx, case):
    shape, subs, vals = case["shape"], case["subs"], case["vals"]
    N, op = len(shape), case["op"]
    big = max(shape)
    ctx.label("op-" + op, f"order{N}", "mode>2^53" if big > 2 ** 53 else ("mode>2^31" if big > 2 ** 31 else "modes-small"),
              "count>2^53" if ref.prod(shape) > 2 ** 53 else "count<=2^53", f"nnz{min(len(subs), 3)}")
    ctx.nt = big > 2 ** 31 and len(subs) >= 1
    if subs:
        X = ttb.sptensor(np.array(subs, dtype=np.int64).reshape(len(subs), N), np.array(vals, dtype=float).reshape(-1, 1),
                         tuple(shape))
    else:
        X = ttb.sptensor(shape=tuple(shape))
    entries = {tuple(s): float(v) for s, v in zip(subs, vals)}
    if op == "permute":
        p = case["perm"]
        with ctx.sut("sptensor.permute"):
            R = X.permute(np.array(p))
        eshape = [shape[i] for i in p]
        expect = {tuple(s[i] for i in p): v for s, v in entries.items()}
    elif op == "squeeze":
        with ctx.sut("sptensor.squeeze"):
            R = X.squeeze()
        keep = [i for i, n in enumerate(shape) if n != 1]
        if not keep:
            ctx.require(isinstance(R, (int, float, np.integer, np.floating)), "squeeze-all-singleton-gives-scalar", type(R).__name__)
            ctx.check(float(R) == float(sum(entries.values())), "squeeze-scalar-value", R)
            return
        eshape = [shape[i] for i in keep]
        expect = {tuple(s[i] for i in keep): v for s, v in entries.items()}
    else:
        new = case["new"]
        om = case.get("old_modes")
        sel = list(range(N)) if om is None else list(om)
        keep = [m for m in range(N) if m not in sel]
        with ctx.sut("sptensor.reshape"):
            R = X.reshape(tuple(new)) if om is None else X.reshape(tuple(new), np.array(om))
        eshape = [shape[m] for m in keep] + list(new)
        expect = {}
        for s, v in entries.items():
            lin = _py_lin([s[m] for m in sel], [shape[m] for m in sel])
            expect[tuple([s[m] for m in keep] + _py_unlin(lin, new))] = v
    ctx.require(isinstance(R, ttb.sptensor), f"{op}-returns-sptensor", type(R).__name__)
    ctx.check([int(n) for n in R.shape] == [int(n) for n in eshape], "huge-shape", f"{tuple(R.shape)} vs {eshape}")
    if R.subs.size:
        ctx.require(np.issubdtype(np.asarray(R.subs).dtype, np.integer), "huge-subscripts-are-integers", str(R.subs.dtype))
        got = {tuple(int(i) for i in r): float(v) for r, v in zip(np.asarray(R.subs), np.asarray(R.vals).reshape(-1))}
        ctx.check(len(got) == R.subs.shape[0], "huge-distinct-subscripts")
    else:
        got = {}
    ctx.check(got == expect, "huge-index-map", f"got {sorted(got.items())[:3]} expect {sorted(expect.items())[:3]}")
    # the operand is untouched
    now = {tuple(int(i) for i in r): float(v) for r, v in zip(np.asarray(X.subs), np.asarray(X.vals).reshape(-1))} if X.subs.size else {}
    ctx.check(now == entries and [int(n) for n in X.shape] == shape, "huge-leaves-operand")


@st.composite
def _many_case(draw, tier):
    shape = draw(st.sampled_from([[300, 200, 30], [1500, 900], [60, 50, 40, 10], [120000, 7], [250, 1, 400, 9]]))
    total = ref.prod(shape)
    nnz = draw(st.sampled_from([10001, 16385, 20000, 33000, 50000]))
    seed = draw(st.integers(0, 2 ** 16))
    op = draw(st.sampled_from(["permute", "reshape", "reshape-subset", "squeeze"]))
    c = dict(shape=shape, nnz=min(nnz, total // 2), seed=seed, op=op)
    N = len(shape)
    if op == "permute":
        c["perm"] = list(draw(st.permutations(range(N))))
    elif op == "reshape":
        c["new"] = draw(st.sampled_from([[total], [total // 2, 2], [2, total // 4, 2], [10, total // 10]]))
    elif op == "reshape-subset":
        c["old_modes"] = draw(gen.mode_subset(N, 1, N - 1))
        c["new"] = [ref.prod(shape[m] for m in c["old_modes"])]
    return c


@cell("C07/many-nonzeros/sptensor", strategy=_many_case, quick=3, thorough=40)
def many_nonzeros_sptensor(ctx, case):
    """1e4 .. 5e4 stored entries (positions: a fixed-stride walk through the linear indices, stored in that - unsorted -
    order), judged against NumPy on the expanded array"""
    shape, nnz, op = case["shape"], case["nnz"], case["op"]
    total = ref.prod(shape)
    stride = 2 * (case["seed"] % 1000) + 7919
    while np.gcd(stride, total) != 1:
        stride += 2
    lin = (case["seed"] + stride * np.arange(nnz, dtype=np.int64)) % total
    subs = np.array(np.unravel_index(lin, tuple(shape), order="F")).T.astype(np.int64)
    vals = ((np.arange(nnz) % 13) - 6.0)
    vals[vals == 0] = 7.0
    X = ttb.sptensor(subs.copy(), vals.reshape(-1, 1).copy(), tuple(shape))
    A = np.zeros(tuple(shape))
    A[tuple(subs.T)] = vals
    N = len(shape)
    ctx.label("op-" + op, f"nnz>={nnz // 10000}e4")
    ctx.nt = True
    if op == "permute":
        with ctx.sut("sptensor.permute"):
            R = X.permute(np.array(case["perm"]))
        expect = np.transpose(A, case["perm"])
    elif op == "squeeze":
        with ctx.sut("sptensor.squeeze"):
            R = X.squeeze()
        expect = np.squeeze(A)
    else:
        om = case.get("old_modes")
        sel = list(range(N)) if om is None else list(om)
        keep = [m for m in range(N) if m not in sel]
        with ctx.sut("sptensor.reshape"):
            R = X.reshape(tuple(case["new"])) if om is None else X.reshape(tuple(case["new"]), np.array(om))
        expect = np.transpose(A, keep + sel).reshape(tuple([shape[m] for m in keep] + list(case["new"])), order="F")
    ctx.require(isinstance(R, ttb.sptensor), f"{op}-returns-sptensor", type(R).__name__)
    ctx.require(tup(R.shape) == expect.shape, "many-shape", f"{tup(R.shape)} vs {expect.shape}")
    rs, rv = np.asarray(R.subs), np.asarray(R.vals).reshape(-1)
    ctx.require(rs.ndim == 2 and rs.shape == (nnz, expect.ndim) and np.issubdtype(rs.dtype, np.integer)
                and bool((rs >= 0).all()) and bool((rs < np.array(expect.shape)).all()), "many-result-wellformed", rs.shape)
    B = np.zeros(expect.shape)
    np.add.at(B, tuple(rs.T), rv)
    ctx.check(len(np.unique(np.ravel_multi_index(tuple(rs.T), expect.shape))) == nnz, "many-distinct-subscripts")
    ctx.check(np.array_equal(B, expect), "many-index-map", ref.diff_info(B, expect))
    ctx.check(np.array_equal(np.asarray(X.subs), subs) and np.array_equal(np.asarray(X.vals).reshape(-1), vals), "many-leaves-operand")
