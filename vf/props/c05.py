"""C05 — operations never modify their operands and never alias them.

One cell per public operation (``C05/<class>/<op>``).  The registry lives in the sub-modules
``_c05_tensor``, ``_c05_sptensor``, ``_c05_kruskal`` (ktensor, ttensor, sumtensor), ``_c05_mat`` (tenmat,
sptenmat) and ``_c05_alg`` (cp_als, cp_apr, hosvd, tucker_als, gcp_opt); the oracle is
``_c05_helpers.check_op``.
"""

from __future__ import annotations

from . import _c05_reg as R

PROPERTY = "C05"
RULE = (
    "one cell per public operation of tensor/sptensor/ktensor/ttensor/sumtensor/tenmat/sptenmat and per algorithm "
    "entry point; a case = (receiver data, every argument, the parameter form) drawn by Hypothesis with the "
    "view-returning parameter classes made frequent (identity permutation, size-preserving reshape, single-mode "
    "selection, ttv on one mode, squeeze without singleton, unit weights, pass-through function handles).  Oracle: "
    "bit-exact snapshot (dtype+shape+tobytes of every reachable ndarray, plus shapes/list lengths/scalars) of the "
    "receiver and of every argument before and after the call; np.shares_memory between every array reachable from "
    "the result and every array reachable from an operand; overwrite each operand buffer -> result snapshot "
    "unchanged; overwrite each result buffer -> operand snapshots unchanged.  Documented in-place operations "
    "(__setitem__, ktensor.arrange/normalize/fixsigns/redistribute/update) may change the receiver only, and the "
    "receiver must end up independent of the other arguments.  Non-trivial: the operation returned and at least one "
    "operand (receiver included) holds a non-empty array, so the bit-identity clause has something to protect; the "
    "share of cases whose result also holds an array (independence clauses active) is the label 'result-has-arrays'."
)
ASSUMPTIONS = [
    "explicit no-copy constructions (copy=False, to_tensor(copy=False), to_tenmat(copy=False), from_function) are outside the claim and not generated",
    "an exception raised by the operation is not a C05 violation (whether a value is returned is C02/C03/C04/C19); it is "
    "labelled 'raised:<Type>' and the case counts as trivial",
    "snapshots compare bytes, so -0.0 vs 0.0 and NaN payloads count as changes; memory layout (F/C) does not",
    "a write is observed through the public attributes only (data, subs, vals, weights, factor_matrices, core, parts, "
    "rindices, cindices, rdims, cdims; scipy.sparse data/row/col/indices/indptr)",
    "np.random.seed(case['np_seed']) immediately before every call that may draw random numbers",
]
PREDICATES = R.PREDICATES

from . import _c05_tensor  # noqa: E402,F401
from . import _c05_sptensor  # noqa: E402,F401
from . import _c05_kruskal  # noqa: E402,F401
from . import _c05_mat  # noqa: E402,F401
from . import _c05_alg  # noqa: E402,F401
