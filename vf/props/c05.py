"""C05 — operations never modify their operands and never alias them.

One cell per public operation (``C05/<class>/<op>``).  The registry lives in the sub-modules
``_c05_tensor``, ``_c05_sptensor``, ``_c05_kruskal`` (ktensor, ttensor, sumtensor), ``_c05_mat`` (tenmat,
sptenmat) and ``_c05_alg`` (cp_als, cp_apr, hosvd, tucker_als, gcp_opt); the oracle is
``_c05_helpers.check_op``.
"""

from __future__ import annotations

from . import _c05_reg as R

PROPERTY = "C05"
RULE = (
    "one cell per public operation of tensor/sptensor/ktensor/ttensor/sumtensor/tenmat/sptenmat and per algorithm "
    "entry point; a case = (receiver data, every argument, the parameter form) drawn by Hypothesis with the "
    "view-returning parameter classes made frequent (identity permutation, size-preserving reshape, single-mode "
    "selection, ttv on one mode, squeeze without singleton, unit weights, pass-through function handles).  Oracle: "
    "bit-exact snapshot (dtype+shape+tobytes of every reachable ndarray, plus shapes/list lengths/scalars) of the "
    "receiver and of every argument before and after the call; np.shares_memory between every array reachable from "
    "the result and every array reachable from an operand; overwrite each operand buffer -> result snapshot "
    "unchanged; overwrite each result buffer -> operand snapshots unchanged.  Documented in-place operations "
    "(__setitem__, ktensor.arrange/normalize/fixsigns/redistribute/update) may change the receiver only, and the "
    "receiver must end up independent of the other arguments.  Non-trivial: the operation returned and at least one "
    "operand (receiver included) holds a non-empty array, so the bit-identity clause has something to protect; the "
    "share of cases whose result also holds an array (independence clauses active) is the label 'result-has-arrays'.  "
    "Round 2 (applied by the registry to every cell, see _c05_states): (1) every tensor-like operand anywhere in a "
    "case gets a derived state (dense grown / permuted / reshaped / sliced ...; sparse with explicitly stored zeros / "
    "numpy-int shape / grown / permuted; Kruskal after normalize(weight_factor=k) ...; Tucker with such a core; tenmat / "
    "sptenmat obtained by matricising such a tensor) and, for integer-valued data, an integer storage dtype; auxiliary "
    "vectors / matrices / factors are optionally integer, all ones, all zeros, with a zero row, Fortran-ordered or "
    "strided views.  (2) state across calls: in most cases the operation is called a second time on the same operands "
    "(after they were verified bit-identical): the second result must not share memory with the first, must not "
    "change when the first is overwritten, must leave the operands unchanged again and - for deterministic "
    "operations - must equal the first; the remaining clauses are applied to the second result.  In some cases a "
    "second history is run: prime the operation, overwrite the value arrays of its operands in place (reversed "
    "entries plus one), call again; the result must equal that of the same call on freshly built operands edited "
    "the same way before any call (clauses second-*, stale-after-in-place-edit, edit-history-outcome-differs).  "
    "Round 3: (forks) when the storage clauses found nothing, every operand and then the result is changed through a "
    "*documented in-place operation* (item assignment of the first and last entry for tensor / sptensor / tenmat; "
    "normalize, redistribute or arrange for a Kruskal tensor) and the other side is judged again (clauses "
    "result-changed-by-in-place-op-on:<operand>, operand-changed-by-in-place-op-on:<operand>, "
    "operand-changed-by-in-place-op-on-result:<operand>; labels fork:*); (special values) tensor-like operands anywhere "
    "in a case are, in one case out of six, in units of 1e-9 / 1e-10 / 1e-12 / 1e9 / 1e12 (labels mag-*), auxiliary "
    "vectors / matrices are also the identity / first unit vector exactly or perturbed by 1e-9, or in units of 1e-9 / "
    "1e9, ttv cells draw unit and all-ones vectors, masks select everything / nothing; (degenerate requests) reads and "
    "writes with empty index arrays, empty subscript arrays, empty or stepped or reversed slices (labels key-*-empty); "
    "(large) C05/large/<class>: an operation of the class on an operand above internal block sizes (1e4..6e4 stored "
    "nonzeros, 1e5..1e6 cells, rank 10..20), stored as a compact description and expanded from its seed.  "
    "Round 4: (presentations, class 11) every constructor cell hands over its arrays C- / F-ordered, as strided or reversed "
    "views, read-only, in float32 / int32 / int64 and index arrays in int32 / uint8 / uint16 / uint64 (labels "
    "<operand>-presented-*, factor-presented-*), factors and parts in a list or a tuple; every Tucker tensor anywhere in a "
    "case has its factor matrices presented to the constructor as scipy.sparse COO matrices (they stay COO inside the "
    "object: copy, deepcopy, +, -, scalar multiples, permute, ttm, sumtensor parts ... are judged on them), strided / "
    "read-only / float32 arrays (labels factors-ttensor-*), every Kruskal tensor likewise (no COO, no float32: ktensor "
    "wants float64 ndarrays); dense / sparse tensors are also stored in float32; auxiliary vectors / matrices / item-assignment "
    "values are also read-only, float32, int32, reversed views or (matrices) COO; lists of multiplicands are also tuples; a "
    "ValueError 'read-only' raised while an operand is presented read-only is the clause writes-into-read-only-operand.  "
    "(rejected requests, class 12) whenever a call raises - in every cell - every operand, the receiver of a documented "
    "in-place operation included, must be bit for bit what it was (clause operand-changed-by-rejected-call:<operand>); "
    "C05/<class>/rejected and C05/ctor/rejected make ill-formed requests out of a table (mode out of range, wrong-length "
    "lists, wrong value counts, shape mismatch, no permutation, invalid option; item assignment, ktensor.update / arrange / "
    "normalize / redistribute / fixsigns, constructors, algorithm entry points with an ill-formed initial guess / dimorder); "
    "there a case is non-trivial when the request was rejected and an operand array existed.  (reporting, class 13) "
    "printitn / printinneritn / verbosity / optimizer printitn over their ranges (silent, every iteration, every k-th, "
    "beyond maxiters; hosvd's thresholds 0, 2, 5), and in one case out of six the root logger is at DEBUG with a "
    "NullHandler while the operation runs (label root-logger-DEBUG): all clauses apply unchanged."
)
ASSUMPTIONS = [
    "wall-clock measurements inside a result (any path mentioning 'time') are not values: they are ignored when two "
    "results are compared for equality (they still take part in the aliasing clauses)",
    "operations that call ARPACK (nvecs of every class, cp_als, tucker_als) are not bit-reproducible from call to call "
    "(ARPACK keeps its own start-vector generator): for them the second call is judged for aliasing only and the "
    "edit history is not run",
    "arrays of a result that are views of an operand are judged by the clauses aliased:<operand> (where the open "
    "findings match); the clauses about a pair of results look at the other arrays only",
    "in-place operations (setitem, normalize, arrange ...) are not called twice and have no edit history",
    "explicit no-copy constructions (copy=False, to_tensor(copy=False), to_tenmat(copy=False), from_function) are outside the claim and not generated",
    "an exception raised by the operation is not a C05 violation (whether a value is returned is C02/C03/C04/C19); it is "
    "labelled 'raised:<Type>' and the case counts as trivial",
    "snapshots compare bytes, so -0.0 vs 0.0 and NaN payloads count as changes; memory layout (F/C) does not",
    "a write is observed through the public attributes only (data, subs, vals, weights, factor_matrices, core, parts, "
    "rindices, cindices, rdims, cdims; scipy.sparse data/row/col/indices/indptr)",
    "np.random.seed(case['np_seed']) immediately before every call that may draw random numbers",
    "(round 3) the fork step uses item assignment and the Kruskal re-parameterisations as the documented in-place "
    "operations; ttensor, sumtensor and sptenmat operands have none that applies to every object and are covered by the "
    "raw writes only; operands that are one object (or views of one another) by construction of the case are not judged "
    "against each other",
    "(round 3) the algorithm cells (alg/*) keep data of order one: they have preconditions on their data (counts, "
    "non-negativity) and run long on badly scaled data",
    "(round 3) an empty request returns arrays without memory, so the aliasing clauses have nothing to judge there; "
    "what is judged is that the operands (key arrays included) stay bit-identical and that a no-op write changes nothing",
    "(round 4) a request that is accepted in one presentation and rejected in another is not a C05 matter (C02/C19); the "
    "rejected one is labelled raised:<Type> and only has to leave its operands alone",
    "(round 4) ttensor(copy=False) with scipy COO factors fails in ttensor._matches_order (AttributeError): explicit no-copy "
    "constructions are outside the claim, so the no-copy state densifies COO factors",
    "(round 4) read-only operands cannot be overwritten by the harness, so for them the behavioural clauses (write to "
    "operand -> result unchanged) are vacuous and the static np.shares_memory clause carries the judgement",
    "(round 4) LBFGSB's iprint is not varied: L-BFGS-B prints from compiled code straight to the process stdout",
]
PREDICATES = R.PREDICATES

from . import _c05_tensor  # noqa: E402,F401
from . import _c05_sptensor  # noqa: E402,F401
from . import _c05_kruskal  # noqa: E402,F401
from . import _c05_mat  # noqa: E402,F401
from . import _c05_alg  # noqa: E402,F401
from . import _c05_large  # noqa: E402,F401
from . import _c05_rejected  # noqa: E402,F401
