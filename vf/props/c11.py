"""C11 — CP-APR returns a non-negative model and a truthful objective."""

from __future__ import annotations

import contextlib
import logging

import numpy as np
from hypothesis import strategies as st

import pyttb as ttb

from .. import gen, ref
from ..core import cell

PROPERTY = "C11"
RULE = (
    "cases = (count tensor N 2..3 (4 thorough) with a drawn zero pattern: mixed / empty slice / zero fibres / one "
    "nonzero; counts of order 1, 1e3 or 1e6; held as float64 or in an integer dtype (int64/int32/uint8/uint16/uint64); "
    "dense or sparse holder in a drawn provenance state reached through the public API - constructor (F or C ordered "
    "input), grown by assignment, permuted, converted from the other holder, sparse with generated stored order, "
    "NumPy-integer shape, explicitly stored zeros; rank 1..4; non-negative guess with zero entries / all-zero rows / "
    "unit or positive weights / scale 1e-3..1e3, fresh or after copy/normalize/arrange/redistribute/permute, or "
    "init='random' under a seed; every documented option over its range incl. printing; maxiters k) drawn by "
    "Hypothesis; the algorithm is run with limits k and k+1 on the SAME data and guess objects.  Oracle: returned "
    "ktensor has the requested rank/shape and no negative weight or entry; obj = sum_{x>0} x log m - sum m recomputed "
    "from the einsum of the returned weights and factors; kktViolations >= 0, same length as the other per-iteration "
    "outputs, <= maxiters, and exactly k for the k-run when the (k+1)-run used all k+1 iterations; obj >= "
    "log-likelihood of the guess; data (values and dtype) and guess unchanged; integer-typed data gives the same model "
    "and objective as its float64 image with the same layout.  state cell: sequences of 2..3 calls (repeat / other "
    "printing options / another call or the mirrored data in between / defaults around explicit options) - the "
    "repeated call reproduces the first bit for bit; the data object edited in place by item assignment between two "
    "calls (result = that for the data as it stands, and bit-identical to a freshly constructed tensor with the same "
    "content and layout); the first result overwritten before the call is repeated.  early-exit cells: stoptime 0, "
    "negative, 1e-300 .. 0.1 s with maxiters 1..1000, stoptol 0: whatever number n of sweeps fits into the budget, "
    "every per-iteration output has n non-negative entries, objective / non-negativity / likelihood clauses hold, and "
    "a run with maxiters = n and no time limit reproduces model, objective and histories bit for bit.  large cells: a "
    "few problems with 60000 cells and 1e4..3e4 stored counts (block edges 16384 / 16385) per run through the same "
    "body.  guesses also with entries 1e-30 / 1e-12 (not zeros) and identity-like factors (exact, or perturbed by "
    "1e-9..1e-4).  degenerate cells (all algorithms, both holders): shapes with one / several / only modes of size 1, "
    "rank 1 (40 %), exactly one / two / three positive counts, through the same body.  presentation cells: the reference "
    "request (Python ints, keywords, int64 subscripts, fresh F-ordered float64 arrays) against the same request with the "
    "rank / the iteration limits / lbfgsMem / print levels as NumPy integer scalars (int8..uint64), flags and tolerances "
    "as np.bool_ / np.float64, every optional argument passed positionally in the documented order, sparse subscripts "
    "in int32 / int8 / int16 / uint8 / uint16 / uint32 / uint64, the shape as list / array / tuple of NumPy ints, data or "
    "guess held without copy in read-only arrays, built from strided views, guess factors given as a tuple / C-ordered / "
    "without weights: model, objective and every history bit for bit; float32 counts: same model and objective to a "
    "single-precision bound (1e-5); in between, a request cp_apr rejects (guess of another rank, rank 0, unknown "
    "algorithm / init string, negative guess entry) leaves data and guess as they were.  reporting cells: the quiet "
    "call against the same call with printitn in {1,2,3,5,1000}, printinneritn in {1,2,3,7} and / or the root logger at "
    "DEBUG (NullHandler): model, objective, KKT / inner-iteration / function-evaluation histories bit for bit (fnVals "
    "is recorded only when printing and is not compared).  Non-trivial: data has a zero and a count >= 2, rank >= 2 "
    "(early-exit: run ended before maxiters; degenerate: a singleton mode, rank 1 or <= 3 counts)."
)
ASSUMPTIONS = [
    "objective compared within 1e-9 x (sum |x log m| + sum m) (+ exact match for -inf); pyttb evaluates sum m "
    "from the L1-normalised factors, i.e. with a different summation order",
    "'at least as likely as the guess': obj >= loglik(guess) - 1e-9 x scale; a guess of likelihood -inf is trivially met; "
    "for pdnr/pqnr and a guess with all-zero rows the baseline is the documented perturbed guess (1e-8 in the first "
    "column of those rows) when that is less likely; the guess is read back from the object handed in (init='random': "
    "from the returned guess)",
    "maxiters >= 1; stoptime far beyond any run time in all cells but early-exit, where only clauses that hold for every "
    "number of sweeps performed are asserted (a run reporting zero sweeps would be accepted if its model denotes the "
    "guess); epsDivZero in "
    "[1e-16, 1e-3] (1e-300 makes x/eps overflow: not an admissible safeguard); kappa in [1e-10, 0.1], kappatol in "
    "[1e-16, 1e-3] (MU's slackness offset is not a descent step: kappa = 1 with kappatol = 0.1 can end below the guess)",
    "data has at least one positive count; N >= 2 (tt_loglikelihood unfolds along mode 1)",
    "float32 data is left out of the ordinary cells: pyttb computes in the data's precision where a float32 array meets "
    "a Python scalar, so the 1e-9 objective tolerance would not be justified; the presentation cells run float32 counts "
    "(exactly representable) with every tolerance widened to 1e-5 and demand agreement with the float64 request to 1e-5",
    "presentation / reporting comparisons are bit for bit: cp_apr is deterministic given data, guess and options, and "
    "none of the presentations changes a value, the stored order of the nonzeros or the memory layout pyttb computes on "
    "(its constructors bring every input to F order); a presentation whose constructor does not yield the same tensor "
    "is labelled not-constructible and left to the constructor's own property",
    "a dense tensor grown by assignment and a sparse tensor grown by assignment hold float64 values whatever they "
    "started from (pyttb converts), so integer dtypes are combined with the other provenance states only",
    "MU with a guess of the tiny-entry class that puts less than epsDivZero on a positive count: the likelihood "
    "ordering is not asserted (the update divides by max(model value, epsDivZero): the documented safeguard, not an EM step)",
    "tiny guess entries are 1e-30 / 1e-12: small enough to be below every absolute tolerance, large enough for every "
    "product the algorithms form to stay a normal number (with 1e-290 the L1 normalisation underflows a weight to 0: "
    "a floating-point range limit, not judged)",
    "model-independent-of-data-dtype: 1e-9 relative per factor matrix; the float64 image is built by the same route "
    "and compared only when its stored layout is identical (same operations in the same order)",
]

EPS = np.finfo(float).eps


# --------------------------------------------------------------------------
# generator
# --------------------------------------------------------------------------

COUNT = st.sampled_from([1.0, 1.0, 1.0, 2.0, 2.0, 3.0, 5.0, 9.0])

# count data is naturally held in an integer dtype; float32 is left out (pyttb computes in the data's precision where a
# float32 array meets a Python scalar, so the 1e-9 objective tolerance would not be justified)
DTYPES = ["float64", "float64", "float64", "int64", "int64", "int32", "uint8", "uint16", "uint64"]
DTYPE_MAX = {"uint8": 255, "uint16": 65535, "int32": 2**31 - 1}
DENSE_PROV = ["ctor", "ctor", "ctor-c-order", "grown", "permuted", "from-sparse"]
SPARSE_PROV = ["ctor", "ctor", "np-shape", "explicit-zeros", "explicit-zeros", "grown", "grown", "from-dense", "permuted"]
GUESS_PROV = ["ctor", "ctor", "ctor", "copy", "normalized", "absorbed", "arranged", "permuted", "redistributed"]


DEGENERATE_SHAPES = [[1, 1], [1, 1, 1], [1, 3], [3, 1], [1, 4], [2, 1], [1, 2, 3], [2, 1, 3], [3, 2, 1], [1, 1, 4], [1, 4, 1],
                     [4, 1, 1], [2, 2], [2, 3], [2, 3, 2]]
DEGENERATE_SHAPES_4 = [[1, 1, 1, 1], [1, 2, 1, 3], [2, 1, 1, 1], [1, 1, 1, 3]]


@st.composite
def _apr_case(draw, tier, alg, holder, degenerate=False):
    mo = 3 if tier == "quick" else 4
    if degenerate:
        # extents at their minimum: modes of size 1 (one, several, all of them) next to larger ones, rank 1, and
        # exactly one / two / three positive counts (the draws of the ordinary cells are left as they were)
        shape = list(draw(st.sampled_from(DEGENERATE_SHAPES if tier == "quick" else DEGENERATE_SHAPES + DEGENERATE_SHAPES_4)))
        pattern = draw(st.sampled_from(["one-nonzero", "one-nonzero", "two-nonzeros", "two-nonzeros", "three-nonzeros", "mixed"]))
    else:
        shape = draw(gen.shapes(tier, min_order=2, max_order=mo, max_size=4, max_cells=24 if tier == "quick" else 48))
        pattern = None
    n = ref.prod(shape)
    N = len(shape)
    if pattern is None:
        pattern = draw(st.sampled_from(["mixed", "mixed", "dense-ish", "dense-ish", "empty-slice", "zero-fibres", "one-nonzero"]))
    A = np.zeros(shape)
    if pattern == "one-nonzero":
        A.flat[draw(st.integers(0, n - 1))] = draw(COUNT)
    elif pattern in ("two-nonzeros", "three-nonzeros"):
        kk = min(n, 2 if pattern == "two-nonzeros" else 3)
        for pos in draw(st.lists(st.integers(0, n - 1), min_size=kk, max_size=kk, unique=True)):
            A.flat[pos] = draw(COUNT)
    else:
        p_nz = 0.9 if pattern == "dense-ish" else 0.6
        mask = draw(st.lists(st.floats(0, 1), min_size=n, max_size=n))
        vals = draw(st.lists(COUNT, min_size=n, max_size=n))
        A = np.reshape(np.array([v if m < p_nz else 0.0 for m, v in zip(mask, vals)]), shape, order="F")
        if pattern == "empty-slice":
            k = draw(st.integers(0, N - 1))
            if shape[k] > 1:
                idx = [slice(None)] * N
                idx[k] = draw(st.integers(0, shape[k] - 1))
                A[tuple(idx)] = 0.0
        elif pattern == "zero-fibres":
            k = draw(st.integers(0, N - 1))
            idx = [draw(st.integers(0, s - 1)) for s in shape]
            idx[k] = slice(None)
            A[tuple(idx)] = 0.0
    if not A.any():
        A.flat[draw(st.integers(0, n - 1))] = draw(COUNT)
    # data magnitude: counts of order 1, 1e3 or 1e6 (still integers), as far as the drawn dtype can hold them
    dtype = draw(st.sampled_from(DTYPES))
    dscale = draw(st.sampled_from([1, 1, 1, 1, 25, 1000, 10**6]))
    if 9 * dscale > DTYPE_MAX.get(dtype, 2**62):
        dscale = 25 if dtype == "uint8" else 1000
    A = A * dscale
    dprov = draw(st.sampled_from(DENSE_PROV if holder == "dense" else SPARSE_PROV))
    rank = draw(st.sampled_from([1, 1, 2, 2, 3] if degenerate else [1, 2, 2, 3, 3, 4]))
    gclass = draw(st.sampled_from(["positive", "positive", "positive", "some-zeros", "some-zeros", "zero-row", "zero-row",
                                   "random", "random", "some-tiny", "identity-like"]))
    pv = st.one_of(st.sampled_from([0.5, 1.0]), st.floats(0.05, 2.0), st.floats(0.05, 2.0))
    fv = pv if gclass != "some-zeros" else st.one_of(st.just(0.0), pv, pv, pv, pv, pv)
    if gclass == "some-tiny":
        # entries next to zero that are NOT zeros: far below every absolute tolerance, yet far enough from the
        # underflow threshold for every product of entries and weights the algorithms form to stay a normal number
        tiny = draw(st.sampled_from([[1e-30], [1e-12], [1e-12, 0.0]]))
        fv = st.one_of(st.sampled_from(tiny), pv, pv, pv)
    factors = [draw(st.lists(st.lists(fv, min_size=rank, max_size=rank), min_size=s, max_size=s)) for s in shape]
    if gclass == "identity-like":
        # every factor is the leading block of an identity matrix, exactly or up to 1e-9 .. 1e-4 in every entry
        eps = draw(st.sampled_from([0.0, 1e-9, 1e-6, 1e-4]))
        factors = [[[(1.0 if i == j else 0.0) + (eps * draw(st.floats(0.01, 1.0)) if eps else 0.0) for j in range(rank)]
                    for i in range(s)] for s in shape]
    if gclass == "zero-row":  # an all-zero row in one factor
        k = draw(st.integers(0, N - 1))
        factors[k][draw(st.integers(0, shape[k] - 1))] = [0.0] * rank
    # guess magnitude: the scale of a starting guess is arbitrary
    gscale = draw(st.sampled_from([1.0, 1.0, 1.0, 1.0, 1e-3, 1e3]))
    if gscale != 1.0:
        factors = [[[v * gscale for v in row] for row in f] for f in factors]
    wk = draw(st.sampled_from(["unit", "unit", "positive"]))
    weights = [1.0] * rank if wk == "unit" else draw(st.lists(st.floats(0.1, 5.0), min_size=rank, max_size=rank))
    sc = gen.sparse_case_from_dense(A)
    order = draw(st.sampled_from(["sorted", "reverse", "random"]))
    perm = list(range(len(sc["subs"])))
    if order == "reverse":
        perm = perm[::-1]
    elif order == "random" and len(perm) > 1:
        perm = list(draw(st.permutations(perm)))
    c = dict(alg=alg, holder=holder, shape=list(shape), pattern=pattern,
             subs=[sc["subs"][i] for i in perm], vals=[sc["vals"][i] for i in perm], stored=order,
             dtype=dtype, dscale=dscale, dprov=dprov, mperm=list(draw(st.permutations(range(N)))),
             rank=rank, factors=factors, weights=weights, wkind=wk, gclass=gclass, gscale=gscale,
             gprov="random" if gclass == "random" else draw(st.sampled_from(GUESS_PROV)),
             np_seed=draw(st.integers(0, 2**31 - 1)))
    if holder == "sparse" and dprov == "explicit-zeros":
        zeros = [list(s) for s in ref.all_subs_F(shape) if A[s] == 0]
        zsel = draw(st.lists(st.booleans(), min_size=len(zeros), max_size=len(zeros)))
        c["zsubs"] = [z for z, b in zip(zeros, zsel) if b] or zeros[:1]
    c.update(_option_draw(draw, alg))
    return c


def _option_draw(draw, alg, wide=True):
    """every documented cp_apr option over its admissible range (stoptime stays far away: no wall-clock influence)"""
    c = dict(maxiters=draw(st.sampled_from([1, 2, 2, 3, 3, 4, 5, 8])),
             maxinneriters=draw(st.sampled_from([1, 2, 2, 3, 5, 10, 10, 25])),
             stoptol=draw(st.sampled_from([1e-4, 1e-4, 1e-2, 1e-8, 0.3, 0.0, 1e-14, 5.0])),
             epsDivZero=draw(st.sampled_from([1e-10, 1e-10, 1e-3, 1e-16])),
             stoptime=draw(st.sampled_from([None, None, 1e6, 1e12, float("inf")])),
             printitn=draw(st.sampled_from([0, 0, 0, 1, 2, 3])),
             printinneritn=draw(st.sampled_from([0, 0, 1, 2])))
    if alg == "mu":
        # (the complementary-slackness offset is not a descent step: with kappa of the order of the normalised factor
        #  entries themselves a run may end below its guess, so kappa stays <= 0.1 and kappatol <= 1e-3)
        c["kappa"] = draw(st.sampled_from([0.01, 0.01, 0.1, 1e-3, 1e-10]))
        c["kappatol"] = draw(st.sampled_from([1e-10, 1e-10, 1e-3, 1e-16]))
    else:
        c["epsActive"] = draw(st.sampled_from([1e-8, 1e-8, 1e-3, 1e-14, 0.1]))
        c["precompinds"] = draw(st.booleans())
        if alg == "pdnr":
            c["mu0"] = draw(st.sampled_from([1e-5, 1e-5, 1e-2, 1.0, 1e-12, 1e3]))
            c["inexact"] = draw(st.booleans())
        else:
            c["lbfgsMem"] = draw(st.sampled_from([1, 1, 1, 2, 3, 5, 10]))
    return c


OPTION_KEYS = ["maxinneriters", "stoptol", "epsDivZero", "kappa", "kappatol", "epsActive", "precompinds", "mu0", "inexact",
               "lbfgsMem", "stoptime", "printitn", "printinneritn"]


def _options(case):
    out = {k: case[k] for k in OPTION_KEYS if case.get(k) is not None}
    out.setdefault("printitn", 0)
    return out


# --------------------------------------------------------------------------
# operands in the states public operations leave them in
# --------------------------------------------------------------------------


def _true_array(case):
    return gen.dense_of_sparse_case(case)


def _stored_entries(case, dtype):
    shape = tuple(case["shape"])
    n = len(case["subs"])
    subs = np.array(case["subs"], dtype=int).reshape(n, len(shape))
    vals = np.array(case["vals"], dtype=float).astype(dtype).reshape(n, 1)
    return subs, vals


def _sp_ctor(case, dtype, shape=None):
    shape = tuple(case["shape"]) if shape is None else shape
    subs, vals = _stored_entries(case, dtype)
    if len(subs) == 0:
        return ttb.sptensor(shape=shape)
    return ttb.sptensor(subs, vals, shape)


def _build_data(case, dtype=None):
    """(data object, provenance actually used).  Every state is reached through the public API only; when a route does
    not lead to the wanted tensor (those routes are judged by other properties) the constructor is used instead."""
    dtype = np.dtype(dtype or case.get("dtype", "float64"))
    shape = tuple(case["shape"])
    N = len(shape)
    A = _true_array(case)
    prov = case.get("dprov", "ctor")
    data = None
    try:
        if case["holder"] == "dense":
            Ad = A.astype(dtype)
            if prov == "ctor-c-order":
                data = ttb.tensor(np.ascontiguousarray(Ad))
            elif prov == "grown":
                if dtype == np.float64:  # (growing an integer tensor turns it into a float tensor)
                    data = gen.build_tensor(dict(shape=list(shape), data=[float(v) for v in A.flatten(order="F")], prov="grown"))
            elif prov == "permuted":
                p = list(case["mperm"])
                data = ttb.tensor(np.transpose(Ad, p).copy(order="F")).permute(np.argsort(p))
            elif prov == "from-sparse":
                data = _sp_ctor(case, dtype).to_tensor()
        else:
            subs, vals = _stored_entries(case, dtype)
            if prov == "np-shape":  # shape computed with NumPy, as in sptensor(subs, vals, tuple(subs.max(0) + 1))
                data = _sp_ctor(case, dtype, tuple(np.array(shape, dtype=np.int64)))
            elif prov == "explicit-zeros":
                z = np.array(case["zsubs"], dtype=int).reshape(-1, N)
                allsubs = np.vstack((subs, z))
                allvals = np.vstack((vals, np.zeros((len(z), 1), dtype=dtype)))
                p = np.random.RandomState(case["np_seed"] % (2**31)).permutation(len(allsubs))
                data = ttb.sptensor(allsubs[p], allvals[p], shape)
            elif prov == "grown":
                # entries outside the first corner block are assigned one by one: the tensor grows in place
                cand = [m for m in range(N) if shape[m] >= 2 and np.any(subs[:, m] == shape[m] - 1)]
                if cand:
                    m = cand[case["np_seed"] % len(cand)]
                    small = list(shape)
                    small[m] -= 1
                    inside = subs[:, m] < shape[m] - 1
                    if inside.any():
                        data = ttb.sptensor(subs[inside], vals[inside], tuple(small))
                    else:
                        data = ttb.sptensor(shape=tuple(small))
                    for s, v in zip(subs[~inside], vals[~inside]):
                        data[tuple(int(i) for i in s)] = v[0].item()  # (a grown sptensor ends up with float64 values)
            elif prov == "from-dense":
                data = ttb.tensor(A.astype(dtype)).to_sptensor()
            elif prov == "permuted":
                p = list(case["mperm"])
                if len(subs):
                    data = ttb.sptensor(subs[:, p], vals, tuple(shape[i] for i in p)).permute(np.argsort(p))
    except Exception:  # noqa: BLE001  (the route itself is not the subject here)
        data = None
    if data is not None:
        ok = tuple(int(x) for x in data.shape) == shape and np.array_equal(ref.den(data), A)
        if not ok:
            data = None
    if data is None:
        used = "ctor" if prov == "ctor" else "ctor(fallback-from-" + prov + ")"
        data = ttb.tensor(A.astype(dtype).copy(order="F"), shape) if case["holder"] == "dense" else _sp_ctor(case, dtype)
    else:
        used = prov
    return data, used


def _holder_dtype(data):
    return str((data.vals if isinstance(data, ttb.sptensor) else data.data).dtype)


def _build_guess(case):
    """starting guess: a ktensor fresh from the constructor or in the state an earlier public operation left it in
    (all of them keep entries and weights non-negative); 'random' lets cp_apr draw it"""
    if case.get("gprov") == "random":
        return "random"
    shape = tuple(case["shape"])
    fm = [np.array(f, dtype=float).reshape(s, case["rank"]) for f, s in zip(case["factors"], shape)]
    w = np.array(case["weights"], dtype=float)
    prov = case.get("gprov", "ctor")
    K = ttb.ktensor([f.copy() for f in fm], w.copy())
    try:
        if prov == "copy":
            K = K.copy()
        elif prov == "normalized":
            K.normalize(normtype=1)
        elif prov == "absorbed":
            K.normalize(weight_factor=case["np_seed"] % len(shape))
        elif prov == "arranged":
            K.arrange()
        elif prov == "redistributed":
            K.redistribute(case["np_seed"] % len(shape))
        elif prov == "permuted":
            p = list(case["mperm"])
            K = ttb.ktensor([fm[i].copy() for i in p], w.copy()).permute(np.argsort(p))
    except Exception:  # noqa: BLE001
        K = ttb.ktensor([f.copy() for f in fm], w.copy())
    ok = (isinstance(K, ttb.ktensor) and tuple(K.shape) == shape and K.ncomponents == case["rank"]
          and bool(np.all(K.weights >= 0)) and all(bool(np.all(f >= 0)) for f in K.factor_matrices)
          and all(np.all(np.isfinite(f)) for f in K.factor_matrices) and bool(np.all(np.isfinite(K.weights))))
    if not ok:
        K = ttb.ktensor([f.copy() for f in fm], w.copy())
    return K


def _loglik(A, weights, factors):
    """sum_{x>0} x log m - sum m from the array the Kruskal tensor denotes; returns (value, scale)"""
    M = ref.den_kruskal(weights, factors)
    pos = A > 0
    with np.errstate(all="ignore"):
        t = A[pos] * np.log(M[pos])
    val = float(np.sum(t) - np.sum(M))
    with np.errstate(all="ignore"):
        scale = float(np.sum(np.abs(t[np.isfinite(t)])) + np.sum(np.abs(M)))
    return val, scale


def _snapshot_data(data):
    if isinstance(data, ttb.sptensor):
        return (np.array(data.subs, copy=True), np.array(data.vals, copy=True), tuple(data.shape), str(data.vals.dtype))
    return (np.array(data.data, copy=True), tuple(data.shape), str(data.data.dtype))


def _same_snapshot(a, b):
    return len(a) == len(b) and all(np.array_equal(x, y) if isinstance(x, np.ndarray) else x == y for x, y in zip(a, b))


def _snapshot_guess(init):
    if not isinstance(init, ttb.ktensor):
        return init
    return (np.array(init.weights, copy=True), [np.array(f, copy=True) for f in init.factor_matrices])


def _same_guess(a, b):
    if isinstance(a, str) or isinstance(b, str):
        return a == b
    return (np.array_equal(a[0], b[0]) and len(a[1]) == len(b[1])
            and all(x.shape == y.shape and np.array_equal(x, y) for x, y in zip(a[1], b[1])))


# cp_apr's optional arguments in their documented order, with the documented defaults
DOCUMENTED_ORDER = [("algorithm", "mu"), ("stoptol", 1e-4), ("stoptime", 1e6), ("maxiters", 1000), ("init", "random"),
                    ("maxinneriters", 10), ("epsDivZero", 1e-10), ("printitn", 1), ("printinneritn", 0), ("kappa", 0.01),
                    ("kappatol", 1e-10), ("epsActive", 1e-8), ("mu0", 1e-5), ("precompinds", True), ("inexact", True),
                    ("lbfgsMem", 3)]


def _run(ctx, case, data, init, maxiters, what, options=None, alg=None, rank=None, positional=False):
    """one cp_apr call on the given (reused) data and guess objects; returns (model, guess used, info)"""
    snap = _snapshot_data(data)
    gsnap = _snapshot_guess(init)
    opts = _options(case) if options is None else options
    rank = case["rank"] if rank is None else rank
    if not isinstance(init, ttb.ktensor):
        np.random.seed(case["np_seed"])
    if positional:
        given = dict(opts, algorithm=alg or case["alg"], init=init, maxiters=maxiters)
        args = [given.get(name, default) for name, default in DOCUMENTED_ORDER]
        with ctx.sut(what):
            out = ttb.cp_apr(data, rank, *args)
    else:
        with ctx.sut(what):
            out = ttb.cp_apr(data, rank, algorithm=alg or case["alg"], init=init, maxiters=maxiters, **opts)
    ctx.require(isinstance(out, tuple) and len(out) == 3, "returns-(model,guess,output)", type(out).__name__)
    M, Minit, info = out
    ctx.require(isinstance(M, ttb.ktensor) and isinstance(info, dict) and isinstance(Minit, ttb.ktensor), "result-types")
    # data / guess untouched
    ctx.check(_same_snapshot(_snapshot_data(data), snap), "data-unchanged")
    ctx.check(_same_guess(_snapshot_guess(init), gsnap), "guess-unchanged")
    return M, Minit, info


def _per_iteration_lengths(info):
    out = {}
    for k in ("kktViolations", "nInnerIters", "times", "nViolations", "fnEvals", "fnVals", "nZeros"):
        if k in info:
            out[k] = int(np.size(info[k]))
    return out


def _check_result(ctx, case, A, M, info, maxiters, l0, s0, min_len=1, obj_rtol=1e-9):
    shape = tuple(case["shape"])
    ctx.check(tuple(M.shape) == shape and M.ncomponents == case["rank"], "model-rank-and-shape",
              f"{tuple(M.shape)} R={M.ncomponents}")
    W = np.asarray(M.weights, dtype=float)
    F = [np.asarray(f, dtype=float) for f in M.factor_matrices]
    ctx.require(len(F) == len(shape) and all(f.shape == (s, case["rank"]) for f, s in zip(F, shape))
                and W.shape == (case["rank"],), "model-well-formed")
    ctx.check(bool(np.all(W >= 0)), "weights-nonnegative", W)
    ctx.check(all(bool(np.all(f >= 0)) for f in F), "factor-entries-nonnegative",
              [float(np.min(f)) for f in F])
    ctx.require("obj" in info and "kktViolations" in info, "output-has-obj-and-kktViolations", sorted(info))
    obj = float(info["obj"])
    want, scale = _loglik(A, W, F)
    if np.isinf(want) or np.isnan(want):
        ctx.label("objective-minus-inf")
    if np.isnan(obj) and not np.isnan(want):
        ctx.check(False, "objective-is-loglikelihood-of-returned-model[reported-nan]", f"{obj!r} vs {want!r}")
    elif np.isinf(want) or np.isnan(want):
        ctx.check(obj == want or (np.isnan(obj) and np.isnan(want)), "objective-is-loglikelihood-of-returned-model",
                  f"{obj!r} vs {want!r}")
    else:
        ctx.check(abs(obj - want) <= obj_rtol * scale, "objective-is-loglikelihood-of-returned-model",
                  f"{obj!r} vs {want!r} (scale {scale:.3g})")
    kkt = np.ravel(np.asarray(info["kktViolations"], dtype=float))
    ctx.check(bool(np.all(kkt >= 0)), "kkt-violations-nonnegative", kkt)
    ctx.check(min_len <= len(kkt) <= maxiters, "iteration-limit-respected", f"{len(kkt)} entries, maxiters {maxiters}")
    lens = _per_iteration_lengths(info)
    ctx.check(len(set(lens.values())) == 1, "one-entry-per-outer-iteration-in-every-output", lens)
    for key in ("nInnerIters", "nViolations", "fnEvals", "nZeros"):
        if key in info:  # counters of sweeps that were performed (clock readings are not judged)
            v = np.ravel(np.asarray(info[key], dtype=float))
            ctx.check(bool(np.all(v >= 0)), "per-iteration-outputs-nonnegative", f"{key}: {v}")
    # at least as likely as the guess
    if _guess_below_eps_at_a_count(case, A):
        # all three solvers divide by max(model value, epsDivZero): where the guess puts less than epsDivZero on a
        # positive count the update is the documented safeguarded step, not an ascent step of the likelihood, and
        # need not increase it (seen at thorough budgets with guesses that are nearly an identity: entries 1e-9
        # next to epsDivZero 1e-3, and for pdnr / pqnr as well as mu)
        ctx.label(case["alg"] + "-guess-below-epsDivZero-at-a-count")
    elif np.isfinite(l0):
        ok = (want >= l0 - obj_rtol * (s0 + (scale if np.isfinite(scale) else 0.0))) if not np.isnan(want) else False
        ctx.check(ok, "at-least-as-likely-as-guess", f"result {want!r} < guess {l0!r}")
    return len(kkt)


def _guess_below_eps_at_a_count(case, A):
    fm = [np.array(f, dtype=float).reshape(s, case["rank"]) for f, s in zip(case["factors"], case["shape"])]
    M = ref.den_kruskal(np.array(case["weights"], dtype=float), fm)
    return bool(np.any(M[A > 0] < case.get("epsDivZero", 1e-10)))


def _guess_baseline(case, A, Minit):
    """log-likelihood of the guess actually used (read back from the object handed in / returned), and its scale"""
    w = np.asarray(Minit.weights, dtype=float)
    fm = [np.asarray(f, dtype=float) for f in Minit.factor_matrices]
    zero_row = any(not np.any(f[i]) for f in fm for i in range(f.shape[0]))
    l0, s0 = _loglik(A, w, fm)
    if case["alg"] in ("pdnr", "pqnr") and zero_row:
        # PDNR / PQNR document that they start from the guess with 1e-8 written into the first column of every
        # all-zero row; that perturbed guess is the effective starting point (it can be 1e-8 x mass less likely)
        fp = [f.copy() for f in fm]
        for f in fp:
            f[np.sum(f, axis=1) == 0, 0] = 1e-8
        lp, sp = _loglik(A, w, fp)
        if np.isfinite(l0) and np.isfinite(lp) and lp < l0:
            l0, s0 = lp, sp
    return l0, s0, zero_row


def _same_model(M1, M2, rtol):
    """same weights and factor matrices up to rtol x the largest entry of each"""
    def close(a, b):
        a, b = np.asarray(a, dtype=float), np.asarray(b, dtype=float)
        if a.shape != b.shape:
            return False
        if rtol == 0:
            return np.array_equal(a, b, equal_nan=True)
        return bool(np.all(np.abs(a - b) <= rtol * max(1e-300, float(np.max(np.abs(b))) if b.size else 0.0)))
    return (close(M1.weights, M2.weights) and len(M1.factor_matrices) == len(M2.factor_matrices)
            and all(close(a, b) for a, b in zip(M1.factor_matrices, M2.factor_matrices)))


def _model_info(M):
    return f"weights {np.asarray(M.weights).tolist()} factor0 {np.asarray(M.factor_matrices[0]).tolist()}"


def _common_labels(ctx, case, A, data, used):
    k = case["maxiters"]
    ctx.label(*gen.shape_classes(case["shape"]), "pattern-" + case["pattern"], f"rank{case['rank']}",
              "w-" + case["wkind"], "guess-" + case["gclass"], "guess-prov-" + case.get("gprov", "ctor"), f"maxiters={k}",
              f"maxinner={case['maxinneriters']}", "data-" + used, "dtype-" + _holder_dtype(data),
              f"data-scale-{case.get('dscale', 1)}", f"guess-scale-{case.get('gscale', 1.0)}",
              f"printitn={case.get('printitn', 0)}",
              f"stoptol={case['stoptol']}")
    if isinstance(data, ttb.sptensor):
        ctx.label("stored-" + case["stored"])
        if not all(type(x) is int for x in data.shape):
            ctx.label("shape-holds-numpy-ints")
        if data.vals.size and np.any(data.vals == 0):
            ctx.label("stores-explicit-zero")
    elif gen.is_grown(data):
        ctx.label("data-buffer-not-F-ordered")
    if case["alg"] == "pqnr":
        ctx.label(f"lbfgsMem={case['lbfgsMem']}")
    ctx.nt = bool(np.any(A == 0) and np.any(A >= 2) and case["rank"] >= 2)


def _body(ctx, case):
    A = _true_array(case)
    k = case["maxiters"]
    data, used = _build_data(case)
    init = _build_guess(case)
    _common_labels(ctx, case, A, data, used)
    # the same data and guess objects serve every call of the case
    M1, G1, info1 = _run(ctx, case, data, init, k, "cp_apr")
    if isinstance(init, ttb.ktensor):
        ctx.check(_same_guess(_snapshot_guess(G1), _snapshot_guess(init)), "returned-guess-is-the-callers-guess")
    else:
        ctx.check(tuple(G1.shape) == tuple(case["shape"]) and G1.ncomponents == case["rank"]
                  and bool(np.all(G1.weights >= 0)) and all(bool(np.all(f >= 0)) for f in G1.factor_matrices),
                  "random-guess-nonnegative-of-requested-size")
    l0, s0, zero_row = _guess_baseline(case, A, G1)
    ctx.label("has-all-zero-row" if zero_row else "no-all-zero-row",
              "guess-loglik-finite" if np.isfinite(l0) else "guess-loglik-minus-inf")
    n1 = _check_result(ctx, case, A, M1, info1, k, l0, s0)
    M2, G2, info2 = _run(ctx, case, data, init, k + 1, "cp_apr")
    if not isinstance(init, ttb.ktensor):
        ctx.check(_same_guess(_snapshot_guess(G1), _snapshot_guess(G2)), "random-guess-determined-by-the-seed")
    n2 = _check_result(ctx, case, A, M2, info2, k + 1, l0, s0)
    ctx.label("used-all-iterations" if n1 == k else "stopped-early")
    if n2 == k + 1:
        # the longer run was still iterating after k sweeps, so the k-run cannot have stopped before k
        ctx.check(n1 == k, "one-kkt-entry-per-iteration-performed", f"{n1} entries for {k} iterations")
    else:
        ctx.check(n1 == min(k, n2), "one-kkt-entry-per-iteration-performed", f"{n1} vs longer run {n2} (k={k})")
    # integer-typed data is the same tensor as its float64 image: same algorithm, same arithmetic, same model
    if _holder_dtype(data) != "float64":
        data64, used64 = _build_data(case, "float64")
        same_layout = used64 == used and (
            np.array_equal(data64.subs, data.subs) if isinstance(data, ttb.sptensor)
            else data64.data.flags["F_CONTIGUOUS"] == data.data.flags["F_CONTIGUOUS"])
        if same_layout:  # (same stored order => the same floating-point operations in the same order)
            M3, _, info3 = _run(ctx, case, data64, init, k, "cp_apr-float64-image")
            ctx.check(_same_model(M1, M3, DTYPE_RTOL), "model-independent-of-data-dtype",
                      f"{_holder_dtype(data)}: {_model_info(M1)} vs float64: {_model_info(M3)}")
            ctx.check(float(info1["obj"]) == float(info3["obj"]) or abs(float(info1["obj"]) - float(info3["obj"]))
                      <= 1e-9 * abs(float(info3["obj"])) or (np.isnan(info1["obj"]) and np.isnan(info3["obj"])),
                      "objective-independent-of-data-dtype", f"{info1['obj']!r} vs {info3['obj']!r}")
        else:
            ctx.label("no-float64-image-with-the-same-layout")


DTYPE_RTOL = 1e-9

for _alg, (_q, _t) in {"mu": (200, 4000), "pdnr": (150, 3000), "pqnr": (150, 3000)}.items():
    for _holder in ("dense", "sparse"):
        cell(f"C11/{_alg}/{_holder}", strategy=(lambda a, h: lambda tier: _apr_case(tier, a, h))(_alg, _holder),
             quick=_q, thorough=_t, shards=(2, 8))(_body)


# --------------------------------------------------------------------------
# a few large problems per run: 60000 cells, 1e4 .. 3e4 stored counts (above internal block sizes)
# --------------------------------------------------------------------------

LARGE_SHAPES = [[40, 50, 30], [30, 40, 50], [16, 15, 25, 10], [60, 20, 50]]  # (few rows: the row subproblems are Python loops)


@st.composite
def _large_case(draw, tier, alg):
    shape = draw(st.sampled_from(LARGE_SHAPES))
    holder = draw(st.sampled_from(["sparse", "sparse", "sparse", "dense"]))
    c = dict(alg=alg, holder=holder, shape=shape, large=True, pattern="mixed", seed=draw(st.integers(0, 2**31 - 1)),
             nnz=draw(st.sampled_from([10000, 10001, 16384, 16385, 20000, 30000])),
             stored=draw(st.sampled_from(["sorted", "reverse", "random"])), dtype=draw(st.sampled_from(["float64", "float64", "int64", "uint8"])),
             dscale=1, dprov=draw(st.sampled_from(["ctor", "ctor", "np-shape", "explicit-zeros", "from-dense", "permuted"] if holder == "sparse"
                                                  else ["ctor", "ctor-c-order", "from-sparse"])),
             mperm=list(draw(st.permutations(range(len(shape))))), rank=draw(st.sampled_from([1, 2, 3])),
             gclass=draw(st.sampled_from(["positive", "some-zeros"])), wkind="unit", gscale=1.0,
             gprov=draw(st.sampled_from(["ctor", "copy", "normalized"])), np_seed=draw(st.integers(0, 2**31 - 1)))
    c.update(_option_draw(draw, alg))
    c["maxiters"] = draw(st.sampled_from([1, 1, 2]))
    c["maxinneriters"] = draw(st.sampled_from([1, 2, 3]))
    c["printitn"], c["printinneritn"] = draw(st.sampled_from([0, 0, 1])), 0
    return c


def _expand_large(case):
    """the ordinary case dict a compact large case stands for (deterministic in the case's seed)"""
    rs = np.random.RandomState(case["seed"])
    shape = tuple(case["shape"])
    n = ref.prod(shape)
    lin = np.sort(rs.choice(n, size=case["nnz"], replace=False))
    if case["stored"] == "reverse":
        lin = lin[::-1]
    elif case["stored"] == "random":
        lin = lin[rs.permutation(len(lin))]
    subs = np.array(np.unravel_index(lin, shape, order="F")).T.reshape(len(lin), len(shape))
    vals = rs.randint(1, 7, size=len(lin)).astype(float)
    c = dict(case, subs=subs.tolist(), vals=vals.tolist(), weights=[1.0] * case["rank"])
    fm = [rs.uniform(0.05, 2.0, size=(m, case["rank"])) for m in shape]
    if case["gclass"] == "some-zeros":
        for f in fm:
            f[rs.uniform(size=f.shape) < 0.15] = 0.0
    c["factors"] = [f.tolist() for f in fm]
    if case["holder"] == "sparse" and case["dprov"] == "explicit-zeros":
        present = set(lin.tolist())
        z = [int(i) for i in rs.choice(n, size=200, replace=False) if int(i) not in present]
        c["zsubs"] = np.array(np.unravel_index(np.array(z, dtype=int), shape, order="F")).T.reshape(len(z), len(shape)).tolist()
    return c


def _large_body(ctx, case):
    ctx.label("large-60000-cells", f"nnz={case['nnz']}", "holder-" + case["holder"])
    _body(ctx, _expand_large(case))


for _alg in ("mu", "pdnr", "pqnr"):
    cell(f"C11/{_alg}/large", strategy=(lambda a: lambda tier: _large_case(tier, a))(_alg), quick=2, thorough=10,
         shards=(1, 2))(_large_body)


# --------------------------------------------------------------------------
# runs that end early: time budget spent (stoptime 0, negative, tiny), everything else at its minimum
# --------------------------------------------------------------------------

STOPTIMES = [0.0, 0.0, -1.0, -1e-3, 1e-300, 1e-9, 1e-7, 1e-5, 1e-4, 1e-3, 3e-3, 3e-3, 1e-2, 1e-2, 3e-2, 0.1]


@st.composite
def _early_exit_case(draw, tier, alg):
    c = draw(_apr_case(tier, alg, draw(st.sampled_from(["dense", "sparse"]))))
    c["stoptime"] = draw(st.sampled_from(STOPTIMES))
    # so that the clock, not convergence, ends most runs: no convergence exit, many sweeps allowed
    c["stoptol"] = draw(st.sampled_from([0.0, 0.0, 0.0, 1e-14, 1e-4]))
    c["maxiters"] = draw(st.sampled_from([1, 2, 3, 5, 8, 8, 30, 200, 1000]))
    c["maxinneriters"] = draw(st.sampled_from([1, 1, 2, 3, 10]))
    c["printitn"] = draw(st.sampled_from([0, 0, 1]))
    c["printinneritn"] = 0
    return c


def _early_exit_body(ctx, case):
    """A run whose wall-clock budget is spent reports what it did and nothing else.  How many sweeps fit into the
    budget is not asserted (it depends on the machine); asserted is only what holds for every number n of sweeps
    performed: the per-iteration outputs have n entries each, all non-negative; the objective is the log-likelihood
    of the returned model; the model is non-negative and at least as likely as the guess; and the n reported sweeps
    were really performed: a run limited to maxiters = n without a time limit reproduces model, objective and
    histories bit for bit (n = 0: the model denotes the guess)."""
    A = _true_array(case)
    K = case["maxiters"]
    data, used = _build_data(case)
    init = _build_guess(case)
    _common_labels(ctx, case, A, data, used)
    ctx.label(f"stoptime={case['stoptime']}", "holder-" + case["holder"])
    M1, G1, info1 = _run(ctx, case, data, init, K, "cp_apr")
    l0, s0, _ = _guess_baseline(case, A, G1)
    n = _check_result(ctx, case, A, M1, info1, K, l0, s0, min_len=0)
    ctx.label("sweeps-reported=" + ("0" if n == 0 else "1" if n == 1 else "2-3" if n <= 3 else ">=4"),
              "ended-before-maxiters" if n < K else "used-all-iterations")
    ctx.nt = n < K
    if n == 0:
        G = ref.den_kruskal(np.asarray(G1.weights, dtype=float), [np.asarray(f, dtype=float) for f in G1.factor_matrices])
        R = ref.den_kruskal(np.asarray(M1.weights, dtype=float), [np.asarray(f, dtype=float) for f in M1.factor_matrices])
        ctx.check(bool(np.all(np.abs(R - G) <= 1e-12 * (np.abs(G) + np.max(np.abs(G), initial=0.0)))),
                  "no-sweep-reported-model-is-the-guess")
        return
    opts = dict(_options(case))
    opts.pop("stoptime", None)
    M2, _, info2 = _run(ctx, case, data, init, n, "cp_apr-without-time-limit", options=opts)
    r1, r2 = _outcome(M1, info1), _outcome(M2, info2)
    ctx.check(_same_outcome(r1, r2), "reported-sweeps-were-performed", f"{n} reported of {K} allowed: " + _outcome_info(r1, r2))


for _alg, (_q, _t) in {"mu": (36, 1200), "pdnr": (30, 1000), "pqnr": (18, 600)}.items():
    cell(f"C11/{_alg}/early-exit", strategy=(lambda a: lambda tier: _early_exit_case(tier, a))(_alg),
         quick=_q, thorough=_t, shards=(1, 4))(_early_exit_body)


# --------------------------------------------------------------------------
# state across calls: the k-th call depends only on its own arguments (and the random stream)
# --------------------------------------------------------------------------


@st.composite
def _sequence_case(draw, tier):
    alg = draw(st.sampled_from(["mu", "pdnr", "pdnr", "pqnr"]))
    c = draw(_apr_case(tier, alg, draw(st.sampled_from(["dense", "sparse", "sparse"]))))
    c["maxiters"] = min(c["maxiters"], 4)
    if "precompinds" in c:  # the precomputed index sets are the one structure that could outlive a call
        c["precompinds"] = draw(st.sampled_from([True, True, True, False]))
    if alg == "pqnr":  # keep clear of the two open pqnr findings as far as a case can
        c["lbfgsMem"] = 1
    c["variant"] = draw(st.sampled_from(["repeat", "printing", "other-call-between", "other-data-between",
                                         "other-data-between", "other-data-between", "defaults-around-explicit",
                                         "data-edited-between", "data-edited-between", "result-scribbled-between"]))
    c["edit_pos"] = draw(st.integers(0, 10**6))
    alg2 = draw(st.sampled_from(["mu", "pdnr"]))
    c["other"] = dict(alg=alg2, **_option_draw(draw, alg2))
    c["other"]["maxiters"] = min(c["other"]["maxiters"], 3)
    c["printitn2"] = draw(st.sampled_from([p for p in (0, 1, 2, 3, 5) if p != c["printitn"]]))
    c["printinneritn2"] = draw(st.sampled_from([0, 1, 3]))
    return c


def _outcome(M, info):
    return (np.array(M.weights, copy=True), [np.array(f, copy=True) for f in M.factor_matrices], float(info["obj"]),
            np.ravel(np.asarray(info["kktViolations"], dtype=float)).copy(),
            np.ravel(np.asarray(info["nInnerIters"], dtype=float)).copy())


def _same_outcome(a, b):
    return (np.array_equal(a[0], b[0], equal_nan=True) and len(a[1]) == len(b[1])
            and all(x.shape == y.shape and np.array_equal(x, y, equal_nan=True) for x, y in zip(a[1], b[1]))
            and (a[2] == b[2] or (np.isnan(a[2]) and np.isnan(b[2])))
            and np.array_equal(a[3], b[3], equal_nan=True) and np.array_equal(a[4], b[4], equal_nan=True))


def _outcome_info(a, b):
    return f"obj {a[2]!r} vs {b[2]!r}; kkt {a[3].tolist()} vs {b[3].tolist()}; weights {a[0].tolist()} vs {b[0].tolist()}"


@cell("C11/state/sequence", strategy=_sequence_case, quick=120, thorough=2500, shards=(2, 8))
def sequence(ctx, case):
    """sequences of 2..3 calls on the same data and guess objects; the repeated call must reproduce the first
    bit for bit, whatever was called in between and whatever is printed"""
    A = _true_array(case)
    k = case["maxiters"]
    data, used = _build_data(case)
    init = _build_guess(case)
    _common_labels(ctx, case, A, data, used)
    ctx.label("alg-" + case["alg"], "variant-" + case["variant"], "holder-" + case["holder"])
    ctx.nt = True
    v = case["variant"]
    base = _options(case)
    if v == "defaults-around-explicit":
        first = {"printitn": 0}
    else:
        first = base
    M1, _, i1 = _run(ctx, case, data, init, k, "first-call", options=first)
    r1 = _outcome(M1, i1)
    if v == "printing":
        other = dict(base, printitn=case["printitn2"], printinneritn=case["printinneritn2"])
        M2, _, i2 = _run(ctx, case, data, init, k, "call-with-other-printing", options=other)
        r2 = _outcome(M2, i2)
        ctx.check(_same_outcome(r1, r2), "result-independent-of-printing-options", _outcome_info(r1, r2))
        return
    if v == "other-call-between":
        o = case["other"]
        try:  # (what this call returns is the subject of the algorithm cells)
            ttb.cp_apr(data, case["rank"], algorithm=o["alg"], init=init, maxiters=o["maxiters"], **_options(o))
        except Exception:  # noqa: BLE001
            ctx.label("call-in-between-raised")
    elif v == "defaults-around-explicit":
        try:
            ttb.cp_apr(data, case["rank"], algorithm=case["alg"], init=init, maxiters=k, **base)
        except Exception:  # noqa: BLE001
            ctx.label("call-in-between-raised")
    elif v == "result-scribbled-between":
        # what the first call handed back is the caller's: writing into it reaches neither the guess nor the data
        # (both checked by the next _run) nor a later call
        for f in M1.factor_matrices:
            f[...] = 0.125
        M1.weights[...] = 9.0
        for key in ("kktViolations", "nInnerIters"):
            a = i1.get(key)
            if isinstance(a, np.ndarray) and a.flags.writeable:
                a[...] = -5.0
        ctx.check(_same_guess(_snapshot_guess(init), _snapshot_guess(_build_guess(case))) if isinstance(init, ttb.ktensor) else True,
                  "writing-into-the-result-leaves-the-guess")
        ctx.check(np.array_equal(ref.den(data), A), "writing-into-the-result-leaves-the-data")
    elif v == "data-edited-between":
        # the data object is edited in place (item assignment: one stored count raised, one entry set from the mirror
        # position) and the same object is decomposed again: the result must be that of the data as it stands now,
        # and identical to that for a freshly constructed tensor with the same content and layout
        shape = tuple(case["shape"])
        try:
            nzs = np.argwhere(A != 0)
            s1 = tuple(int(i) for i in nzs[case["edit_pos"] % len(nzs)])
            data[s1] = float(A[s1]) + 1.0
            s2 = tuple(int(i) for i in np.unravel_index(case["edit_pos"] % A.size, shape, order="F"))
            if s2 != s1:
                data[s2] = float(A[s2]) + 2.0 if A[s2] == 0 else float(A[s2])
        except Exception:  # noqa: BLE001   (item assignment is judged by other properties)
            ctx.skip("item assignment raised")
        A2 = np.array(ref.den(data), dtype=float)
        want = A.copy()
        want[s1] = A[s1] + 1.0
        if s2 != s1 and A[s2] == 0:
            want[s2] = 2.0
        if not np.array_equal(A2, want) or tuple(int(x) for x in data.shape) != shape:
            ctx.skip("item assignment did not produce the wanted content")
        ctx.label("data-pattern-changed" if not np.array_equal(A2 != 0, A != 0) else "data-values-changed")
        Me, Ge, ie = _run(ctx, case, data, init, k, "call-on-edited-data", options=first)
        le0, se0, _ = _guess_baseline(case, A2, Ge)
        _check_result(ctx, case, A2, Me, ie, k, le0, se0)
        if isinstance(data, ttb.sptensor):
            fresh = ttb.sptensor(np.array(data.subs, copy=True), np.array(data.vals, copy=True), shape)
        else:
            fresh = ttb.tensor(np.array(data.data, copy=True, order="K"), shape)
        Mf, _, i_f = _run(ctx, case, fresh, init, k, "call-on-fresh-copy-of-edited-data", options=first)
        re_, rf = _outcome(Me, ie), _outcome(Mf, i_f)
        ctx.check(_same_outcome(re_, rf), "edited-object-gives-result-of-fresh-object", _outcome_info(re_, rf))
        return
    elif v == "other-data-between":
        # same call on the mirror image of the data (same shape, same number of stored entries, same values):
        # whatever the first call left behind must not leak into it - it has to satisfy the property on its own
        shape = case["shape"]
        c2 = dict(case, subs=[[n - 1 - i for i, n in zip(sub, shape)] for sub in case["subs"]], dprov="ctor")
        A2 = _true_array(c2)
        data2, _ = _build_data(c2)
        Mb, Gb, ib = _run(ctx, c2, data2, init, k, "call-on-mirrored-data", options=first)
        lb0, sb0, _ = _guess_baseline(c2, A2, Gb)
        _check_result(ctx, c2, A2, Mb, ib, k, lb0, sb0)
    M3, _, i3 = _run(ctx, case, data, init, k, "repeated-call", options=first)
    r3 = _outcome(M3, i3)
    ctx.check(_same_outcome(r1, r3), "repeated-call-reproduces-first-call", _outcome_info(r1, r3))


# --------------------------------------------------------------------------
# round 4 (a): extents at their minimum - modes of size 1, rank 1, exactly one / two / three positive counts
# --------------------------------------------------------------------------


def _degenerate_body(ctx, case):
    A = _true_array(case)
    nnz = int(np.count_nonzero(A))
    ones = sum(1 for s_ in case["shape"] if s_ == 1)
    ctx.label("holder-" + case["holder"], "positive-counts=" + (str(nnz) if nnz <= 3 else ">=4"),
              "singleton-modes=" + ("all" if ones == len(case["shape"]) else str(ones)),
              "one-count-and-rank>=2" if nnz == 1 and case["rank"] >= 2 else "other",
              "singleton-mode-or-rank1" if ones or case["rank"] == 1 else "no-singleton-extent")
    try:
        _body(ctx, case)
    finally:
        ctx.nt = bool(ones or case["rank"] == 1 or nnz <= 3)


for _alg, (_q, _t) in {"mu": (16, 80), "pdnr": (14, 70), "pqnr": (10, 50)}.items():
    for _holder in ("dense", "sparse"):
        cell(f"C11/{_alg}/degenerate-{_holder}",
             strategy=(lambda a, h: lambda tier: _apr_case(tier, a, h, degenerate=True))(_alg, _holder),
             quick=_q, thorough=_t, shards=(1, 2))(_degenerate_body)


# --------------------------------------------------------------------------
# round 4 (b): the same request in two presentations / quiet and verbose gives the same answer
# --------------------------------------------------------------------------

FULL_KEYS = ("nViolations", "fnEvals", "nZeros", "nTotalIters")  # (fnVals is only recorded when printing; clocks are not judged)


def _full_outcome(M, info):
    return _outcome(M, info) + tuple(np.ravel(np.asarray(info[key], dtype=float)).copy() if key in info else None
                                     for key in FULL_KEYS)


def _same_full(a, b):
    return _same_outcome(a[:5], b[:5]) and len(a) == len(b) and all(
        (x is None and y is None) or (x is not None and y is not None and np.array_equal(x, y, equal_nan=True))
        for x, y in zip(a[5:], b[5:]))


def _full_info(a, b):
    extra = "; ".join(f"{key} {x.tolist() if x is not None else None} vs {y.tolist() if y is not None else None}"
                      for key, x, y in zip(FULL_KEYS, a[5:], b[5:]))
    return _outcome_info(a, b) + "; inner " + f"{a[4].tolist()} vs {b[4].tolist()}; " + extra


ARG_PRESENTATIONS = ["rank-np", "rank-np", "limits-np", "flags-np", "positional"]
DATA_PRESENTATIONS = {"sparse": ["subs-dtype", "subs-dtype", "shape-form", "data-readonly-nocopy", "data-strided", "data-float32"],
                      "dense": ["shape-form", "data-readonly-nocopy", "data-strided", "data-float32"]}
GUESS_PRESENTATIONS = ["guess-tuple", "guess-c-order-nocopy", "guess-readonly-nocopy", "guess-strided", "guess-default-weights"]
NP_INTS = ["int64", "int32", "uint8", "int8", "uint16", "uint64", "int16", "uint32"]
F32_RTOL = 1e-5  # ~ 100 single-precision roundings, relative to the property's own scale


@st.composite
def _presentation_case(draw, tier, alg):
    holder = draw(st.sampled_from(["dense", "sparse", "sparse"]))
    c = draw(_apr_case(tier, alg, holder))
    c["dprov"] = "ctor"  # the reference presentation: the constructor's favourite forms
    c.pop("zsubs", None)
    if c["gprov"] == "random":  # (factors were drawn positive for this class)
        c["gclass"] = "positive"
    c["gprov"] = "ctor"
    c["maxiters"] = min(c["maxiters"], 4)
    # one presentation of the scalar arguments, one of the data, one of the guess
    c["pres"] = [draw(st.sampled_from(ARG_PRESENTATIONS)), draw(st.sampled_from(DATA_PRESENTATIONS[holder])),
                 draw(st.sampled_from(GUESS_PRESENTATIONS))]
    c["npint"] = draw(st.sampled_from(NP_INTS))
    c["subs_dtype"] = draw(st.sampled_from(["int32", "int32", "uint8", "uint16", "uint32", "uint64", "uint64", "int16", "int8"]))
    c["shape_form"] = draw(st.sampled_from(["list", "array", "array-int32", "tuple-of-int32", "tuple-of-uint8"]))
    # a request cp_apr rejects, issued on the same objects between the reference call and the presented calls
    c["rejected"] = draw(st.sampled_from([None, None, "guess-of-another-rank", "rank-zero", "unknown-algorithm",
                                          "guess-with-negative-entry", "unknown-init-string"]))
    return c


def _strided_copy_of(a):
    """a non-contiguous view (every second element along every axis of a larger buffer) holding the same values"""
    big = np.zeros(tuple(2 * n for n in a.shape), dtype=a.dtype)
    view = big[tuple(slice(None, None, 2) for _ in a.shape)]
    view[...] = a
    return view


def _present(case, A, pres, ref_data, ref_init):
    """(data, init, rank, maxiters, options, positional, float32?) for one presentation of the reference request;
    None when the presentation cannot be constructed (constructors are judged by other properties)"""
    shape = tuple(case["shape"])
    R, k = case["rank"], case["maxiters"]
    npi = np.dtype(case["npint"]).type
    dtype = np.dtype(case["dtype"])
    data, init, rank, maxiters, opts, positional, f32 = ref_data, ref_init, R, k, dict(_options(case)), False, False
    sparse = case["holder"] == "sparse"
    fm = [np.array(f, dtype=float).reshape(n, R) for f, n in zip(case["factors"], shape)]
    w = np.array(case["weights"], dtype=float)
    try:
        if pres == "rank-np":
            rank = npi(R)
        elif pres == "limits-np":
            maxiters = npi(k)
            for key in ("maxinneriters", "lbfgsMem", "printitn", "printinneritn"):
                if key in opts:
                    opts[key] = npi(opts[key])
        elif pres == "flags-np":
            for key in ("precompinds", "inexact"):
                if key in opts:
                    opts[key] = np.bool_(opts[key])
            for key in ("stoptol", "epsDivZero", "kappa", "kappatol", "epsActive", "mu0", "stoptime"):
                if key in opts:
                    opts[key] = np.float64(opts[key])
        elif pres == "positional":
            positional = True
        elif pres.startswith("guess-"):
            if pres == "guess-tuple":
                init = ttb.ktensor(tuple(f.copy() for f in fm), w.copy())
            elif pres == "guess-c-order-nocopy":
                init = ttb.ktensor([np.ascontiguousarray(f) for f in fm], w.copy(), copy=False)
            elif pres == "guess-readonly-nocopy":
                fs = [np.asfortranarray(f.copy()) for f in fm]
                ww = w.copy()
                for a in [*fs, ww]:
                    a.setflags(write=False)
                init = ttb.ktensor(fs, ww, copy=False)
            elif pres == "guess-strided":
                init = ttb.ktensor([_strided_copy_of(f) for f in fm], _strided_copy_of(w))
            elif pres == "guess-default-weights":
                init = ttb.ktensor([f.copy() for f in fm]) if bool(np.all(w == 1.0)) else ttb.ktensor([f.copy(order="C") for f in fm], w.copy())
        else:
            sdt = np.dtype(case["subs_dtype"]) if pres == "subs-dtype" else np.dtype(int)
            vdt = np.dtype(np.float32) if pres == "data-float32" else dtype
            f32 = pres == "data-float32"
            shp = shape
            if pres == "shape-form":
                form = case["shape_form"]
                shp = (list(shape) if form == "list" else np.array(shape) if form == "array"
                       else np.array(shape, dtype=np.int32) if form == "array-int32"
                       else tuple(np.int32(n) for n in shape) if form == "tuple-of-int32" else tuple(np.uint8(n) for n in shape))
            if sparse:
                subs, vals = _stored_entries(case, vdt)
                subs = subs.astype(sdt)
                if pres == "data-strided":
                    subs, vals = _strided_copy_of(subs), _strided_copy_of(vals)
                if pres == "data-readonly-nocopy":
                    subs.setflags(write=False)
                    vals.setflags(write=False)
                    data = ttb.sptensor(subs, vals, shp, copy=False)
                else:
                    data = ttb.sptensor(subs, vals, shp)
            else:
                a = np.asfortranarray(A.astype(vdt))
                if pres == "data-strided":
                    data = ttb.tensor(_strided_copy_of(a))
                elif pres == "data-readonly-nocopy":
                    a.setflags(write=False)
                    data = ttb.tensor(a, copy=False)
                elif pres == "shape-form":
                    data = ttb.tensor(a, shp)
                else:
                    data = ttb.tensor(a)
            if tuple(int(x) for x in data.shape) != shape or not np.array_equal(ref.den(data), A):
                return None
        if isinstance(init, ttb.ktensor) and init is not ref_init:
            if tuple(init.shape) != shape or not _same_guess(_snapshot_guess(init), _snapshot_guess(ref_init)):
                return None
    except Exception:  # noqa: BLE001  (the constructors are the subject of other properties)
        return None
    return data, init, rank, maxiters, opts, positional, f32


def _rejected_request(ctx, case, data, init):
    """a request outside cp_apr's domain on the same data and guess objects: whether it raises is not this property's
    subject, but when it does the caller's objects are as they were (and the calls that follow are judged as if it
    had not happened)"""
    kind = case["rejected"]
    if kind == "guess-of-another-rank" and not isinstance(init, ttb.ktensor):
        return  # (with a random guess this is simply another valid request)
    snap, gsnap = _snapshot_data(data), _snapshot_guess(init)
    R = case["rank"]
    kw = dict(algorithm=case["alg"], init=init, maxiters=case["maxiters"], printitn=0)
    rank = R
    if kind == "guess-of-another-rank":
        rank = R + 1
    elif kind == "rank-zero":
        rank = 0
    elif kind == "unknown-algorithm":
        kw["algorithm"] = "newton"
    elif kind == "unknown-init-string":
        kw["init"] = "zeros"
    elif kind == "guess-with-negative-entry":
        fm = [np.array(f, dtype=float).reshape(n, R) for f, n in zip(case["factors"], case["shape"])]
        fm[-1][-1, -1] = -0.5
        kw["init"] = ttb.ktensor(fm, np.array(case["weights"], dtype=float))
    try:
        ttb.cp_apr(data, rank, **kw)
        ctx.label("ill-formed-request-accepted:" + kind)
    except Exception:  # noqa: BLE001
        ctx.label("rejected:" + kind)
    ctx.check(_same_snapshot(_snapshot_data(data), snap), "data-unchanged-after-rejected-request", kind)
    ctx.check(_same_guess(_snapshot_guess(init), gsnap), "guess-unchanged-after-rejected-request", kind)


def _presentation_body(ctx, case):
    """The request as the generators usually hand it over (Python ints, keywords, int64 subscripts, fresh F-ordered
    float64 arrays) and the same request as ordinary callers present it: same model, objective, histories bit for
    bit (float32 values: to a single-precision bound), and the property's own clauses hold for each."""
    A = _true_array(case)
    k = case["maxiters"]
    data, used = _build_data(case)
    init = _build_guess(case)
    _common_labels(ctx, case, A, data, used)
    ctx.label("holder-" + case["holder"])
    ctx.nt = True
    M0, G0, i0 = _run(ctx, case, data, init, k, "cp_apr")
    l0, s0, _ = _guess_baseline(case, A, G0)
    _check_result(ctx, case, A, M0, i0, k, l0, s0)
    r0 = _full_outcome(M0, i0)
    if case.get("rejected"):
        _rejected_request(ctx, case, data, init)
    for pres in case["pres"]:
        p = _present(case, A, pres, data, init)
        if p is None:
            ctx.label("not-constructible:" + pres)
            continue
        pdata, pinit, rank, maxiters, opts, positional, f32 = p
        name = pres + (":" + case["npint"] if pres in ("rank-np", "limits-np") else ":" + case["subs_dtype"] if pres == "subs-dtype"
                       else ":" + case["shape_form"] if pres == "shape-form" else "")
        ctx.label("presentation-" + name)
        M, G, info = _run(ctx, case, pdata, pinit, maxiters, "cp_apr", options=opts, rank=rank, positional=positional)
        _check_result(ctx, case, A, M, info, k, l0, s0, obj_rtol=F32_RTOL if f32 else 1e-9)
        r = _full_outcome(M, info)
        if f32:
            # float32 holds the counts exactly; demanded is agreement with the float64 request to a single-precision bound
            ctx.check(_same_model(M, M0, F32_RTOL), "float32-data-gives-the-float64-model-to-single-precision",
                      f"{_model_info(M)} vs {_model_info(M0)}")
            sc = max(abs(r0[2]), 1.0) if np.isfinite(r0[2]) else 1.0
            ctx.check(r[2] == r0[2] or abs(r[2] - r0[2]) <= F32_RTOL * sc or (np.isnan(r[2]) and np.isnan(r0[2])),
                      "float32-data-gives-the-float64-objective-to-single-precision", f"{r[2]!r} vs {r0[2]!r}")
        else:
            ctx.check(_same_full(r, r0), "same-request-in-another-presentation-gives-the-same-result",
                      pres + ": " + _full_info(r, r0))


for _alg, (_q, _t) in {"mu": (16, 80), "pdnr": (14, 70), "pqnr": (10, 50)}.items():
    cell(f"C11/{_alg}/presentation", strategy=(lambda a: lambda tier: _presentation_case(tier, a))(_alg),
         quick=_q, thorough=_t, shards=(1, 4))(_presentation_body)


@contextlib.contextmanager
def _root_logger_at_debug(on):
    """the process has its root logger at DEBUG (with a handler that discards the records); restored afterwards"""
    if not on:
        yield
        return
    root = logging.getLogger()
    old_level, old_disable = root.level, root.manager.disable
    handler = logging.NullHandler()
    others = list(root.handlers)  # (logging.warning() installs a stderr handler on first use: keep the run quiet)
    for h in others:
        root.removeHandler(h)
    logging.disable(logging.NOTSET)
    root.setLevel(logging.DEBUG)
    root.addHandler(handler)
    try:
        yield
    finally:
        root.removeHandler(handler)
        for h in others:
            root.addHandler(h)
        root.setLevel(old_level)
        logging.disable(old_disable)


@st.composite
def _reporting_case(draw, tier, alg):
    holder = draw(st.sampled_from(["dense", "sparse", "sparse"]))
    c = draw(_apr_case(tier, alg, holder))
    c["maxiters"] = draw(st.sampled_from([1, 2, 3, 4, 6]))
    c["reports"] = draw(st.lists(st.fixed_dictionaries(dict(
        printitn=st.sampled_from([0, 1, 1, 2, 3, 5, 1000]), printinneritn=st.sampled_from([0, 0, 1, 1, 2, 3, 7]),
        debug=st.sampled_from([False, True, True]))).filter(lambda d: d["printitn"] or d["printinneritn"] or d["debug"]),
        min_size=2, max_size=3))
    # a request cp_apr rejects, issued on the same objects (in every provenance state) after the quiet call
    c["rejected"] = draw(st.sampled_from([None, "guess-of-another-rank", "rank-zero", "unknown-algorithm", "unknown-algorithm",
                                          "guess-with-negative-entry", "unknown-init-string"]))
    return c


def _reporting_body(ctx, case):
    """the quiet call (printitn = printinneritn = 0, logging silenced) against the same call with progress reports
    at several levels and / or the root logger at DEBUG: model, objective, KKT history, inner-iteration and
    function-evaluation counts bit for bit; the property's clauses hold for every call"""
    A = _true_array(case)
    k = case["maxiters"]
    data, used = _build_data(case)
    init = _build_guess(case)
    _common_labels(ctx, case, A, data, used)
    ctx.label("holder-" + case["holder"])
    ctx.nt = True
    quiet = dict(_options(case), printitn=0, printinneritn=0)
    M0, G0, i0 = _run(ctx, case, data, init, k, "cp_apr", options=quiet)
    l0, s0, _ = _guess_baseline(case, A, G0)
    n0 = _check_result(ctx, case, A, M0, i0, k, l0, s0)
    ctx.label("sweeps=" + (str(n0) if n0 <= 2 else ">=3"), "stopped-early" if n0 < k else "used-all-iterations")
    r0 = _full_outcome(M0, i0)
    if case.get("rejected"):
        _rejected_request(ctx, case, data, init)
    for rep in case["reports"]:
        ctx.label(f"report-printitn={rep['printitn']}", f"report-printinneritn={rep['printinneritn']}",
                  "root-logger-debug" if rep["debug"] else "logging-silenced")
        opts = dict(quiet, printitn=rep["printitn"], printinneritn=rep["printinneritn"])
        with _root_logger_at_debug(rep["debug"]):
            M, G, info = _run(ctx, case, data, init, k, "cp_apr", options=opts)
        _check_result(ctx, case, A, M, info, k, l0, s0)
        r = _full_outcome(M, info)
        printing = bool(rep["printitn"] or rep["printinneritn"])
        clause = ("result-independent-of-reporting-options" if printing and not rep["debug"] else
                  "result-independent-of-root-logger-level" if not printing else
                  "result-independent-of-reporting-options-and-logger-level")
        ctx.check(_same_full(r, r0), clause, f"printitn={rep['printitn']} printinneritn={rep['printinneritn']} "
                  f"debug={rep['debug']}: " + _full_info(r, r0))
        if not isinstance(init, ttb.ktensor):
            ctx.check(_same_guess(_snapshot_guess(G), _snapshot_guess(G0)), "random-guess-independent-of-reporting")


for _alg, (_q, _t) in {"mu": (14, 70), "pdnr": (12, 60), "pqnr": (8, 40)}.items():
    cell(f"C11/{_alg}/reporting", strategy=(lambda a: lambda tier: _reporting_case(tier, a))(_alg),
         quick=_q, thorough=_t, shards=(1, 4))(_reporting_body)


def _has_zero_row(case):
    return any(not any(row) for f in case["factors"] for row in f)


def _dense_with_empty_slice(case):
    """dense holder and some slice x[.., j, ..] of the data is entirely zero (a zero row of an unfolding)"""
    if case.get("holder") != "dense":
        return False
    for n, size in enumerate(case["shape"]):
        seen = {s[n] for s in case["subs"]}
        if len(seen) < size:
            return True
    return False


def _guess_nearly_zero_at_a_count(case):
    """the guess gives (almost) no mass to some entry holding a positive count: the Poisson gradient is then
    clipped by epsDivZero and locally constant"""
    fm = [np.array(f, dtype=float).reshape(s, case["rank"]) for f, s in zip(case["factors"], case["shape"])]
    M = ref.den_kruskal(np.array(case["weights"], dtype=float), fm)
    return any(M[tuple(s)] < 1e-6 for s in case["subs"])


def _tiny_guess_component_on_every_count(case):
    """tiny-entry guess class and some component contributes at most 1e-6 of the guess's value at every positive
    count: MU shrinks it by a constant tiny factor per inner iteration, through the subnormal range"""
    if case.get("gclass") != "some-tiny":
        return False
    R = case["rank"]
    fm = [np.array(f, dtype=float).reshape(n, R) for f, n in zip(case["factors"], case["shape"])]
    w = np.array(case["weights"], dtype=float)
    subs = [s_ for s_, v in zip(case["subs"], case["vals"]) if v > 0]
    if not subs:
        return False
    contrib = np.array([[w[r] * np.prod([fm[n][s_[n], r] for n in range(len(fm))]) for r in range(R)] for s_ in subs])
    total = contrib.sum(axis=1, keepdims=True)
    return bool(np.any(np.all(contrib <= 1e-6 * total, axis=0)))


PREDICATES = {
    "tiny_guess_component_on_every_count": _tiny_guess_component_on_every_count,
    "alg_is_pqnr": lambda case: case.get("alg") == "pqnr",
    "sparse_data_stores_explicit_zero": lambda case: case.get("holder") == "sparse" and case.get("dprov") == "explicit-zeros"
    and (len(case.get("zsubs", [])) > 0 or bool(case.get("large"))),
    "pqnr_flat_gradient_row": lambda case: _dense_with_empty_slice(case) or _guess_nearly_zero_at_a_count(case),
    "guess_has_all_zero_row": _has_zero_row,
    "pqnr_mem_ge2_and_inner_ge2": lambda case: case.get("alg") == "pqnr" and case.get("lbfgsMem", 0) >= 2
    and case.get("maxinneriters", 0) >= 2,
}
