"""C11 — CP-APR returns a non-negative model and a truthful objective."""

from __future__ import annotations

import numpy as np
from hypothesis import strategies as st

import pyttb as ttb

from .. import gen, ref
from ..core import cell

PROPERTY = "C11"
RULE = (
    "cases = (count tensor N 2..3 (4 thorough) with a drawn zero pattern: mixed / empty slice / zero fibres / one "
    "nonzero, dense or sparse holder with generated stored order; rank 1..3; non-negative guess with zero entries, "
    "all-zero rows, unit or positive weights; algorithm options; maxiters k in 1..5) drawn by Hypothesis; the "
    "algorithm is run with limits k and k+1 from copies of the same guess.  Oracle: returned ktensor has the "
    "requested rank/shape and no negative weight or entry; obj = sum_{x>0} x log m - sum m recomputed from the "
    "einsum of the returned weights and factors; kktViolations >= 0, same length as the other per-iteration outputs, "
    "<= maxiters, and exactly k for the k-run when the (k+1)-run used all k+1 iterations; obj >= log-likelihood of "
    "the guess; data and guess unchanged.  Non-trivial: data has a zero and a count >= 2, rank >= 2."
)
ASSUMPTIONS = [
    "objective compared within 1e-9 x (sum |x log m| + sum m) (+ exact match for -inf); pyttb evaluates sum m "
    "from the L1-normalised factors, i.e. with a different summation order",
    "'at least as likely as the guess': obj >= loglik(guess) - 1e-9 x scale; a guess of likelihood -inf is trivially met; "
    "for pdnr/pqnr and a guess with all-zero rows the baseline is the documented perturbed guess (1e-8 in the first "
    "column of those rows) when that is less likely",
    "maxiters >= 1, printitn = 0; stoptime left at its default (no wall-clock influence)",
    "data has at least one positive count; N >= 2 (tt_loglikelihood unfolds along mode 1)",
]

EPS = np.finfo(float).eps


# --------------------------------------------------------------------------
# generator
# --------------------------------------------------------------------------

COUNT = st.sampled_from([1.0, 1.0, 1.0, 2.0, 2.0, 3.0, 5.0, 9.0])


@st.composite
def _apr_case(draw, tier, alg, holder):
    mo = 3 if tier == "quick" else 4
    shape = draw(gen.shapes(tier, min_order=2, max_order=mo, max_size=4, max_cells=24 if tier == "quick" else 48))
    n = ref.prod(shape)
    N = len(shape)
    pattern = draw(st.sampled_from(["mixed", "mixed", "dense-ish", "dense-ish", "empty-slice", "zero-fibres", "one-nonzero"]))
    A = np.zeros(shape)
    if pattern == "one-nonzero":
        A.flat[draw(st.integers(0, n - 1))] = draw(COUNT)
    else:
        p_nz = 0.9 if pattern == "dense-ish" else 0.6
        mask = draw(st.lists(st.floats(0, 1), min_size=n, max_size=n))
        vals = draw(st.lists(COUNT, min_size=n, max_size=n))
        A = np.reshape(np.array([v if m < p_nz else 0.0 for m, v in zip(mask, vals)]), shape, order="F")
        if pattern == "empty-slice":
            k = draw(st.integers(0, N - 1))
            if shape[k] > 1:
                idx = [slice(None)] * N
                idx[k] = draw(st.integers(0, shape[k] - 1))
                A[tuple(idx)] = 0.0
        elif pattern == "zero-fibres":
            k = draw(st.integers(0, N - 1))
            idx = [draw(st.integers(0, s - 1)) for s in shape]
            idx[k] = slice(None)
            A[tuple(idx)] = 0.0
    if not A.any():
        A.flat[draw(st.integers(0, n - 1))] = draw(COUNT)
    rank = draw(st.sampled_from([1, 2, 2, 3, 3]))
    gclass = draw(st.sampled_from(["positive", "positive", "some-zeros", "zero-row"]))
    pv = st.one_of(st.sampled_from([0.5, 1.0]), st.floats(0.05, 2.0), st.floats(0.05, 2.0))
    fv = pv if gclass != "some-zeros" else st.one_of(st.just(0.0), pv, pv, pv, pv, pv)
    factors = [draw(st.lists(st.lists(fv, min_size=rank, max_size=rank), min_size=s, max_size=s)) for s in shape]
    if gclass == "zero-row":  # an all-zero row in one factor
        k = draw(st.integers(0, N - 1))
        factors[k][draw(st.integers(0, shape[k] - 1))] = [0.0] * rank
    wk = draw(st.sampled_from(["unit", "unit", "positive"]))
    weights = [1.0] * rank if wk == "unit" else draw(st.lists(st.floats(0.1, 5.0), min_size=rank, max_size=rank))
    sc = gen.sparse_case_from_dense(A)
    order = draw(st.sampled_from(["sorted", "reverse", "random"]))
    perm = list(range(len(sc["subs"])))
    if order == "reverse":
        perm = perm[::-1]
    elif order == "random" and len(perm) > 1:
        perm = list(draw(st.permutations(perm)))
    c = dict(alg=alg, holder=holder, shape=list(shape), pattern=pattern,
             subs=[sc["subs"][i] for i in perm], vals=[sc["vals"][i] for i in perm], stored=order,
             rank=rank, factors=factors, weights=weights, wkind=wk, gclass=gclass,
             maxiters=draw(st.sampled_from([1, 2, 2, 3, 3, 4, 5])),
             maxinneriters=draw(st.sampled_from([1, 2, 2, 3, 5, 10, 10])),
             stoptol=draw(st.sampled_from([1e-4, 1e-4, 1e-2, 1e-8, 0.3])),
             epsDivZero=draw(st.sampled_from([1e-10, 1e-10, 1e-3])))
    if alg == "mu":
        c["kappa"] = draw(st.sampled_from([0.01, 0.01, 0.1, 1e-3]))
        c["kappatol"] = draw(st.sampled_from([1e-10, 1e-10, 1e-3]))
    else:
        c["epsActive"] = draw(st.sampled_from([1e-8, 1e-8, 1e-3]))
        c["precompinds"] = draw(st.booleans())
        if alg == "pdnr":
            c["mu0"] = draw(st.sampled_from([1e-5, 1e-5, 1e-2, 1.0]))
            c["inexact"] = draw(st.booleans())
        else:
            c["lbfgsMem"] = draw(st.sampled_from([1, 1, 1, 2, 3, 5]))
    return c


def _options(case):
    keys = ["maxinneriters", "stoptol", "epsDivZero", "kappa", "kappatol", "epsActive", "precompinds", "mu0", "inexact",
            "lbfgsMem"]
    return {k: case[k] for k in keys if k in case}


def _build(case):
    shape = tuple(case["shape"])
    A = gen.dense_of_sparse_case(case)
    if case["holder"] == "dense":
        data = ttb.tensor(A.copy(order="F"), shape)
    else:
        data = gen.build_sptensor(case)
    fm = [np.array(f, dtype=float).reshape(s, case["rank"]) for f, s in zip(case["factors"], shape)]
    return A, data, fm, np.array(case["weights"], dtype=float)


def _loglik(A, weights, factors):
    """sum_{x>0} x log m - sum m from the array the Kruskal tensor denotes; returns (value, scale)"""
    M = ref.den_kruskal(weights, factors)
    pos = A > 0
    with np.errstate(all="ignore"):
        t = A[pos] * np.log(M[pos])
    val = float(np.sum(t) - np.sum(M))
    with np.errstate(all="ignore"):
        scale = float(np.sum(np.abs(t[np.isfinite(t)])) + np.sum(np.abs(M)))
    return val, scale


def _snapshot_data(data):
    if isinstance(data, ttb.sptensor):
        return (np.array(data.subs, copy=True), np.array(data.vals, copy=True), tuple(data.shape))
    return (np.array(data.data, copy=True), tuple(data.shape))


def _same_snapshot(a, b):
    return len(a) == len(b) and all(np.array_equal(x, y) if isinstance(x, np.ndarray) else x == y for x, y in zip(a, b))


def _run(ctx, case, A, maxiters, what):
    _, data, fm, w = _build(case)
    init = ttb.ktensor([f.copy() for f in fm], w.copy())
    snap = _snapshot_data(data)
    with ctx.sut(what):
        out = ttb.cp_apr(data, case["rank"], algorithm=case["alg"], init=init, maxiters=maxiters, printitn=0,
                         **_options(case))
    ctx.require(isinstance(out, tuple) and len(out) == 3, "returns-(model,guess,output)", type(out).__name__)
    M, Minit, info = out
    ctx.require(isinstance(M, ttb.ktensor) and isinstance(info, dict), "result-types")
    # data / guess untouched
    ctx.check(_same_snapshot(_snapshot_data(data), snap), "data-unchanged")
    guess_same = (np.array_equal(init.weights, w) and len(init.factor_matrices) == len(fm)
                  and all(np.array_equal(a, b) for a, b in zip(init.factor_matrices, fm)))
    ctx.check(guess_same, "guess-unchanged")
    return M, info


def _per_iteration_lengths(info):
    out = {}
    for k in ("kktViolations", "nInnerIters", "times", "nViolations", "fnEvals", "fnVals", "nZeros"):
        if k in info:
            out[k] = int(np.size(info[k]))
    return out


def _check_result(ctx, case, A, M, info, maxiters, l0, s0):
    shape = tuple(case["shape"])
    ctx.check(tuple(M.shape) == shape and M.ncomponents == case["rank"], "model-rank-and-shape",
              f"{tuple(M.shape)} R={M.ncomponents}")
    W = np.asarray(M.weights, dtype=float)
    F = [np.asarray(f, dtype=float) for f in M.factor_matrices]
    ctx.require(len(F) == len(shape) and all(f.shape == (s, case["rank"]) for f, s in zip(F, shape))
                and W.shape == (case["rank"],), "model-well-formed")
    ctx.check(bool(np.all(W >= 0)), "weights-nonnegative", W)
    ctx.check(all(bool(np.all(f >= 0)) for f in F), "factor-entries-nonnegative",
              [float(np.min(f)) for f in F])
    ctx.require("obj" in info and "kktViolations" in info, "output-has-obj-and-kktViolations", sorted(info))
    obj = float(info["obj"])
    want, scale = _loglik(A, W, F)
    if np.isinf(want) or np.isnan(want):
        ctx.label("objective-minus-inf")
        ctx.check(obj == want or (np.isnan(obj) and np.isnan(want)), "objective-is-loglikelihood-of-returned-model",
                  f"{obj!r} vs {want!r}")
    else:
        ctx.check(abs(obj - want) <= 1e-9 * scale, "objective-is-loglikelihood-of-returned-model",
                  f"{obj!r} vs {want!r} (scale {scale:.3g})")
    kkt = np.ravel(np.asarray(info["kktViolations"], dtype=float))
    ctx.check(bool(np.all(kkt >= 0)), "kkt-violations-nonnegative", kkt)
    ctx.check(1 <= len(kkt) <= maxiters, "iteration-limit-respected", f"{len(kkt)} entries, maxiters {maxiters}")
    lens = _per_iteration_lengths(info)
    ctx.check(len(set(lens.values())) == 1, "one-entry-per-outer-iteration-in-every-output", lens)
    # at least as likely as the guess
    if np.isfinite(l0):
        ok = (want >= l0 - 1e-9 * (s0 + (scale if np.isfinite(scale) else 0.0))) if not np.isnan(want) else False
        ctx.check(ok, "at-least-as-likely-as-guess", f"result {want!r} < guess {l0!r}")
    return len(kkt)


def _body(ctx, case):
    A, _, fm, w = _build(case)
    k = case["maxiters"]
    zero_row = any(not np.any(f[i]) for f in fm for i in range(f.shape[0]))
    ctx.label(*gen.shape_classes(case["shape"]), "pattern-" + case["pattern"], f"rank{case['rank']}",
              "w-" + case["wkind"], "guess-" + case["gclass"], "has-all-zero-row" if zero_row else "no-all-zero-row", f"maxiters={k}",
              f"maxinner={case['maxinneriters']}")
    if case["holder"] == "sparse":
        ctx.label("stored-" + case["stored"])
    if case["alg"] == "pqnr":
        ctx.label(f"lbfgsMem={case['lbfgsMem']}")
    ctx.nt = bool(np.any(A == 0) and np.any(A >= 2) and case["rank"] >= 2)
    l0, s0 = _loglik(A, w, fm)
    if case["alg"] in ("pdnr", "pqnr") and zero_row:
        # PDNR / PQNR document that they start from the guess with 1e-8 written into the first column of every
        # all-zero row; that perturbed guess is the effective starting point (it can be 1e-8 x mass less likely)
        fp = [f.copy() for f in fm]
        for f in fp:
            f[np.sum(f, axis=1) == 0, 0] = 1e-8
        lp, sp = _loglik(A, w, fp)
        if np.isfinite(l0) and np.isfinite(lp) and lp < l0:
            l0, s0 = lp, sp
    ctx.label("guess-loglik-finite" if np.isfinite(l0) else "guess-loglik-minus-inf")
    M1, info1 = _run(ctx, case, A, k, "cp_apr")
    n1 = _check_result(ctx, case, A, M1, info1, k, l0, s0)
    M2, info2 = _run(ctx, case, A, k + 1, "cp_apr")
    n2 = _check_result(ctx, case, A, M2, info2, k + 1, l0, s0)
    ctx.label("used-all-iterations" if n1 == k else "stopped-early")
    if n2 == k + 1:
        # the longer run was still iterating after k sweeps, so the k-run cannot have stopped before k
        ctx.check(n1 == k, "one-kkt-entry-per-iteration-performed", f"{n1} entries for {k} iterations")
    else:
        ctx.check(n1 == min(k, n2), "one-kkt-entry-per-iteration-performed", f"{n1} vs longer run {n2} (k={k})")


for _alg, (_q, _t) in {"mu": (200, 4000), "pdnr": (150, 3000), "pqnr": (150, 3000)}.items():
    for _holder in ("dense", "sparse"):
        cell(f"C11/{_alg}/{_holder}", strategy=(lambda a, h: lambda tier: _apr_case(tier, a, h))(_alg, _holder),
             quick=_q, thorough=_t, shards=(2, 8))(_body)


def _has_zero_row(case):
    return any(not any(row) for f in case["factors"] for row in f)


def _dense_with_empty_slice(case):
    """dense holder and some slice x[.., j, ..] of the data is entirely zero (a zero row of an unfolding)"""
    if case.get("holder") != "dense":
        return False
    for n, size in enumerate(case["shape"]):
        seen = {s[n] for s in case["subs"]}
        if len(seen) < size:
            return True
    return False


def _guess_nearly_zero_at_a_count(case):
    """the guess gives (almost) no mass to some entry holding a positive count: the Poisson gradient is then
    clipped by epsDivZero and locally constant"""
    fm = [np.array(f, dtype=float).reshape(s, case["rank"]) for f, s in zip(case["factors"], case["shape"])]
    M = ref.den_kruskal(np.array(case["weights"], dtype=float), fm)
    return any(M[tuple(s)] < 1e-6 for s in case["subs"])


PREDICATES = {
    "pqnr_flat_gradient_row": lambda case: _dense_with_empty_slice(case) or _guess_nearly_zero_at_a_count(case),
    "guess_has_all_zero_row": _has_zero_row,
    "pqnr_mem_ge2_and_inner_ge2": lambda case: case.get("alg") == "pqnr" and case.get("lbfgsMem", 0) >= 2
    and case.get("maxinneriters", 0) >= 2,
}
