"""C03 — sparse element-wise arithmetic, logic and comparison match dense semantics."""

from __future__ import annotations

import numpy as np
from hypothesis import strategies as st

from .. import gen, ref
from ..core import cell
from . import _c03_helpers as H

PROPERTY = "C03"
RULE = (
    "cases = two operands on one shape given by their stored nonzeros in stored order (or one operand and a "
    "scalar).  Enumerated cells: every pair of zero patterns (4**cells pairs) of the shapes (2,),(4,),(2,2),(1,3),"
    "(2,1,2) [thorough: also (1,),(3,),(1,1),(3,2),(8,),(2,4),(2,2,2)], each pair several times with values from "
    "{-2,-1,1,2,2.5} (second operand repeats the first one's value at a common position 1 time in 3) and the "
    "stored order sorted / reversed / shuffled, all chosen by a PRNG seeded with the enumeration index; every "
    "pattern x 9 scalars {-2,-1,0,1,2,2.5 as int and float}.  Sampled cells: Hypothesis-drawn shapes up to 64 "
    "(thorough 400) cells, pattern classes none/one/some/all, integer / half-integer / general float values.  "
    "Every case runs all of + - * / == != < <= > >= logical_and/or/xor (and logical_not, unary +/-, c*S, c/S, "
    "c <cmp> S in the scalar cells) for its operand kinds: sptensor-sptensor, sptensor-tensor, tensor-sptensor, "
    "sptensor-scalar.  Oracle = the same NumPy operator on the expanded arrays under errstate(ignore), exact "
    "NaN-aware comparison of the expansion of whatever is returned (sparse results must be well-formed: integer "
    "in-range distinct subscripts, one value per subscript; explicitly stored zeros are accepted; where an open "
    "known finding is confined to one class of positions the values clause is split into that class and the rest).  "
    "Every clause name carries the operator, the operand kinds and the input class (stored-entry counts 0/1/2+, "
    "stored orders same/different, zero patterns same/different, ...), so each is judged separately.  Non-trivial: "
    "both operands have a zero and a nonzero and their zero patterns differ (scalar cells: the sparse operand has "
    "a zero and a nonzero)."
)
ASSUMPTIONS = [
    "oracle: NumPy ufunc on the dense expansion of the operands; booleans compared as 0/1; -0.0 == 0.0; NaN == NaN",
    "each output entry is one IEEE operation on the two input entries, so exact equality is required for general floats too",
    "a sparse result may store explicit zeros (e.g. S*0); this is not asserted here (C06)",
    "scalars are Python int / float (and numpy.float64, a float subclass); numpy integer scalars are not claimed",
    "enumeration values/orders come from random.Random(crc32(enumeration index)) — deterministic, not Hypothesis-driven",
]


# --------------------------------------------------------------------------
# bodies
# --------------------------------------------------------------------------


def _info(case):
    return f"A={H.dense_of(case['shape'], case['a']).tolist()} a-stored={case['a']['subs']}" + (
        f" B={H.dense_of(case['shape'], case['b']).tolist()} b-stored={case['b']['subs']}" if "b" in case
        else f" c={case['c']!r}")


def _body_spsp(ctx, case):
    shape = case["shape"]
    A, B = H.dense_of(shape, case["a"]), H.dense_of(shape, case["b"])
    tags = H.tags_spsp(case)
    ts = ",".join(tags)
    ctx.label(*tags, f"cells{min(A.size, 9)}")
    ctx.nt = H.nontrivial_pair(case)
    info = _info(case)
    for name in H.BINARY:
        # fresh operands for every operator: a mutated operand must not leak into the next call
        with ctx.sut("construct"):
            S, S2 = H.sp_of(shape, case["a"]), H.sp_of(shape, case["b"])
        H.run_op(ctx, f"{name}/sp-sp", ts, lambda: H.SUT[name](S, S2), lambda: H.NP[name](A, B), info,
                 split=H.value_split(f"{name}/sp-sp", A, B))


def _body_sptn(ctx, case):
    shape = case["shape"]
    A, B = H.dense_of(shape, case["a"]), H.dense_of(shape, case["b"])
    tags = H.tags_sptn(case)
    ts = ",".join(tags)
    ctx.label(*tags, f"cells{min(A.size, 9)}")
    ctx.nt = H.nontrivial_pair(case)
    info = _info(case)
    for name in H.BINARY:
        with ctx.sut("construct"):
            S, T = H.sp_of(shape, case["a"]), H.tn_of(shape, case["b"])
        H.run_op(ctx, f"{name}/sp-tn", ts, lambda: H.SUT[name](S, T), lambda: H.NP[name](A, B), info,
                 split=H.value_split(f"{name}/sp-tn", A, B))


def _body_tnsp(ctx, case):
    shape = case["shape"]
    A, B = H.dense_of(shape, case["a"]), H.dense_of(shape, case["b"])
    tags = H.tags_sptn(case)
    ts = ",".join(tags)
    ctx.label(*tags, f"cells{min(A.size, 9)}")
    ctx.nt = H.nontrivial_pair(case)
    info = _info(case)
    for name in H.BINARY:
        with ctx.sut("construct"):
            S, T = H.sp_of(shape, case["a"]), H.tn_of(shape, case["b"])
        H.run_op(ctx, f"{name}/tn-sp", ts, lambda: H.SUT[name](T, S), lambda: H.NP[name](B, A), info)


def _body_scalar(ctx, case):
    shape = case["shape"]
    A = H.dense_of(shape, case["a"])
    c = H.scalar_of(case)
    tags = H.tags_scalar(case)
    ts = ",".join(tags)
    ctx.label(*tags, "ckind-" + case.get("ckind", "float"))
    na = len(case["a"]["subs"])
    ctx.nt = 0 < na < A.size
    info = _info(case)
    for name in H.BINARY:
        with ctx.sut("construct"):
            S = H.sp_of(shape, case["a"])
        H.run_op(ctx, f"{name}/sp-sc", ts, lambda: H.SUT[name](S, c), lambda: H.NP[name](A, c), info)
    for name in H.REFLECTED_SCALAR:
        with ctx.sut("construct"):
            S = H.sp_of(shape, case["a"])
        H.run_op(ctx, f"{name}/sc-sp", ts, lambda: H.SUT[name](c, S), lambda: H.NP[name](c, A), info)
    uts = tags[0]
    with ctx.sut("construct"):
        S = H.sp_of(shape, case["a"])
    H.run_op(ctx, "not/sp", uts, lambda: S.logical_not(), lambda: np.logical_not(A), info)
    H.run_op(ctx, "neg/sp", uts, lambda: -S, lambda: -A, info)
    H.run_op(ctx, "pos/sp", uts, lambda: +S, lambda: A, info)


# --------------------------------------------------------------------------
# enumerated cells
# --------------------------------------------------------------------------


@cell("C03/sp-sp/enumerated", enum=lambda tier: H.enum_pairs(tier, 3, permute_b=True), shards=(8, 32))
def spsp_enumerated(ctx, case):
    """all pairs of zero patterns, both operands sparse in any stored order"""
    _body_spsp(ctx, case)


@cell("C03/sp-tn/enumerated", enum=lambda tier: H.enum_pairs(tier, 2, permute_b=False), shards=(4, 32))
def sptn_enumerated(ctx, case):
    """all pairs of zero patterns, S op T"""
    _body_sptn(ctx, case)


@cell("C03/tn-sp/enumerated", enum=lambda tier: H.enum_pairs(tier, 1, permute_b=False), shards=(4, 16))
def tnsp_enumerated(ctx, case):
    """all pairs of zero patterns, T op S (dense operand on the left)"""
    _body_tnsp(ctx, case)


@cell("C03/scalar/enumerated", enum=H.scalar_cases, shards=(4, 16))
def scalar_enumerated(ctx, case):
    """all zero patterns x scalars of either sign and zero; S op c, c op S, logical_not, unary +/-"""
    _body_scalar(ctx, case)


# --------------------------------------------------------------------------
# sampled cells (beyond 8 cells)
# --------------------------------------------------------------------------

_HALF_VALUES = st.sampled_from([v / 2.0 for v in range(-6, 7) if v != 0])
_SET_VALUES = st.sampled_from(list(H.VALUE_SET))


def _vstrat(vkind):
    if vkind == "set":
        return _SET_VALUES
    if vkind == "half":
        return _HALF_VALUES
    return gen.NZ_GEN_VALUES


@st.composite
def _mask(draw, n, pattern):
    """Zero pattern of a class: none / one / some (k of n nonzero, 2 <= k <= n-2 where possible) / allbut1 / all."""
    if pattern == "none" or n == 0:
        return [False] * n
    if pattern == "all":
        return [True] * n
    if pattern in ("one", "allbut1"):
        k = draw(st.integers(0, n - 1))
        return [(i == k) == (pattern == "one") for i in range(n)]
    lo, hi = (2, n - 2) if n >= 4 else (1, max(1, n - 1))
    k = draw(st.integers(lo, hi))
    if k > n // 2:  # draw the complement: fewer elements to draw
        off = set(draw(st.lists(st.integers(0, n - 1), min_size=n - k, max_size=n - k, unique=True)))
        return [i not in off for i in range(n)]
    on = set(draw(st.lists(st.integers(0, n - 1), min_size=k, max_size=k, unique=True)))
    return [i in on for i in range(n)]


def _store(draw, entries):
    how = draw(st.sampled_from(["sorted", "reverse", "random"]))
    if how == "reverse":
        entries = entries[::-1]
    elif how == "random" and len(entries) > 1:
        p = draw(st.permutations(range(len(entries))))
        entries = [entries[i] for i in p]
    return dict(subs=[list(e[0]) for e in entries], vals=[e[1] for e in entries])


@st.composite
def _big_shape(draw, tier):
    """Shapes with more than 8 cells (<=8 is enumerated): order 1..4 (thorough 1..5), mode sizes 1..4 (1..6), one
    mode enlarged where needed to get past 8 cells, at most 64 (400) cells; singleton modes deliberately common."""
    mo, ms, mc = gen.tier_limits(tier)
    n = draw(st.integers(1, mo))
    shape = [draw(st.sampled_from([1, 2, 2, 3, 3, 4] + list(range(5, ms + 1)))) for _ in range(n)]
    k = draw(st.integers(0, n - 1))
    while ref.prod(shape) > mc:
        j = max(range(n), key=lambda i: shape[i])
        shape[j] -= 1
    if ref.prod(shape) < 9:
        rest = ref.prod(shape) // shape[k]
        shape[k] = -(-9 // rest) + draw(st.integers(0, 3))
    return shape


_PATTERNS_A = ["none", "one", "some", "some", "some", "some", "allbut1", "all"]
_PATTERNS_B = ["none", "one", "some", "some", "some", "allbut1", "all", "same-as-a", "perturbed-a"]


@st.composite
def _operand_a(draw, tier):
    shape = draw(_big_shape(tier))
    n = ref.prod(shape)
    vkind = draw(st.sampled_from(["set", "half", "float"]))
    vs = _vstrat(vkind)
    ma = draw(_mask(n, draw(st.sampled_from(_PATTERNS_A))))
    k = sum(ma)  # draw exactly the values that are used (unused draws only produce duplicate cases)
    vals = iter(draw(st.lists(vs, min_size=k, max_size=k)))
    va = [next(vals) if m else 0.0 for m in ma]
    return shape, n, vs, va


@st.composite
def _pair_sampled(draw, tier, permute_b=True):
    shape, n, vs, va = draw(_operand_a(tier))
    subsF = ref.all_subs_F(shape)
    pb = draw(st.sampled_from(_PATTERNS_B))
    if pb in ("same-as-a", "perturbed-a"):
        mb = [v != 0.0 for v in va]
        if pb == "perturbed-a":
            for k in draw(st.lists(st.integers(0, n - 1), min_size=1, max_size=3)):
                mb[k] = not mb[k]
    else:
        mb = draw(_mask(n, pb))
    ncommon = sum(1 for k in range(n) if mb[k] and va[k] != 0.0)
    same = iter(draw(st.lists(st.integers(0, 2), min_size=ncommon, max_size=ncommon)))
    vb = [0.0] * n
    for k in range(n):
        if mb[k]:
            vb[k] = va[k] if (va[k] != 0.0 and next(same) == 0) else None
    nfresh = sum(1 for v in vb if v is None)
    fresh = iter(draw(st.lists(vs, min_size=nfresh, max_size=nfresh)))
    vb = [next(fresh) if v is None else v for v in vb]
    ea = [(subsF[k], va[k]) for k in range(n) if va[k] != 0.0]
    eb = [(subsF[k], vb[k]) for k in range(n) if vb[k] != 0.0]
    a = _store(draw, ea)
    b = _store(draw, eb) if permute_b else dict(subs=[list(e[0]) for e in eb], vals=[e[1] for e in eb])
    return dict(shape=list(shape), a=a, b=b)


@st.composite
def _scalar_sampled(draw, tier):
    shape, n, vs, va = draw(_operand_a(tier))
    subsF = ref.all_subs_F(shape)
    ea = [(subsF[k], va[k]) for k in range(n) if va[k] != 0.0]
    a = _store(draw, ea)
    how = draw(st.sampled_from(["zero", "stored", "neg-stored", "other", "other"]))
    if how == "zero":
        c = 0.0
    elif how in ("stored", "neg-stored") and ea:
        c = draw(st.sampled_from([e[1] for e in ea]))
        c = -c if how == "neg-stored" else c
    else:
        c = draw(st.one_of(vs, st.sampled_from([-3.0, -1.0, 1.0, 3.0, 0.5, -0.5])))
    ckind = draw(st.sampled_from(["float", "npfloat"] + (["int"] if float(c).is_integer() else [])))
    return dict(shape=list(shape), a=a, c=float(c), ckind=ckind)


@cell("C03/sp-sp/sampled", strategy=lambda tier: _pair_sampled(tier, True), quick=500, thorough=12000, shards=(4, 16))
def spsp_sampled(ctx, case):
    _body_spsp(ctx, case)


@cell("C03/sp-tn/sampled", strategy=lambda tier: _pair_sampled(tier, False), quick=400, thorough=8000, shards=(4, 16))
def sptn_sampled(ctx, case):
    _body_sptn(ctx, case)


@cell("C03/tn-sp/sampled", strategy=lambda tier: _pair_sampled(tier, False), quick=300, thorough=6000, shards=(2, 8))
def tnsp_sampled(ctx, case):
    _body_tnsp(ctx, case)


@cell("C03/scalar/sampled", strategy=_scalar_sampled, quick=400, thorough=8000, shards=(2, 8))
def scalar_sampled(ctx, case):
    _body_scalar(ctx, case)


# --------------------------------------------------------------------------
# predicates for known_findings/C03.json (pure functions of the case)
# --------------------------------------------------------------------------


def _na(case):
    return len(case["a"]["subs"])


def _nb(case):
    return len(case["b"]["subs"])


def _ne_dense_float_subs(case):
    """`S != T` builds exactly one of its two subscript blocks (S == 0 and T != 0; stored entry of S that differs
    from T) as an empty float array while the other block is not empty."""
    shape = case["shape"]
    A, B = H.dense_of(shape, case["a"]), H.dense_of(shape, case["b"])
    return bool(np.any((A == 0) & (B != 0))) != bool(np.any((A != 0) & (A != B)))


PREDICATES = {
    # sptensor (op) sptensor
    "common_order_differs": H.common_order_differs,
    "common_order_differs_supports_equal": lambda c: H.common_order_differs(c) and not H.supports_differ(c),
    "supports_differ": H.supports_differ,
    # some position is stored by the left operand only: x/0 there (pyttb writes NaN, the property says signed infinity)
    "left_only_position_exists": lambda c: bool(set(H._keys(c["a"])) - set(H._keys(c["b"]))),
    "both_empty": lambda c: _na(c) == 0 and _nb(c) == 0,
    "exactly_one_operand_empty": lambda c: (_na(c) == 0) != (_nb(c) == 0),
    # sptensor (op) tensor
    "sparse_one_stored": lambda c: _na(c) == 1,
    "sparse_empty": lambda c: _na(c) == 0,
    "sparse_many_dense_zero_under_stored": lambda c: _na(c) >= 2 and H.dense_zero_under_stored(c),
    "sparse_many_both_zero_somewhere": lambda c: _na(c) >= 2 and H.both_zero_somewhere(c),
    "both_zero_somewhere": H.both_zero_somewhere,
    "dense_exactly_one_zero": lambda c: H.dense_zero_count(c) == 1,
    "ne_dense_float_subs": _ne_dense_float_subs,
    # sptensor (op) scalar
    "eq_scalar_count_mismatch": lambda c: float(c["c"]) != 0 and H.scalar_matches(c) != "all",
    "ne_scalar_count_mismatch": lambda c: float(c["c"]) != 0 and _na(c) > 0 and H.scalar_matches(c) != "all",
    "sparse_empty_scalar_zero": lambda c: _na(c) == 0 and float(c["c"]) == 0,
}
