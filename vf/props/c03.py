"""C03 — sparse element-wise arithmetic, logic and comparison match dense semantics."""

from __future__ import annotations

import numpy as np
import pyttb as ttb
from hypothesis import strategies as st

from .. import gen, ref
from ..core import Abort, cell
from . import _c03_helpers as H

PROPERTY = "C03"
RULE = (
    "cases = two operands on one shape given by their stored nonzeros in stored order (or one operand and a "
    "scalar).  Enumerated cells: every pair of zero patterns (4**cells pairs) of the shapes (2,),(4,),(2,2),(1,3),"
    "(2,1,2) [thorough: also (1,),(3,),(1,1),(3,2),(8,),(2,4),(2,2,2)], each pair several times with values from "
    "{-2,-1,1,2,2.5} (second operand repeats the first one's value at a common position 1 time in 3) and the "
    "stored order sorted / reversed / shuffled, all chosen by a PRNG seeded with the enumeration index; every "
    "pattern x 9 scalars {-2,-1,0,1,2,2.5 as int and float}.  Sampled cells: Hypothesis-drawn shapes up to 64 "
    "(thorough 400) cells, pattern classes none/one/some/all, integer / half-integer / general float values.  "
    "Every case runs all of + - * / == != < <= > >= logical_and/or/xor (and logical_not, unary +/-, c*S, c/S, "
    "c <cmp> S in the scalar cells) for its operand kinds: sptensor-sptensor, sptensor-tensor, tensor-sptensor, "
    "sptensor-scalar.  Oracle = the same NumPy operator on the expanded arrays under errstate(ignore), exact "
    "NaN-aware comparison of the expansion of whatever is returned (sparse results must be well-formed: integer "
    "in-range distinct subscripts, one value per subscript; explicitly stored zeros are accepted; where an open "
    "known finding is confined to one class of positions the values clause is split into that class and the rest).  "
    "Every clause name carries the operator, the operand kinds and the input class (stored-entry counts 0/1/2+, "
    "stored orders same/different, zero patterns same/different, ...), so each is judged separately.  Non-trivial: "
    "both operands have a zero and a nonzero and their zero patterns differ (scalar cells: the sparse operand has "
    "a zero and a nonzero).  "
    "Round 2: (dtypes) an operand whose values are all integers is held in an integer dtype two times in three "
    "(int64 / int32 / int8, uint8 when positive), independently for the two operands, in the enumerated cells (by a "
    "second PRNG stream, values / orders unchanged) and in the sampled cells (whose two operands now draw their kind "
    "of values - integer, {-2..2.5}, half-integer, general, 1e-6- and 1e+6-scaled floats - independently half of "
    "the time), so int/float, float/int, int/int, unsigned/* pairs meet under every operator and operand kind; the "
    "oracle is the float64 (mathematical) result and no result dtype is demanded; tag dt-XY in the clause names.  "
    "(states) cells */state: sparse operands holding 1..3 explicitly stored zeros and / or a numpy-integer shape, "
    "dense operands grown by assignment, on small and large shapes; clause values@explicit-zero separates the positions "
    "of stored zeros from the rest.  (calls) after every operator the operands must denote what they did before "
    "(<op>:operand-unchanged).  (boundaries) at a common position the second operand repeats, negates (a+b cancels "
    "exactly) or ignores the first one's value.  "
    "Round 3: (sizes) cells */large - three operand pairs / scalar cases per run and operand kind on (12,12,12), (40,45), "
    "(6,7,6,7), (2500,) with 800..2400 stored nonzeros and on (30,30,30), (20,21,20) with 45..700, so that nnz*cells*ndims "
    "and nnz(A)*nnz(B)*ndims straddle and mostly exceed 2**22 row comparisons; compact case expanded by a PRNG (simplest "
    "Hypothesis example skipped, run seed mixed in); beyond 3000 cells the operators whose result marks every empty "
    "position are not run for sparse/sparse and S != T (pyttb is quadratic in the cell count there).  Cells */huge: "
    "modes longer than 2**40 / 2**53 / 2**60, more than 2**63 cells, subscripts at the mode ends and just above 2**53, "
    "the operators with op(0,0)=0 (+ - * != < > and/or/xor; scalar: * / and the comparisons that are false at 0, unary "
    "+-) judged entry by entry.  (near values) at a common position the second operand may also hold the first one's "
    "value moved by one ulp .. relative 1e-6, the scalar a stored value moved likewise.  (dynamic range) value kinds "
    "xtiny / xhuge (1e-200 / 1e+200): products and quotients underflow to zero / overflow; every entry is still one "
    "IEEE operation.  (several live objects) for one operator per case (each gets its turn over the cases) the result and the operands are "
    "edited in place in turn (S[subs] = v, T[...] = B) and all the others must stay exactly what they were "
    "(<op>:<object>:changed-by:edit-of-<other>).  "
    "Round 4: (presentation) cells */present - the same operands the way callers hand them over: subscript arrays in "
    "int32 / int16 / int8 / uint8 / uint16 / uint32 / uint64, independently for the two operands (mixed dtypes), through "
    "sptensor(subs, vals, shape), from_aggregator, the row / col / data arrays of a scipy.sparse.coo_matrix (int32), and "
    "copy=False on Fortran-ordered / read-only / strided views; shapes as tuples of numpy int64 / int32 / uint8, lists, "
    "integer arrays, a bare int; dense operands from C-ordered, strided (reversed axis), read-only arrays (copied or "
    "referenced) and flat vectors; scalars as numpy int64 / int32 / int8 / uint8 / float32 (only next to values whose "
    "promotion with float32 is float64) / bool_ and Python bool; one case in five also holds explicitly stored zeros; the "
    "NumPy oracle is unchanged and x / y must also agree with the same request in the default presentation "
    "(div:presentation-agrees).  One sparse operand in four of the enumerated cells and two in three of the large ones "
    "also carry int32 / int16 / uint8 / uint32 subscripts (separate PRNG stream).  (environment) one */present case in "
    "four runs with the root logger at DEBUG.  (rejected requests) cells */mismatch - operands of different shapes that "
    "NumPy broadcasting would reconcile (extent 1 against n, one more / fewer singleton mode, all extents 1), permuted / "
    "reshaped shapes with the same number of cells, one extent off by one: sptensor (op) sptensor|tensor must reject all "
    "13 operators (<op>:shape-mismatch-rejected); afterwards both operands are bit for bit what they were "
    "(<op>:operands-unchanged-after-rejected-mismatch) and a further valid request on each is judged against NumPy "
    "(<op> after-rejected-<op>); tensor (op) sptensor is decided by the dense operators (NumPy broadcasting: accepted "
    "when broadcastable - labelled, not judged) and must leave the operands unchanged either way."
)
ASSUMPTIONS = [
    "oracle: NumPy ufunc on the dense expansion of the operands; booleans compared as 0/1; -0.0 == 0.0; NaN == NaN",
    "each output entry is one IEEE operation on the two input entries, so exact equality is required for general floats too",
    "a sparse result may store explicit zeros (e.g. S*0); this is not asserted here (C06)",
    "scalars are Python int / float (and numpy.float64, a float subclass) everywhere but in C03/scalar/present, which also "
    "passes numpy int64 / int32 / int8 / uint8 / float32 / bool_ scalars and Python bool: the documented dense counterpart, "
    "c (op) S and S * c accept them, so S (op) c is claimed too (open finding C03-K16)",
    "a subscript array of any integer dtype that holds the subscripts is a valid argument of the sparse constructors "
    "(uint64 included: open finding C03-K17); results are not required to keep or to change the subscript dtype",
    "shape-mismatched requests are expected to be rejected only where sptensor.py itself decides (sparse left operand); "
    "for a dense left operand acceptance by NumPy broadcasting is recorded, not judged (tensor.py has no shape check)",
    "enumeration values/orders come from random.Random(crc32(enumeration index)) — deterministic, not Hypothesis-driven",
    "integer dtypes are assigned only to operands whose values are integers of magnitude <= 10 (no int8 overflow in "
    "sums / products); with an unsigned operand an operator whose true result has a negative entry is outside the "
    "domain (NumPy wraps around or refuses) and is not run (label not-run:negative-result-with-unsigned-operand)",
    "float32 operands are not generated: the exact-equality oracle is stated for float64 arithmetic",
]


# --------------------------------------------------------------------------
# bodies
# --------------------------------------------------------------------------


def _info(case):
    if ref.prod(case["shape"]) > 400:
        return f"shape={case['shape']} nnz(a)={len(case['a']['subs'])}" + (
            f" nnz(b)={len(case['b']['subs'])}" if "b" in case else f" c={case['c']!r}")
    return f"A={H.dense_of(case['shape'], case['a']).tolist()} a-stored={case['a']['subs']}" + (
        f" B={H.dense_of(case['shape'], case['b']).tolist()} b-stored={case['b']['subs']}" if "b" in case
        else f" c={case['c']!r}")


def _plain(part):
    """the same operand in the library's favourite presentation"""
    return {k: v for k, v in part.items() if k not in ("subsdt", "ctor", "shapekind", "dpres")}


def _agrees(ctx, name, case, R, fn0):
    """presentation cells, operators whose NumPy oracle is partly excused by an open known finding (x / y): the same
    request with both operands in the default presentation must give the same answer"""
    if not case.get("present") or not name.startswith("div/") or R is None:
        return
    try:
        with ctx.sut(f"{name} default-presentation"):
            R0 = fn0()
        got, want = ref.den(R), ref.den(R0)
    except Abort:
        return
    except Exception:  # noqa: BLE001  (an ill-formed result: already reported by the wellformed clause)
        return
    ctx.check(ref.same_exact(got, want), f"{name}:presentation-agrees", f"{ref.diff_info(got, want)} {_info(case)}")


def _with_env(body):
    def run(ctx, case):
        with H.environment(case.get("env") if isinstance(case, dict) else None):
            body(ctx, case)

    run.__name__ = body.__name__
    return run


@_with_env
def _body_spsp(ctx, case):
    case = H.expand(case)
    skip_ops = H.big_not_run("sp-sp", case)
    shape = case["shape"]
    A, B = H.dense_of(shape, case["a"]), H.dense_of(shape, case["b"])
    tags = H.tags_spsp(case)
    ts = ",".join(tags)
    ctx.label(*tags, f"cells{min(A.size, 9)}")
    ctx.nt = H.nontrivial_pair(case)
    info = _info(case)
    uns = H.has_unsigned(case)
    ctx.label("dtypes-" + H.part_dtype(case["a"]) + "/" + H.part_dtype(case["b"]))
    for name in H.BINARY:
        if name in skip_ops:
            ctx.label("not-run:quadratic-at-this-size")
            continue
        # fresh operands for every operator: a mutated operand must not leak into the next call
        with ctx.sut("construct"):
            S, S2 = H.sp_of(shape, case["a"]), H.sp_of(shape, case["b"])
        R = H.run_op(ctx, f"{name}/sp-sp", ts, lambda: H.SUT[name](S, S2), lambda: H.NP[name](A, B), info,
                     split=H.value_split(f"{name}/sp-sp", A, B, case), unsigned=uns)
        H.check_unchanged(ctx, f"{name}/sp-sp", (S, A), (S2, B))
        _agrees(ctx, f"{name}/sp-sp", case, R,
                lambda: H.SUT[name](H.sp_of(shape, _plain(case["a"])), H.sp_of(shape, _plain(case["b"]))))
        if H.alias_turn(case, H.BINARY.index(name)):
            H.check_alias(ctx, f"{name}/sp-sp", R, left=S, right=S2)


@_with_env
def _body_sptn(ctx, case):
    case = H.expand(case)
    skip_ops = H.big_not_run("sp-tn", case)
    shape = case["shape"]
    A, B = H.dense_of(shape, case["a"]), H.dense_of(shape, case["b"])
    tags = H.tags_sptn(case)
    ts = ",".join(tags)
    ctx.label(*tags, f"cells{min(A.size, 9)}")
    ctx.nt = H.nontrivial_pair(case)
    info = _info(case)
    uns = H.has_unsigned(case)
    ctx.label("dtypes-" + H.part_dtype(case["a"]) + "/" + H.part_dtype(case["b"]))
    for name in H.BINARY:
        if name in skip_ops:
            ctx.label("not-run:quadratic-at-this-size")
            continue
        with ctx.sut("construct"):
            S, T = H.sp_of(shape, case["a"]), H.tn_of(shape, case["b"])
        R = H.run_op(ctx, f"{name}/sp-tn", ts, lambda: H.SUT[name](S, T), lambda: H.NP[name](A, B), info,
                     split=H.value_split(f"{name}/sp-tn", A, B, case), unsigned=uns)
        H.check_unchanged(ctx, f"{name}/sp-tn", (S, A), (T, B))
        _agrees(ctx, f"{name}/sp-tn", case, R,
                lambda: H.SUT[name](H.sp_of(shape, _plain(case["a"])), H.tn_of(shape, _plain(case["b"]))))
        if H.alias_turn(case, H.BINARY.index(name)):
            H.check_alias(ctx, f"{name}/sp-tn", R, left=S, right=T)


@_with_env
def _body_tnsp(ctx, case):
    case = H.expand(case)
    skip_ops = H.big_not_run("tn-sp", case)
    shape = case["shape"]
    A, B = H.dense_of(shape, case["a"]), H.dense_of(shape, case["b"])
    tags = H.tags_sptn(case)
    ts = ",".join(tags)
    ctx.label(*tags, f"cells{min(A.size, 9)}")
    ctx.nt = H.nontrivial_pair(case)
    info = _info(case)
    uns = H.has_unsigned(case)
    ctx.label("dtypes-" + H.part_dtype(case["a"]) + "/" + H.part_dtype(case["b"]))
    for name in H.BINARY:
        with ctx.sut("construct"):
            S, T = H.sp_of(shape, case["a"]), H.tn_of(shape, case["b"])
        R = H.run_op(ctx, f"{name}/tn-sp", ts, lambda: H.SUT[name](T, S), lambda: H.NP[name](B, A), info,
                     unsigned=uns, split=H.value_split(f"{name}/tn-sp", B, A, case))
        H.check_unchanged(ctx, f"{name}/tn-sp", (S, A), (T, B))
        if H.alias_turn(case, H.BINARY.index(name)):
            H.check_alias(ctx, f"{name}/tn-sp", R, left=T, right=S)


@_with_env
def _body_scalar(ctx, case):
    case = H.expand(case)
    shape = case["shape"]
    A = H.dense_of(shape, case["a"])
    c = H.scalar_of(case)
    tags = H.tags_scalar(case)
    ts = ",".join(tags)
    ctx.label(*tags, "ckind-" + case.get("ckind", "float"))
    na = len(case["a"]["subs"])
    ctx.nt = 0 < na < A.size
    info = _info(case)
    uns = H.has_unsigned(case)
    ctx.label("dtypes-" + H.part_dtype(case["a"]) + "/scalar")
    ezs = H.value_split("", A, A, case)
    for name in H.BINARY:
        with ctx.sut("construct"):
            S = H.sp_of(shape, case["a"])
        R = H.run_op(ctx, f"{name}/sp-sc", ts, lambda: H.SUT[name](S, c), lambda: H.NP[name](A, float(c)), info,
                     unsigned=uns, split=ezs)
        H.check_unchanged(ctx, f"{name}/sp-sc", (S, A))
        if H.alias_turn(case, H.BINARY.index(name)):
            H.check_alias(ctx, f"{name}/sp-sc", R, left=S)
    for name in H.REFLECTED_SCALAR:
        with ctx.sut("construct"):
            S = H.sp_of(shape, case["a"])
        R = H.run_op(ctx, f"{name}/sc-sp", ts, lambda: H.SUT[name](c, S), lambda: H.NP[name](float(c), A), info,
                     unsigned=uns, split=ezs)
        H.check_unchanged(ctx, f"{name}/sc-sp", (S, A))
        if H.alias_turn(case, H.BINARY.index(name) + 1):
            H.check_alias(ctx, f"{name}/sc-sp", R, right=S)
    uts = ",".join([tags[0]] + H.extra_tags(case))
    with ctx.sut("construct"):
        S = H.sp_of(shape, case["a"])
    R1 = H.run_op(ctx, "not/sp", uts, lambda: S.logical_not(), lambda: np.logical_not(A), info, split=ezs)
    R2 = H.run_op(ctx, "neg/sp", uts, lambda: -S, lambda: -A, info, unsigned=uns, split=ezs)
    R3 = H.run_op(ctx, "pos/sp", uts, lambda: +S, lambda: A, info, split=ezs)
    H.check_unchanged(ctx, "unary/sp", (S, A))
    if ref.prod(shape) <= 400:
        uname, R = (("not/sp", R1), ("neg/sp", R2), ("pos/sp", R3))[na % 3]
        H.check_alias(ctx, uname, R, operand=S)


# --------------------------------------------------------------------------
# enumerated cells
# --------------------------------------------------------------------------


@cell("C03/sp-sp/enumerated", enum=lambda tier: H.enum_pairs(tier, 3, permute_b=True), shards=(8, 32))
def spsp_enumerated(ctx, case):
    """all pairs of zero patterns, both operands sparse in any stored order"""
    _body_spsp(ctx, case)


@cell("C03/sp-tn/enumerated", enum=lambda tier: H.enum_pairs(tier, 2, permute_b=False), shards=(4, 32))
def sptn_enumerated(ctx, case):
    """all pairs of zero patterns, S op T"""
    _body_sptn(ctx, case)


@cell("C03/tn-sp/enumerated", enum=lambda tier: H.enum_pairs(tier, 1, permute_b=False), shards=(4, 16))
def tnsp_enumerated(ctx, case):
    """all pairs of zero patterns, T op S (dense operand on the left)"""
    _body_tnsp(ctx, case)


@cell("C03/scalar/enumerated", enum=H.scalar_cases, shards=(4, 16))
def scalar_enumerated(ctx, case):
    """all zero patterns x scalars of either sign and zero; S op c, c op S, logical_not, unary +/-"""
    _body_scalar(ctx, case)


# --------------------------------------------------------------------------
# sampled cells (beyond 8 cells)
# --------------------------------------------------------------------------

_HALF_VALUES = st.sampled_from([v / 2.0 for v in range(-6, 7) if v != 0])
_SET_VALUES = st.sampled_from(list(H.VALUE_SET))
_INT_VALUES = st.sampled_from([float(v) for v in range(-6, 7) if v != 0])
_VKINDS = ["int", "int", "set", "half", "float", "tiny", "huge", "xtiny", "xhuge"]
_XSCALE = {"tiny": 1e-6, "huge": 1e6, "xtiny": 1e-200, "xhuge": 1e200}
_NEAR = [1.0 + 2.0**-52, 1.0 - 2.0**-53, 1.0 + 1e-12, 1.0 - 1e-12, 1.0 + 1e-9, 1.0 - 1e-6]


def _vstrat(vkind):
    if vkind == "int":
        return _INT_VALUES
    if vkind == "set":
        return _SET_VALUES
    if vkind == "half":
        return _HALF_VALUES
    if vkind in _XSCALE:
        # every output entry is one IEEE operation: exact at any magnitude, also where products / quotients of two
        # entries underflow to zero or overflow to infinity (xtiny / xhuge: 1e-200 / 1e+200)
        return gen.NZ_GEN_VALUES.map((lambda f: lambda v: v * f)(_XSCALE[vkind]))
    return gen.NZ_GEN_VALUES


def _draw_dtype(draw, part):
    """an operand whose values are all integers is held in an integer dtype two times in three (int64 / int32 /
    int8, or uint8 when all values are positive); every other operand is float64"""
    vals = part["vals"]
    if vals and H.integral(vals) and draw(st.integers(0, 2)):
        part["dtype"] = draw(st.sampled_from(["int64", "int64", "int32", "uint8" if min(vals) > 0 else "int8"]))
    return part


@st.composite
def _mask(draw, n, pattern):
    """Zero pattern of a class: none / one / some (k of n nonzero, 2 <= k <= n-2 where possible) / allbut1 / all."""
    if pattern == "none" or n == 0:
        return [False] * n
    if pattern == "all":
        return [True] * n
    if pattern in ("one", "allbut1"):
        k = draw(st.integers(0, n - 1))
        return [(i == k) == (pattern == "one") for i in range(n)]
    lo, hi = (2, n - 2) if n >= 4 else (1, max(1, n - 1))
    k = draw(st.integers(lo, hi))
    if k > n // 2:  # draw the complement: fewer elements to draw
        off = set(draw(st.lists(st.integers(0, n - 1), min_size=n - k, max_size=n - k, unique=True)))
        return [i not in off for i in range(n)]
    on = set(draw(st.lists(st.integers(0, n - 1), min_size=k, max_size=k, unique=True)))
    return [i in on for i in range(n)]


def _store(draw, entries):
    how = draw(st.sampled_from(["sorted", "reverse", "random"]))
    if how == "reverse":
        entries = entries[::-1]
    elif how == "random" and len(entries) > 1:
        p = draw(st.permutations(range(len(entries))))
        entries = [entries[i] for i in p]
    return dict(subs=[list(e[0]) for e in entries], vals=[e[1] for e in entries])


@st.composite
def _big_shape(draw, tier):
    """Shapes with more than 8 cells (<=8 is enumerated): order 1..4 (thorough 1..5), mode sizes 1..4 (1..6), one
    mode enlarged where needed to get past 8 cells, at most 64 (400) cells; singleton modes deliberately common."""
    mo, ms, mc = gen.tier_limits(tier)
    n = draw(st.integers(1, mo))
    shape = [draw(st.sampled_from([1, 2, 2, 3, 3, 4] + list(range(5, ms + 1)))) for _ in range(n)]
    k = draw(st.integers(0, n - 1))
    while ref.prod(shape) > mc:
        j = max(range(n), key=lambda i: shape[i])
        shape[j] -= 1
    if ref.prod(shape) < 9:
        rest = ref.prod(shape) // shape[k]
        shape[k] = -(-9 // rest) + draw(st.integers(0, 3))
    return shape


_PATTERNS_A = ["none", "one", "some", "some", "some", "some", "allbut1", "all"]
_PATTERNS_B = ["none", "one", "some", "some", "some", "allbut1", "all", "same-as-a", "perturbed-a"]


@st.composite
def _operand_a(draw, tier, any_shape=False):
    # any_shape: also the small shapes (the enumerated cells cover those for freshly constructed operands only)
    shape = draw(st.one_of(_big_shape(tier), gen.shapes(tier, max_cells=8)) if any_shape else _big_shape(tier))
    n = ref.prod(shape)
    vkind = draw(st.sampled_from(_VKINDS))
    vs = _vstrat(vkind)
    ma = draw(_mask(n, draw(st.sampled_from(_PATTERNS_A))))
    k = sum(ma)  # draw exactly the values that are used (unused draws only produce duplicate cases)
    vals = iter(draw(st.lists(vs, min_size=k, max_size=k)))
    va = [next(vals) if m else 0.0 for m in ma]
    # the other operand / the scalar: the same kind of values half of the time, otherwise any kind (so that
    # integer-valued and fractional operands meet in both positions)
    vs_other = vs if draw(st.booleans()) else _vstrat(draw(st.sampled_from(_VKINDS)))
    return shape, n, vs_other, va


@st.composite
def _pair_sampled(draw, tier, permute_b=True, any_shape=False):
    shape, n, vs, va = draw(_operand_a(tier, any_shape))
    subsF = ref.all_subs_F(shape)
    pb = draw(st.sampled_from(_PATTERNS_B))
    if pb in ("same-as-a", "perturbed-a"):
        mb = [v != 0.0 for v in va]
        if pb == "perturbed-a":
            for k in draw(st.lists(st.integers(0, n - 1), min_size=1, max_size=3)):
                mb[k] = not mb[k]
    else:
        mb = draw(_mask(n, pb))
    ncommon = sum(1 for k in range(n) if mb[k] and va[k] != 0.0)
    # at a common position the second operand repeats the first one's value (a-b cancels exactly), its negation (a+b
    # cancels exactly), a value next to it (one ulp .. relative 1e-6 away: equal under every tolerance, not equal) or
    # holds an unrelated value
    same = iter(draw(st.lists(st.integers(0, 4), min_size=ncommon, max_size=ncommon)))
    near = iter(draw(st.lists(st.sampled_from(_NEAR), min_size=ncommon, max_size=ncommon)))
    vb = [0.0] * n
    for k in range(n):
        if mb[k]:
            rel = next(same) if va[k] != 0.0 else 3
            vb[k] = va[k] if rel == 0 else (-va[k] if rel == 1 else (va[k] * next(near) if rel == 4 else None))
    nfresh = sum(1 for v in vb if v is None)
    fresh = iter(draw(st.lists(vs, min_size=nfresh, max_size=nfresh)))
    vb = [next(fresh) if v is None else v for v in vb]
    ea = [(subsF[k], va[k]) for k in range(n) if va[k] != 0.0]
    eb = [(subsF[k], vb[k]) for k in range(n) if vb[k] != 0.0]
    a = _store(draw, ea)
    b = _store(draw, eb) if permute_b else dict(subs=[list(e[0]) for e in eb], vals=[e[1] for e in eb])
    return dict(shape=list(shape), a=_draw_dtype(draw, a), b=_draw_dtype(draw, b))


@st.composite
def _scalar_sampled(draw, tier, any_shape=False):
    shape, n, vs, va = draw(_operand_a(tier, any_shape))
    subsF = ref.all_subs_F(shape)
    ea = [(subsF[k], va[k]) for k in range(n) if va[k] != 0.0]
    a = _store(draw, ea)
    how = draw(st.sampled_from(["zero", "stored", "neg-stored", "near-stored", "other", "other"]))
    if how == "zero":
        c = 0.0
    elif how in ("stored", "neg-stored", "near-stored") and ea:
        c = draw(st.sampled_from([e[1] for e in ea]))
        c = -c if how == "neg-stored" else (c * draw(st.sampled_from(_NEAR)) if how == "near-stored" else c)
    else:
        c = draw(st.one_of(vs, st.sampled_from([-3.0, -1.0, 1.0, 3.0, 0.5, -0.5])))
    # a Python int scalar keeps the dtype of an integer array (NEP 50): it is only used where scalar and results fit
    # (|c| <= 1000 for int32/int64 operands, |c| <= 10 for int8/uint8 ones); larger scalars are passed as floats
    ckind = draw(st.sampled_from(["float", "npfloat"] + (
        ["int", "int"] if float(c).is_integer() and abs(c) <= 1000 else [])))
    a = _draw_dtype(draw, a)
    if ckind == "int" and abs(c) > 10 and H.part_dtype(a) in ("int8", "uint8"):
        ckind = "float"
    return dict(shape=list(shape), a=a, c=float(c), ckind=ckind)


@cell("C03/sp-sp/sampled", strategy=lambda tier: _pair_sampled(tier, True), quick=500, thorough=12000, shards=(4, 16))
def spsp_sampled(ctx, case):
    _body_spsp(ctx, case)


@cell("C03/sp-tn/sampled", strategy=lambda tier: _pair_sampled(tier, False), quick=400, thorough=8000, shards=(4, 16))
def sptn_sampled(ctx, case):
    _body_sptn(ctx, case)


@cell("C03/tn-sp/sampled", strategy=lambda tier: _pair_sampled(tier, False), quick=300, thorough=6000, shards=(2, 8))
def tnsp_sampled(ctx, case):
    _body_tnsp(ctx, case)


@cell("C03/scalar/sampled", strategy=_scalar_sampled, quick=400, thorough=8000, shards=(2, 8))
def scalar_sampled(ctx, case):
    _body_scalar(ctx, case)


# --------------------------------------------------------------------------
# large operands: a few per run for every operator and operand kind.  Vectorised implementations process rows /
# nonzeros in blocks; a case is large when nnz * cells * ndims (set difference against all subscripts: logical_not,
# comparisons) and nnz(A) * nnz(B) * ndims (matching the entries of two operands) exceed a few million.  The oracle is
# the same NumPy operator on the expanded arrays (at most 27000 cells).
# --------------------------------------------------------------------------


def _run_salt():
    """Hypothesis starts every run of a cell with its simplest example (all draws minimal); with a handful of cases
    per run that would be the same case every time, so the seed of the run is mixed into the drawn seed"""
    import os
    import zlib

    return zlib.crc32(("salt" + os.environ.get("VERIF_SEED", "1")).encode())


def _big_case(tier, pair=True, permute_b=True):
    salt = _run_salt()
    return st.integers(0, 2**32 - 1).map(lambda v: dict(big=dict(seed=(v ^ salt) & 0xFFFFFFFF, pair=pair,
                                                                  permute_b=permute_b, simplest=v == 0)))


def _big_labels(ctx, case):
    if case["big"].get("simplest"):
        ctx.skip("simplest-example-is-the-same-in-every-shard")
    full = H.expand(case)
    n, nd = ref.prod(full["shape"]), len(full["shape"])
    na = len(full["a"]["subs"])
    ctx.label("big-shape-" + "x".join(str(v) for v in full["shape"]),
              "allsubs-comparisons-" + (">2^22" if na * n * nd > 2**22 else "<=2^22"))
    ctx.label(*[f"{k}-subs-" + full[k].get("subsdt", "int64") for k in ("a", "b") if k in full])
    if "b" in full:
        ctx.label("pair-comparisons-" + (">2^22" if na * len(full["b"]["subs"]) * nd > 2**22 else "<=2^22"))


@cell("C03/sp-sp/large", strategy=lambda tier: _big_case(tier, True, True), quick=2, thorough=16, shards=(1, 4))
def spsp_large(ctx, case):
    _big_labels(ctx, case)
    _body_spsp(ctx, case)


@cell("C03/sp-tn/large", strategy=lambda tier: _big_case(tier, True, False), quick=2, thorough=16, shards=(1, 4))
def sptn_large(ctx, case):
    _big_labels(ctx, case)
    _body_sptn(ctx, case)


@cell("C03/tn-sp/large", strategy=lambda tier: _big_case(tier, True, False), quick=2, thorough=16, shards=(1, 4))
def tnsp_large(ctx, case):
    _big_labels(ctx, case)
    _body_tnsp(ctx, case)


@cell("C03/scalar/large", strategy=lambda tier: _big_case(tier, False), quick=2, thorough=16, shards=(1, 4))
def scalar_large(ctx, case):
    _big_labels(ctx, case)
    _body_scalar(ctx, case)


# --------------------------------------------------------------------------
# huge shapes: modes longer than 2**31 / 2**53 / 2**60, more than 2**63 cells; subscripts at the ends of the modes and
# just above 2**53 (an index that passes through float64 loses its last bits; a linear key in int64 overflows)
# --------------------------------------------------------------------------

_HUGE_MODES = [2**40 + 7, 2**53 + 5, 2**53 + 5, 2**60 + 1, 2**62]  # (an accidental dense result fails at once)
HUGE_LOCAL = ("add", "sub", "mul", "ne", "lt", "gt", "and", "or", "xor")


@st.composite
def _huge_sub(draw, shape):
    row = []
    for n in shape:
        how = draw(st.sampled_from(["zero", "last", "last", "near-last", "above-2^53", "above-2^53", "any"]))
        v = {"zero": 0, "last": n - 1, "near-last": max(0, n - 1 - draw(st.integers(1, 3))),
             "above-2^53": 2**53 + draw(st.integers(0, 3))}.get(how)
        if v is None or v >= n:
            v = draw(st.integers(0, n - 1))
        row.append(int(v))
    return tuple(row)


@st.composite
def _huge_pair(draw, tier, scalar=False):
    N = draw(st.integers(1, 3))
    shape = [draw(st.sampled_from(_HUGE_MODES + [1, 2, 3])) for _ in range(N)]
    if max(shape) < 2**40:
        shape[draw(st.integers(0, N - 1))] = draw(st.sampled_from(_HUGE_MODES))
    vs = draw(st.sampled_from([_INT_VALUES, _SET_VALUES, _HALF_VALUES]))
    ka = sorted({draw(_huge_sub(shape)) for _ in range(draw(st.integers(0, 6)))})
    a = {k: draw(vs) for k in ka}
    if scalar:
        c = draw(st.one_of(vs, st.sampled_from([0.0, 0.0, 1.0, -1.0]), st.sampled_from(list(a.values()) or [2.0])))
        ckind = draw(st.sampled_from(["float", "npfloat"] + (["int"] if float(c).is_integer() else [])))
        return dict(shape=shape, a=_store(draw, sorted(a.items())), c=float(c), ckind=ckind)
    b = {}
    for k in ka:
        rel = draw(st.integers(0, 5))
        if rel <= 3:
            b[k] = a[k] if rel == 0 else (-a[k] if rel == 1 else (a[k] * draw(st.sampled_from(_NEAR)) if rel == 2 else draw(vs)))
    for _ in range(draw(st.integers(0, 4))):
        b.setdefault(draw(_huge_sub(shape)), draw(vs))
    return dict(shape=shape, a=_store(draw, sorted(a.items())), b=_store(draw, sorted(b.items())))


def _huge_labels(ctx, case):
    sh = case["shape"]
    ctx.label(f"order{len(sh)}", "cells>2^63" if ref.prod(sh) >= 2**63 else "cells<2^63",
              "mode>2^53" if max(sh) > 2**53 else "mode<=2^53",
              "subscript>2^53" if any(v > 2**53 for k in ("a", "b") if k in case for r in case[k]["subs"] for v in r)
              else "subscripts<=2^53")


@cell("C03/sp-sp/huge", strategy=lambda tier: _huge_pair(tier), quick=60, thorough=2000, shards=(1, 4))
def spsp_huge(ctx, case):
    """the operators with op(0, 0) == 0 on two sparse operands whose shape cannot be expanded"""
    shape = case["shape"]
    _huge_labels(ctx, case)
    tags = H.tags_spsp(case)
    ts = ",".join(tags)
    ctx.label(*tags)
    ea, eb = H.part_entries(case["a"]), H.part_entries(case["b"])
    ctx.nt = len(ea) >= 1 and len(eb) >= 1 and set(ea) != set(eb)
    info = f"shape={shape} a={case['a']} b={case['b']}"
    for name in HUGE_LOCAL:
        with ctx.sut("construct"):
            S, S2 = H.sp_of(shape, case["a"]), H.sp_of(shape, case["b"])
        try:
            with ctx.sut(f"{name}/sp-sp [{ts}]"):
                R = H.SUT[name](S, S2)
        except Abort:
            continue
        H.check_huge_result(ctx, f"{name}/sp-sp", ts, R, shape, H.expected_local(name, ea, eb), info)
        ctx.check(H.entries_of(S) == ea and H.entries_of(S2) == eb, f"{name}/sp-sp:operand-unchanged")


@cell("C03/scalar/huge", strategy=lambda tier: _huge_pair(tier, scalar=True), quick=60, thorough=2000, shards=(1, 4))
def scalar_huge(ctx, case):
    """S op c, c op S and the unary operators where op(0, c) == 0 (the result stays sparse)"""
    shape = case["shape"]
    _huge_labels(ctx, case)
    c = H.scalar_of(case)
    tags = H.tags_scalar(dict(case, shape=[1]))  # (the tag `full` cannot apply)
    ts = ",".join(tags)
    ctx.label(*tags)
    ea = H.part_entries(case["a"])
    ctx.nt = len(ea) >= 1
    info = f"shape={shape} a={case['a']} c={c!r}"
    # (S + c, S - c, S.logical_or(c), S.logical_xor(c) are dense by design whatever c is: never run here)
    plan = [(f"{n}/sp-sc", (lambda n: lambda S: H.SUT[n](S, c))(n), (lambda n: lambda v: H.NP[n](v, float(c)))(n))
            for n in H.BINARY if n not in ("add", "sub", "or", "xor")]
    plan += [(f"{n}/sc-sp", (lambda n: lambda S: H.SUT[n](c, S))(n), (lambda n: lambda v: H.NP[n](float(c), v))(n))
             for n in H.REFLECTED_SCALAR]
    plan += [("neg/sp", lambda S: -S, lambda v: -v), ("pos/sp", lambda S: +S, lambda v: +v)]
    for name, call, npf in plan:
        with np.errstate(all="ignore"):
            at_zero = float(npf(np.float64(0.0)))
            want = {k: float(npf(np.float64(v))) for k, v in ea.items()}
        if at_zero != 0:  # the result is nonzero at every empty position: not representable at this size
            ctx.label("not-run:nonzero-at-empty-positions")
            continue
        want = {k: v for k, v in want.items() if v != 0}
        with ctx.sut("construct"):
            S = H.sp_of(shape, case["a"])
        try:
            with ctx.sut(f"{name} [{ts}]"):
                R = call(S)
        except Abort:
            continue
        H.check_huge_result(ctx, name, ts, R, shape, want, info)
        ctx.check(H.entries_of(S) == ea, f"{name}:operand-unchanged")


# --------------------------------------------------------------------------
# operands in derived states: the same tensors, reached through public paths that leave the object in a state a
# fresh, validated construction does not produce.  Sparse operand: explicitly stored zeros (the documented
# unvalidated constructor; S*0 and scale by 0 leave the same state), numpy integers in `shape`.  Dense operand: grown
# by assignment (C-ordered buffer, numpy integers in `shape`).  Every operator must treat them as the same tensor.
# --------------------------------------------------------------------------


def _derive_sparse(draw, shape, part, force):
    """add explicitly stored zeros at 1..3 of the operand's zero cells and / or a numpy-integer shape"""
    have = {tuple(s) for s in part["subs"]}
    zero_cells = [list(s) for s in ref.all_subs_F(shape) if tuple(s) not in have]
    if zero_cells and (force or draw(st.booleans())):
        k = draw(st.integers(1, min(3, len(zero_cells))))
        idx = draw(st.lists(st.integers(0, len(zero_cells) - 1), min_size=k, max_size=k, unique=True))
        part["zsubs"] = [zero_cells[i] for i in idx]
        part["zpos"] = [draw(st.integers(0, len(part["subs"]) + j)) for j in range(k)]
    if draw(st.booleans()):
        part["shapekind"] = "npint"
    return part


@st.composite
def _pair_state(draw, tier, b_sparse):
    c = draw(_pair_sampled(tier, permute_b=b_sparse, any_shape=True))
    which = draw(st.sampled_from(["a", "b", "both"])) if b_sparse else "a"
    _derive_sparse(draw, c["shape"], c["a"], force=which in ("a", "both"))
    if b_sparse:
        _derive_sparse(draw, c["shape"], c["b"], force=which in ("b", "both"))
    elif H.part_dtype(c["b"]) == "float64" and draw(st.booleans()):
        c["b"]["prov"] = "grown"
    return c


@st.composite
def _scalar_state(draw, tier):
    c = draw(_scalar_sampled(tier, any_shape=True))
    _derive_sparse(draw, c["shape"], c["a"], force=True)
    return c


def _state_labels(ctx, case):
    for k in ("a", "b"):
        p = case.get(k)
        if p is None:
            continue
        ctx.label(f"{k}-explicit-zeros" if p.get("zsubs") else f"{k}-no-explicit-zero")
        if p.get("shapekind") == "npint":
            ctx.label(f"{k}-numpy-int-shape")
        if p.get("prov") == "grown":
            ctx.label(f"{k}-dense-grown")


@cell("C03/sp-sp/state", strategy=lambda tier: _pair_state(tier, True), quick=300, thorough=8000, shards=(2, 8))
def spsp_state(ctx, case):
    _state_labels(ctx, case)
    _body_spsp(ctx, case)


@cell("C03/sp-tn/state", strategy=lambda tier: _pair_state(tier, False), quick=250, thorough=6000, shards=(2, 8))
def sptn_state(ctx, case):
    _state_labels(ctx, case)
    _body_sptn(ctx, case)


@cell("C03/tn-sp/state", strategy=lambda tier: _pair_state(tier, False), quick=200, thorough=4000, shards=(2, 8))
def tnsp_state(ctx, case):
    _state_labels(ctx, case)
    _body_tnsp(ctx, case)


@cell("C03/scalar/state", strategy=_scalar_state, quick=250, thorough=6000, shards=(2, 8))
def scalar_state(ctx, case):
    _state_labels(ctx, case)
    _body_scalar(ctx, case)


# --------------------------------------------------------------------------
# round 4, class 11: how the caller presents valid operands.  The same tensors, handed over the way ordinary callers
# do: subscript arrays in int32 / int16 / int8 / uint8 / uint16 / uint32 / uint64 (independently for the two operands, so
# the dtypes are mixed), through sptensor(subs, vals, shape), from_aggregator, a scipy.sparse.coo_matrix's row / col / data
# arrays, copy=False on Fortran-ordered / read-only / strided views; shapes as numpy integers, lists, integer arrays, a
# bare int; dense operands from C-ordered, strided (reversed axis), read-only arrays and flat vectors; scalars as numpy
# scalars (int64 / int32 / int8 / uint8 / float32 / bool_) and Python bool.  Class 13: one case in four runs with the root
# logger at DEBUG.  Oracle: unchanged (NumPy on the expanded arrays) - every presentation denotes the same array - plus,
# for x / y, agreement with the same request in the default presentation.
# --------------------------------------------------------------------------

_SUBSDT = [None, "int32", "int32", "int32", "int16", "int8", "uint8", "uint16", "uint32", "uint64"]
_SHAPEKINDS = [None, None, None, "npint", "npint32", "npuint8", "list", "array", "array32", "bare-int"]
_ENVS = [None, None, None, "debug-logging"]


def _present_sparse(draw, shape, part):
    sd = draw(st.sampled_from(_SUBSDT))
    if sd is not None and max(shape) - 1 <= np.iinfo(sd).max:
        part["subsdt"] = sd
    ctors = ["plain", "plain", "plain", "agg", "nocopy-F", "nocopy-readonly", "nocopy-strided"]
    if len(shape) == 2:
        ctors += ["coo"] * 5
    ctor = draw(st.sampled_from(ctors))
    if ctor != "plain":
        part["ctor"] = ctor
    if ctor == "coo":
        part.pop("subsdt", None)  # (scipy keeps its own index dtype: int32)
    if ctor == "agg":  # from_aggregator stores the entries in lexicographic order: the case says so
        order = sorted(range(len(part["subs"])), key=lambda i: part["subs"][i])
        part["subs"], part["vals"] = [part["subs"][i] for i in order], [part["vals"][i] for i in order]
    sk = draw(st.sampled_from(_SHAPEKINDS))
    if sk is not None and not (sk == "bare-int" and len(shape) != 1):
        part["shapekind"] = sk
    return part


def _present_dense(draw, shape, part):
    pres = draw(st.sampled_from([None] + list(H.DENSE_PRES) + ["strided", "readonly-nocopy"]))
    if pres is not None:
        part["dpres"] = pres
    sk = draw(st.sampled_from(_SHAPEKINDS))
    if sk is not None and not (sk == "bare-int" and len(shape) != 1):
        part["shapekind"] = sk
    return part


@st.composite
def _pair_present(draw, tier, b_sparse):
    c = draw(_pair_sampled(tier, permute_b=b_sparse, any_shape=True))
    _present_sparse(draw, c["shape"], c["a"])
    (_present_sparse if b_sparse else _present_dense)(draw, c["shape"], c["b"])
    # one case in five: a sparse operand also holds explicitly stored zeros (derived state met in a narrow subscript dtype)
    for k in ("a", "b") if b_sparse else ("a",):
        if c[k].get("ctor") != "agg" and draw(st.integers(0, 4)) == 0:
            _derive_sparse(draw, c["shape"], c[k], force=True)
    c["present"] = True
    env = draw(st.sampled_from(_ENVS))
    if env:
        c["env"] = env
    return c


_CKINDS = ["npfloat32", "npint64", "npint32", "npint8", "npuint8", "npfloat32", "npint64", "npbool", "pybool",
           "int", "float"]


@st.composite
def _scalar_present(draw, tier):
    c = draw(_scalar_sampled(tier, any_shape=True))
    _present_sparse(draw, c["shape"], c["a"])
    small = H.part_dtype(c["a"]) in ("int8", "uint8")
    ck, v = draw(st.sampled_from(_CKINDS)), float(c["c"])
    if ck in ("npbool", "pybool"):
        v = float(draw(st.booleans()))
    elif ck in ("npint64", "npint32", "npint8", "npuint8", "int"):
        # an integer the scalar type and every result hold: |c| <= 1000, <= 10 next to 8-bit values / as an 8-bit scalar
        lim = 10.0 if (small or ck in ("npint8", "npuint8")) else 1000.0
        r = float(round(v)) if abs(v) < 1e6 else lim
        v = max(-lim, min(lim, r if (r != 0 or v == 0) else (1.0 if v > 0 else -1.0)))
        if ck == "npuint8":
            v = abs(v)
    elif ck == "npfloat32":
        # only what stays exact: a scalar float32 holds, next to values whose NumPy promotion with float32 is float64
        with np.errstate(all="ignore"):
            v32 = float(np.float32(v))
        if small or not np.isfinite(v32) or (v32 == 0.0) != (v == 0.0):
            ck = "float"
        else:
            v = v32
    c["c"], c["ckind"], c["present"] = v, ck, True
    env = draw(st.sampled_from(_ENVS))
    if env:
        c["env"] = env
    return c


def _present_labels(ctx, case, b_dense=False):
    def sdt(p):
        return "coo-int32" if p.get("ctor") == "coo" else p.get("subsdt", "int64")

    for k in ("a", "b"):
        p = case.get(k)
        if p is None:
            continue
        if k == "b" and b_dense:
            ctx.label("b-dense-" + p.get("dpres", "F"))
        else:
            ctx.label(f"{k}-subs-" + sdt(p), f"{k}-ctor-" + p.get("ctor", "plain"))
            if p.get("zsubs"):
                ctx.label(f"{k}-explicit-zeros")
        ctx.label(f"{k}-shape-as-" + str(p.get("shapekind", "tuple")))
    if "b" in case and not b_dense:
        ctx.label("subs-dtypes-" + ("mixed" if sdt(case["a"]) != sdt(case["b"]) else "same"))
    ctx.label("env-" + str(case.get("env", "default")))


@cell("C03/sp-sp/present", strategy=lambda tier: _pair_present(tier, True), quick=160, thorough=3000, shards=(2, 8))
def spsp_present(ctx, case):
    _present_labels(ctx, case)
    _body_spsp(ctx, case)


@cell("C03/sp-tn/present", strategy=lambda tier: _pair_present(tier, False), quick=160, thorough=2400, shards=(2, 8))
def sptn_present(ctx, case):
    _present_labels(ctx, case, b_dense=True)
    _body_sptn(ctx, case)


@cell("C03/tn-sp/present", strategy=lambda tier: _pair_present(tier, False), quick=120, thorough=1600, shards=(2, 8))
def tnsp_present(ctx, case):
    _present_labels(ctx, case, b_dense=True)
    _body_tnsp(ctx, case)


@cell("C03/scalar/present", strategy=_scalar_present, quick=150, thorough=3000, shards=(2, 8))
def scalar_present(ctx, case):
    _present_labels(ctx, case)
    _body_scalar(ctx, case)


# --------------------------------------------------------------------------
# round 4, classes 12 / 14: requests with operands of different shapes.  sptensor (op) sptensor and sptensor (op) tensor
# reject them (every operator asserts equal shapes); the mismatch is generated so that NumPy broadcasting would hide it
# (an extent of 1 against n, all other extents equal or 1; one more / one fewer singleton mode; every extent 1), and as
# a permuted / reshaped shape with the same number of cells, or one extent off by one.  After the rejected request both
# operands must be exactly what they were (shape, subscripts, values, dtypes bit for bit), and a further valid request
# on each of them is judged against NumPy as if the rejected one had not happened.  tensor (op) sptensor is handled by
# the dense operators, which leave the decision to NumPy broadcasting: accepted or rejected, the operands must be unchanged.
# --------------------------------------------------------------------------

_MISMATCH = ["extent-1", "extent-1", "extent-1", "all-ones", "more-modes-1", "fewer-modes-1", "permuted", "reshaped",
             "off-by-one"]


def _other_shape(draw, shape, how):
    """a shape that differs from `shape`; None when this kind does not apply"""
    shape = list(shape)
    n = len(shape)
    big = [k for k in range(n) if shape[k] > 1]
    if how == "extent-1" and big:
        out = list(shape)
        for k in draw(st.lists(st.sampled_from(big), min_size=1, max_size=len(big), unique=True)):
            out[k] = 1
        return out
    if how == "all-ones":
        m = draw(st.integers(1, 4))
        return [1] * m if [1] * m != shape else [1] * (m + 1)
    if how == "more-modes-1":
        return shape + [1] if draw(st.booleans()) else [1] + shape
    if how == "fewer-modes-1" and n > 1 and 1 in shape:
        k = shape.index(1)
        return shape[:k] + shape[k + 1:]
    if how == "permuted" and shape[::-1] != shape:
        return shape[::-1]
    if how == "reshaped" and n > 1:
        return [ref.prod(shape)] if draw(st.booleans()) else [shape[0] * shape[1]] + shape[2:]
    if how == "off-by-one":
        k = draw(st.integers(0, n - 1))
        out = list(shape)
        out[k] += 1
        return out
    return None


@st.composite
def _operand_on(draw, shape):
    n = ref.prod(shape)
    subsF = ref.all_subs_F(shape)
    mask = draw(_mask(n, draw(st.sampled_from(["none", "one", "some", "some", "allbut1", "all"]))))
    k = sum(mask)
    vals = iter(draw(st.lists(draw(st.sampled_from([_INT_VALUES, _SET_VALUES, _HALF_VALUES])), min_size=k, max_size=k)))
    part = _store(draw, [(subsF[i], next(vals)) for i in range(n) if mask[i]])
    return _draw_dtype(draw, part)


@st.composite
def _mismatch_case(draw, tier):
    c = draw(_pair_sampled(tier, permute_b=True, any_shape=True))
    shape = c["shape"]
    how = draw(st.sampled_from(_MISMATCH))
    other = _other_shape(draw, shape, how)
    if other is None:
        how = "more-modes-1"
        other = _other_shape(draw, shape, how)
    b = draw(_operand_on(other))
    # which operand carries the altered shape
    if draw(st.booleans()):
        return dict(sa=list(shape), sb=list(other), a=c["a"], b=b, how=how, altered="right")
    return dict(sa=list(other), sb=list(shape), a=b, b=c["a"], how=how, altered="left")


def _follow_up(ctx, kind, name, X, XA, i):
    """a valid request on an operand of the rejected one, judged as if the rejected one had not happened"""
    f = H.BINARY[(i + 1) % len(H.BINARY)]
    if isinstance(X, ttb.sptensor):
        H.run_op(ctx, f"{f}/sp-sc after-rejected-{name}/{kind}", "", lambda: H.SUT[f](X, 2.0),
                 lambda: H.NP[f](XA, 2.0), unsigned=X.vals.dtype.kind == "u")
    else:
        got = np.asarray(X.data, dtype=float)
        ctx.check(got.shape == XA.shape and ref.same_exact(got, XA), f"dense-operand after-rejected-{name}/{kind}:values")


def _body_mismatch(ctx, case, kind):
    sa, sb, how = case["sa"], case["sb"], case["how"]
    A, B = H.dense_of(sa, case["a"]), H.dense_of(sb, case["b"])
    try:
        np.broadcast_shapes(tuple(sa), tuple(sb))
        bc = "broadcastable"
    except ValueError:
        bc = "not-broadcastable"
    ctx.label(how, bc, "altered-" + case["altered"], f"a{H._n(len(case['a']['subs']))}b{H._n(len(case['b']['subs']))}")
    ctx.nt = len(case["a"]["subs"]) > 0 and len(case["b"]["subs"]) > 0
    info = f"shapes {sa} {sb} a={case['a']} b={case['b']}"
    for i, name in enumerate(H.BINARY):
        with ctx.sut("construct"):
            X = H.tn_of(sa, case["a"]) if kind == "tn-sp" else H.sp_of(sa, case["a"])
            Y = H.tn_of(sb, case["b"]) if kind == "sp-tn" else H.sp_of(sb, case["b"])
        before = (H.exact_state(X), H.exact_state(Y))
        outcome = "rejected"
        try:
            with np.errstate(all="ignore"):
                H.SUT[name](X, Y)
            outcome = "accepted"
        except Exception:  # noqa: BLE001
            pass
        if kind != "tn-sp":
            ctx.check(outcome == "rejected", f"{name}/{kind}:shape-mismatch-rejected [{how},{bc}]", info)
        else:
            ctx.label(f"dense-left-{bc}-{outcome}")
        try:
            after = (H.exact_state(X), H.exact_state(Y))
        except Exception:  # noqa: BLE001
            after = None
        ctx.check(after == before, f"{name}/{kind}:operands-unchanged-after-{outcome}-mismatch", info)
        if i % 3 == (len(case["a"]["subs"]) + len(case["b"]["subs"])) % 3:
            _follow_up(ctx, kind, name, X, A, i)
            _follow_up(ctx, kind, name, Y, B, i + 5)


@cell("C03/sp-sp/mismatch", strategy=_mismatch_case, quick=120, thorough=2000, shards=(2, 8))
def spsp_mismatch(ctx, case):
    _body_mismatch(ctx, case, "sp-sp")


@cell("C03/sp-tn/mismatch", strategy=_mismatch_case, quick=100, thorough=1600, shards=(2, 8))
def sptn_mismatch(ctx, case):
    _body_mismatch(ctx, case, "sp-tn")


@cell("C03/tn-sp/mismatch", strategy=_mismatch_case, quick=80, thorough=1200, shards=(2, 8))
def tnsp_mismatch(ctx, case):
    _body_mismatch(ctx, case, "tn-sp")


# --------------------------------------------------------------------------
# predicates for known_findings/C03.json (pure functions of the case)
# --------------------------------------------------------------------------


def _na(case):
    return len(case["a"]["subs"])


def _nb(case):
    return len(case["b"]["subs"])


def _ne_dense_float_subs(case):
    """`S != T` builds exactly one of its two subscript blocks (S == 0 and T != 0; stored entry of S that differs
    from T) as an empty float array while the other block is not empty."""
    shape = case["shape"]
    A, B = H.dense_of(shape, case["a"]), H.dense_of(shape, case["b"])
    return bool(np.any((A == 0) & (B != 0))) != bool(np.any((A != 0) & (A != B)))


_PREDICATES = {
    # sptensor (op) sptensor
    "common_order_differs": H.common_order_differs,
    "common_order_differs_supports_equal": lambda c: H.common_order_differs(c) and not H.supports_differ(c),
    "supports_differ": H.supports_differ,
    # some position is stored by the left operand only: x/0 there (pyttb writes NaN, the property says signed infinity)
    "left_only_position_exists": lambda c: bool(set(H._keys(c["a"])) - set(H._keys(c["b"]))),
    # judged on the arrays the operands denote (explicitly stored zeros included): x/0 somewhere
    "x_over_zero_somewhere": lambda c: bool(((H.dense_of(c["shape"], c["a"]) != 0) & (H.dense_of(c["shape"], c["b"]) == 0)).any()),
    "both_empty": lambda c: _na(c) == 0 and _nb(c) == 0,
    "exactly_one_operand_empty": lambda c: (_na(c) == 0) != (_nb(c) == 0),
    # sptensor (op) tensor
    "sparse_one_stored": lambda c: _na(c) == 1,
    "sparse_empty": lambda c: _na(c) == 0,
    "sparse_many_dense_zero_under_stored": lambda c: _na(c) >= 2 and H.dense_zero_under_stored(c),
    "sparse_many_both_zero_somewhere": lambda c: _na(c) >= 2 and H.both_zero_somewhere(c),
    "both_zero_somewhere": H.both_zero_somewhere,
    "dense_exactly_one_zero": lambda c: H.dense_zero_count(c) == 1,
    "ne_dense_float_subs": _ne_dense_float_subs,
    # sptensor (op) scalar
    "eq_scalar_count_mismatch": lambda c: float(c["c"]) != 0 and H.scalar_matches(c) != "all",
    "ne_scalar_count_mismatch": lambda c: float(c["c"]) != 0 and _na(c) > 0 and H.scalar_matches(c) != "all",
    "sparse_empty_scalar_zero": lambda c: _na(c) == 0 and float(c["c"]) == 0,
    # value dtypes
    "right_unsigned": lambda c: "b" in c and H.dtype_kind(c["b"]) == "u",
    # presentation (round 4)
    "numpy_scalar_right": lambda c: c.get("ckind") in ("npint64", "npint32", "npint8", "npuint8", "npfloat32", "npbool"),
    "numpy_bool_scalar_right": lambda c: c.get("ckind") == "npbool",
    "uint64_subs_operand": lambda c: any(c[k].get("subsdt") == "uint64" and c[k].get("ctor") != "coo"
                                         for k in ("a", "b") if k in c),
    # derived states
    "explicit_zero_operand": lambda c: H.explicit_zero_mask(c) is not None,
}

# a compact large case is expanded before a predicate looks at it
PREDICATES = {k: (lambda f: lambda c: f(H.expand(c)))(f) for k, f in _PREDICATES.items()}
