"""C17 — index arithmetic, mode-selection preprocessing, row-set helpers, argument parsers and the Khatri-Rao
product obey their laws.

Semantics asserted for the row helpers (and why)
------------------------------------------------
The docstrings say "Reproduce functionality of MATLABS intersect / setdiff (a,b,'rows')" and return *indices into the
first argument*.  How ``sptensor.py`` uses them decides what is asserted here:

* ``tt_intersect_rows(A, B)`` — callers index the **first argument** with the result (``self.subs[idx]``,
  ``self.vals[idx]``) and, wherever values of two operands are combined (``__mul__``, ``__eq__``, ``__truediv__``:
  ``self.vals[tt_intersect_rows(self.subs, other.subs)] * other.vals[tt_intersect_rows(other.subs, self.subs)]``),
  they emulate MATLAB's ``[~, ia, ib] = intersect(A, B, 'rows')`` by *two* calls with swapped arguments and pair the
  two index lists position by position.  Hence the laws asserted are
  (i)  every returned index is a valid row position of A,
  (ii) the selected rows ``A[idx]`` are pairwise distinct and, as a set, equal rows(A) ∩ rows(B)
       (MATLAB: one index per distinct common row),
  (iii) *pairing*: ``A[tt_intersect_rows(A, B)][k] == B[tt_intersect_rows(B, A)][k]`` for every k (MATLAB guarantees it
       because both lists follow the sorted order of the common rows; every value-combining caller depends on it).
  MATLAB's particular canonical order (sorted rows, first occurrence) is what makes (iii) true there; it is *not*
  asserted by itself (no caller and not the property statement needs more than (i)-(iii)), it is only labelled.
* ``tt_setdiff_rows(A, B)`` — every caller only selects rows of the first argument with it
  (``allsubs[tt_setdiff_rows(allsubs, self.subs)]``), so: valid positions of A, selected rows pairwise distinct, and as
  a set equal to rows(A) \\ rows(B).  Order is not asserted.
* ``tt_union_rows(A, B)`` — returns rows; the one caller (``sptensor.__ne__`` with a dense tensor) uses the row count
  and passes the rows on to ``tt_setdiff_rows``: the result must consist of pairwise distinct rows that are, as a set,
  rows(A) ∪ rows(B) (MATLAB ``union(...,'rows')``).  Order is not asserted.
* ``tt_ismember_rows(search, source)`` — docstring: ``matched[i]`` iff ``search[i]`` occurs in ``source``;
  ``results[i]`` is an index j with ``source[j] == search[i]``, or -1.  Callers use ``loc[valid]`` to read values.

Empty operands are presented the way callers present them: the ``(1, 0)`` array an empty sptensor stores as ``subs``
and the ``(0, width)`` array.
"""

from __future__ import annotations

import itertools

import numpy as np
from hypothesis import strategies as st

import pyttb as ttb
from pyttb import pyttb_utils as ttu

from .. import gen, ref
from ..core import cell

PROPERTY = "C17"
RULE = (
    "index maps: every shape with N<=4 (thorough N<=5) and sizes 1..4 is enumerated, all size linear indices at once, "
    "against my own first-index-fastest enumeration, plus sampled index subsets (repeats, unsorted, negative) on larger "
    "shapes; tt_dimscheck: every ordered subset of range(N) for N<=5 as dims / exclude_dims in 6 argument forms and "
    "every M in 0..N+1 (law where the docstring/assertions accept, rejection where they state an error); row helpers: "
    "all pairs of row lists of length <=3 over small alphabets plus sampled pairs over a 3-letter alphabet (width 1..3, "
    "<=7 rows, repeats and empty operands), oracle = Python set algebra on tuples; parsers: enumerated argument forms; "
    "khatrirao: 1..4 matrices with a common column count vs column-wise np.kron.  Non-trivial: >=2 distinct mode sizes "
    "(index maps), dims not ascending (dimscheck), operands sharing some but not all rows with different relative order "
    "or repeats (row helpers), >=2 matrices with different row counts (khatrirao).  Round 2: index arrays / shape entries / "
    "mode designations / row matrices / Khatri-Rao factors in other dtypes (int32, intp, small signed and unsigned integers, "
    "numpy scalars; bool, float32, complex128 for khatrirao) and mixed between operands, rows that coincide modulo 256, "
    "F-ordered and strided argument arrays, mode sizes up to 300 (sizes beyond 2**31), order='C', factors scaled by 1e-6 / "
    "1e+6, and every helper asked twice with the first answer overwritten in between.  Round 3: tensor sizes between 2**53 and "
    "2**63 and 1e4 .. 7e4 indices at once (C17/index/large), 12 .. 257 modes (C17/dimscheck/large-N), row matrices of 2100 .. "
    "3600 rows with boxes shifted against each other (C17/rows/large, n_search*n_source > 2**22), rows with entries beyond "
    "2**31 / 2**53 / 2**62 and float rows that differ by one ulp / 1e-9 / 1e-12, Khatri-Rao factors with 2e4 .. 1.5e5 result "
    "rows or 33 .. 257 columns, one or two factors spanning 1e-300 .. 1e+300 (exact: one multiplication per entry), whole "
    "factors scaled by 1e-9 / 1e-12, factors without rows or without columns.  Round 4 (how the caller presents valid arguments): "
    "C17/rows/presented - rows of 1 and of 6..8 columns, each operand in its own dtype (int8 .. uint64, intp, float32, float64; "
    "entries at the ends of the range both dtypes hold) and memory layout (C, F, row-strided in C and F order, column slice, "
    "backwards view, transpose, read-only) handed over as it is (no copy), operands compared afterwards; C17/index/presented - "
    "order 6..8, the shape as a tuple of numpy integers of every width / an ndarray / the shape of a sparse tensor, index and "
    "subscript arrays in int8 .. uint64 in those layouts, order= positionally or by keyword; C17/khatrirao/presented - 1..6 "
    "matrices (half of them one-column) as separate arguments / *list / *tuple, reverse omitted / False / True, float32 and "
    "int8 .. int64 / uint8 / uint16 per matrix, those layouts, exact products, compared with the float64 C-contiguous "
    "presentation of the same request; C17/dimscheck/presented - N and M as numpy integers, designations as lists of numpy "
    "integers / arrays in int8 .. uint64 / views / numpy scalars, positional and keyword calls; each of them also with the root "
    "logger at DEBUG.  Stated rejections whose ill-formed part NumPy broadcasting would hide (column counts 1 vs n, a vector for a "
    "matrix), repeated dims, dims next to an empty exclude_dims (C17/khatrirao/rejected, C17/dimscheck/rejected-r4), and after "
    "every rejected request the arguments bit for bit as before and a following valid request answered correctly."
)
ASSUMPTIONS = [
    "row helpers: MATLAB 'rows' set semantics as far as callers in sptensor.py depend on them (validity, distinctness, "
    "set equality, positional pairing of intersect(A,B) with intersect(B,A)); canonical order not asserted",
    "khatrirao with integer-valued entries compared exactly; general floats within 64*k*eps*|product| (k factors, the "
    "association order of the products may differ from np.kron's)",
    "tt_ind2sub is given a private copy of the index array (it rewrites negative indices in place; operand mutation is "
    "C05's subject)",
    "an argument is generated in a dtype that can hold its own values (an index array in uint8 only holds indices <= 255); "
    "whether the dtype can also hold derived quantities (the tensor size, index + size, mode - 1) is the helper's business",
    "khatrirao with a float32 argument: products may be rounded to float32 whichever way the factors are associated "
    "(NumPy result types), bound 64*k*eps_float32*|product|; integer / boolean / complex data with integer parts compared "
    "exactly; uint8 / bool entries are kept so small that a product of four cannot wrap",
    "C17/rows/large, C17/index/large (many), C17/khatrirao/large-extreme-empty: operands are expanded from the case's integer "
    "seed with numpy's default_rng inside the body; extreme-range Khatri-Rao products are judged exactly only for one or two "
    "factors (with three the association order decides what underflows)",
    "khatrirao of a single matrix returns a reshaped view of its argument (NumPy convention); writing into it is not judged",
    "round 4: a row operand in uint64 next to a signed operand is kept to entries <= 2**53 (NumPy's common type of uint64 and a "
    "signed integer is float64; tt_union_rows returns the stacked rows in that type); float32 rows hold only values float32 "
    "represents exactly; khatrirao entries in C17/khatrirao/presented are multiples of 1/2 in [-2, 2] so that every product of "
    "up to six is exact in every dtype involved (no rounding bound needed); `reverse` is keyword-only, so it is never given "
    "positionally; a bare tuple of matrices or row matrices of different widths are not stated to be rejected and not judged",
]


def _rows(M):
    return [tuple(int(v) if float(v) == int(v) else float(v) for v in r) for r in np.asarray(M).reshape(len(M), -1)] \
        if np.asarray(M).size else []


# ==========================================================================
# tt_sub2ind / tt_ind2sub
# ==========================================================================


def _all_subs_C(shape):
    return list(itertools.product(*[range(n) for n in shape]))


def _enum_shapes(tier):
    maxn = 4 if tier == "quick" else 5
    for n in range(1, maxn + 1):
        for sh in itertools.product(range(1, 5), repeat=n):
            yield dict(shape=list(sh))
    # a few larger / lopsided ones
    for sh in [(7,), (1, 9), (9, 1), (5, 1, 6), (6, 5, 1, 2), (2, 1, 1, 1, 7), (1, 1, 1), (10, 11), (3, 7, 5)]:
        yield dict(shape=list(sh))


@cell("C17/index/enumerated", enum=_enum_shapes, shards=(4, 16))
def index_enumerated(ctx, case):
    """whole index space of one shape: sub2ind o all-subscripts = 0..size-1, ind2sub = first-index-fastest list"""
    shape = tuple(case["shape"])
    size = ref.prod(shape)
    ctx.nt = len(set(shape)) >= 2
    ctx.label(*gen.shape_classes(shape))
    subsF = np.array(ref.all_subs_F(shape), dtype=int).reshape(size, len(shape))
    lin = np.arange(size)
    with ctx.sut("tt_sub2ind"):
        got = ttu.tt_sub2ind(shape, subsF.copy())
    got = np.asarray(got)
    ctx.require(got.shape == (size,), "sub2ind-result-shape", got.shape)
    ctx.check(np.array_equal(got, lin), "sub2ind-first-index-fastest", f"{got[:8]}")
    with ctx.sut("tt_ind2sub"):
        s = ttu.tt_ind2sub(shape, lin.copy())
    s = np.asarray(s)
    ctx.require(s.shape == subsF.shape, "ind2sub-result-shape", s.shape)
    ctx.check(np.array_equal(s, subsF), "ind2sub-first-index-fastest", f"{s[:4].tolist()}")
    ctx.check(np.issubdtype(s.dtype, np.integer), "ind2sub-integer-subscripts", s.dtype)
    # mutual inverses on the whole space, presented in reverse order
    with ctx.sut("tt_sub2ind(tt_ind2sub)"):
        back = ttu.tt_sub2ind(shape, ttu.tt_ind2sub(shape, lin[::-1].copy()))
    ctx.check(np.array_equal(np.asarray(back), lin[::-1]), "sub2ind-inverts-ind2sub")
    with ctx.sut("tt_ind2sub(tt_sub2ind)"):
        back2 = ttu.tt_ind2sub(shape, np.asarray(ttu.tt_sub2ind(shape, subsF[::-1].copy())))
    ctx.check(np.array_equal(np.asarray(back2), subsF[::-1]), "ind2sub-inverts-sub2ind")
    # bijection: distinct subscripts <-> distinct indices in range
    ctx.check(len(set(got.tolist())) == size and (size == 0 or (got.min() == 0 and got.max() == size - 1)),
              "sub2ind-bijection")
    # negative linear indices count from the end
    with ctx.sut("tt_ind2sub-negative"):
        sneg = ttu.tt_ind2sub(shape, (lin - size).copy())
    ctx.check(np.array_equal(np.asarray(sneg), subsF), "ind2sub-negative-counts-from-end")
    # explicit order argument: "F" is the default; "C" = last index fastest
    subsC = np.array(_all_subs_C(shape), dtype=int).reshape(size, len(shape))
    with ctx.sut("tt_sub2ind-order"):
        gF = ttu.tt_sub2ind(shape, subsF.copy(), order="F")
        gC = ttu.tt_sub2ind(shape, subsC.copy(), order="C")
    ctx.check(np.array_equal(np.asarray(gF), lin), "sub2ind-order-F-is-default")
    ctx.check(np.array_equal(np.asarray(gC), lin), "sub2ind-order-C-last-index-fastest")
    with ctx.sut("tt_ind2sub-order"):
        sC = ttu.tt_ind2sub(shape, lin.copy(), order="C")
    ctx.check(np.array_equal(np.asarray(sC), subsC), "ind2sub-order-C-last-index-fastest")
    # the dense tensor agrees with the index map (data in F order): T[lin] reads data.ravel('F')[lin]
    # (kept to the helper level here; element access is C04's subject)


_IDX_DTYPES = dict(int64=np.int64, int32=np.int32, intp=np.intp, uint8=np.uint8, int16=np.int16, uint16=np.uint16,
                   uint32=np.uint32, int8=np.int8)
_SHAPE_ENTRY = {"int": int, "np.int64": np.int64, "np.int32": np.int32, "np.uint8": np.uint8, "np.int16": np.int16}


def _fits(dt, lo, hi):
    ii = np.iinfo(dt)
    return ii.min <= lo and hi <= ii.max


@st.composite
def _index_subset(draw, tier):
    n = draw(st.integers(1, 5 if tier == "quick" else 6))
    big = draw(st.sampled_from(["small", "small", "medium", "large"]))
    cap = dict(small=6, medium=60, large=300)[big]
    shape = [draw(st.integers(1, cap)) for _ in range(n)]
    size = ref.prod(shape)
    k = draw(st.integers(0, 12))
    region = draw(st.sampled_from(["any", "any", "low", "high"]))  # low: indices that fit the narrow dtypes
    top = size - 1 if region != "low" else min(size - 1, 100)
    bot = 0 if region != "high" else max(0, size - 1 - 100)
    idx = draw(st.lists(st.integers(bot, top), min_size=k, max_size=k))
    neg = draw(st.lists(st.booleans(), min_size=k, max_size=k)) if draw(st.booleans()) else [False] * k
    form = draw(st.sampled_from(["int64", "int64", "int32", "intp", "uint8", "int16", "uint16", "uint32", "int8"]))
    return dict(shape=shape, idx=idx, neg=neg, dtype=form, order=draw(st.sampled_from(["F", "F", None, "C"])),
                shape_entry=draw(st.sampled_from(["int", "int", "np.int64", "np.int32", "np.uint8", "np.int16"])),
                layout=draw(st.sampled_from(["fresh", "strided", "F-ordered"])))


def subset_classes(case):
    """pure function of the case: the dtype actually used for the index array / the shape entries, and whether
    arithmetic carried out in those dtypes would overflow (labels, clause tags and predicates)"""
    shape = [int(x) for x in case["shape"]]
    size = ref.prod(shape)
    idx = list(case["idx"])
    dt = _IDX_DTYPES[case.get("dtype", "int64")]
    neg = list(case["neg"])
    if np.issubdtype(dt, np.unsignedinteger):
        neg = [False] * len(idx)
    given = [i - size if ng else i for i, ng in zip(idx, neg)]
    if given and not _fits(dt, min(given), max(given)):
        dt = np.int64
    se = case.get("shape_entry", "int")
    if se != "int" and not _fits(_SHAPE_ENTRY[se], 0, max(shape)):
        se = "int"
    idx_holds_size = _fits(dt, 0, size)
    shape_prod_fits = se == "int" or _fits(_SHAPE_ENTRY[se], 0, size)
    return dict(dt=dt, given=given, shape_entry=se, idx_dtype_holds_size=idx_holds_size, shape_prod_fits=shape_prod_fits,
                has_negative=any(neg))


@cell("C17/index/subsets", strategy=_index_subset, quick=1500, thorough=16000, shards=(2, 8))
def index_subsets(ctx, case):
    shape = tuple(case["shape"])
    size = ref.prod(shape)
    idx = list(case["idx"])
    sc = subset_classes(case)
    dt, given_idx = sc["dt"], sc["given"]
    order = case.get("order", None)
    okw = {} if order is None else dict(order=order)
    ctx.nt = len(set(shape)) >= 2 and len(idx) >= 1
    ctx.label("empty" if not idx else "nonempty", "has-negative" if sc["has_negative"] else "no-negative",
              "repeats" if len(set(idx)) < len(idx) else "distinct", f"order{len(shape)}", "idx-" + np.dtype(dt).name,
              "shape-entries-" + sc["shape_entry"], f"order-arg-{order}",
              "idx-dtype-holds-size" if sc["idx_dtype_holds_size"] else "idx-dtype-narrower-than-size",
              "shape-product-fits-entry-dtype" if sc["shape_prod_fits"] else "shape-product-overflows-entry-dtype",
              "layout-" + case.get("layout", "fresh"))
    expect_subs = []
    for i in idx:
        s, r = [], i
        for nmode in (shape if order != "C" else shape[::-1]):
            s.append(r % nmode)
            r //= nmode
        expect_subs.append(s if order != "C" else s[::-1])
    expect = np.array(expect_subs, dtype=int).reshape(len(idx), len(shape))
    shape_arg = tuple(_SHAPE_ENTRY[sc["shape_entry"]](x) for x in shape)

    def present(a):
        lay = case.get("layout", "fresh")
        if lay == "strided" and a.ndim >= 1:
            big = np.zeros((2 * a.shape[0],) + a.shape[1:], dtype=a.dtype)
            big[::2] = a
            return big[::2]
        if lay == "F-ordered":
            return np.asfortranarray(a)
        return a

    tag = ("" if sc["idx_dtype_holds_size"] else "/idx-dtype-narrower-than-size") + \
          ("" if sc["shape_prod_fits"] else "/shape-product-overflows-entry-dtype")
    lin_arg = present(np.array(given_idx, dtype=dt))
    keep = lin_arg.copy()
    with ctx.sut("tt_ind2sub" + tag):
        s = ttu.tt_ind2sub(shape_arg, lin_arg, **okw)
    s = np.asarray(s)
    ctx.require(s.shape == expect.shape, "ind2sub-result-shape", s.shape)
    ctx.check(np.array_equal(s, expect), "ind2sub-subset" + tag, f"{s.tolist()} vs {expect.tolist()}")
    ctx.check(np.array_equal(lin_arg, keep), "ind2sub-leaves-argument")
    sub_arg = present(expect.astype(dt if _fits(dt, 0, max(shape)) else np.int64))
    with ctx.sut("tt_sub2ind" + tag):
        l = ttu.tt_sub2ind(shape_arg, sub_arg, **okw)
    l = np.asarray(l)
    ctx.require(l.size == len(idx), "sub2ind-result-size", l.shape)
    ctx.check(l.reshape(-1).tolist() == idx and
              (order == "C" or l.reshape(-1).tolist() == [ref.lin_index(s_, shape) for s_ in expect_subs]),
              "sub2ind-subset" + tag, f"{l.tolist()} vs {idx}")
    # the k-th call depends only on its own arguments: overwrite the first answers, ask again
    if s.size and s.flags.writeable:
        s[...] = -7
    with ctx.sut("tt_ind2sub-again" + tag):
        s2 = np.asarray(ttu.tt_ind2sub(shape_arg, present(np.array(given_idx, dtype=dt)), **okw))
    ctx.check(s2.shape == expect.shape and np.array_equal(s2, expect), "ind2sub-second-call-same-answer" + tag)


# ==========================================================================
# tt_dimscheck
# ==========================================================================

_DIM_FORMS = ["list", "tuple", "ndarray", "row2d", "col2d", "scalar"]


def _present(vals, form):
    if form == "list":
        return list(vals)
    if form == "tuple":
        return tuple(vals)
    if form == "ndarray":
        return np.array(vals, dtype=int)
    if form == "row2d":
        return np.array(vals, dtype=int).reshape(1, -1)
    if form == "col2d":
        return np.array(vals, dtype=int).reshape(-1, 1)
    if form == "scalar":
        return int(vals[0])
    if form == "npscalar":
        return np.int64(vals[0])
    if form.startswith("ndarray-"):  # other integer dtypes of the mode designation
        return np.array(vals, dtype=np.dtype(form[len("ndarray-"):]))
    raise ValueError(form)


def _snap_args(kw):
    """round 4 (class 12): the arguments of a request that is going to be rejected, to be compared afterwards"""
    return {a: (np.array(v, copy=True), type(v)) for a, v in kw.items()}


def _args_left_alone(kw, keep):
    return all(type(kw[a]) is t and np.asarray(kw[a]).shape == v.shape and np.array_equal(np.asarray(kw[a]), v)
               for a, (v, t) in keep.items())


def _enum_dimscheck(tier):
    for N in range(1, 6):
        modes = list(range(N))
        for k in range(0, N + 1):
            for sub in itertools.permutations(modes, k):
                forms = ["list", "ndarray"]
                if k >= 1:
                    forms += ["tuple", "row2d", "col2d"]
                if k == 1:
                    forms += ["scalar", "npscalar"]
                for which in ("dims", "exclude"):
                    for fi, form in enumerate(forms):
                        # all forms with M=None; the M sweep on the first two forms only (M does not interact with form)
                        Ms = [None] + (list(range(0, N + 2)) if fi < 2 else [])
                        for M in Ms:
                            yield dict(N=N, which=which, sel=list(sub), form=form, M=M)
                    if k >= 1:
                        # other integer dtypes (arithmetic on the designation must not be carried out in a narrow or
                        # unsigned dtype), with N / M as numpy integers; the valid multiplicand counts only
                        P = k if which == "dims" else N - k
                        for form in ("ndarray-int32", "ndarray-uint8", "ndarray-uint64", "ndarray-int8"):
                            for M in [None] + sorted({P, N}):
                                yield dict(N=N, which=which, sel=list(sub), form=form, M=M, npN=True)
        for M in [None] + list(range(0, N + 2)):
            yield dict(N=N, which="default", sel=[], form="none", M=M)


@cell("C17/dimscheck/enumerated", enum=_enum_dimscheck, shards=(4, 16))
def dimscheck_enumerated(ctx, case):
    """sdims = sorted selection (or complement); vidx[k] = position of the multiplicand that belongs to sdims[k]"""
    N, which, sel, form, M = case["N"], case["which"], case["sel"], case["form"], case["M"]
    if which == "dims":
        chosen = list(sel)
        kw = dict(dims=_present(sel, form))
    elif which == "exclude":
        chosen = [m for m in range(N) if m not in sel]  # complement, already ascending
        kw = dict(exclude_dims=_present(sel, form))
    else:
        chosen = list(range(N))
        kw = {}
    P = len(chosen)
    sdims_exp = sorted(chosen)
    ctx.nt = chosen != sdims_exp or (which == "exclude" and sel != sorted(sel))
    ctx.label(which, form, "M-none" if M is None else ("M=P" if M == P else ("M=N" if M == N else "M-bad")),
              "ascending" if chosen == sdims_exp else "not-ascending")
    if M is not None and (M > N or M not in (N, P)):
        # stated: "Cannot have more multiplicands than dimensions" / "Invalid number of multiplicands"
        keep = _snap_args(kw)
        ctx.raises("dimscheck-bad-multiplicand-count-accepted", ttu.tt_dimscheck, N, M, **kw)
        ctx.check(_args_left_alone(kw, keep), "dimscheck-rejected-request-leaves-arguments")  # round 4 (class 12)
        return
    Narg, Marg = (np.int64(N), None if M is None else np.int32(M)) if case.get("npN") else (N, M)
    with ctx.sut("tt_dimscheck"):
        out = ttu.tt_dimscheck(Narg, Marg, **kw)
    ctx.require(isinstance(out, tuple) and len(out) == 2, "dimscheck-returns-pair", type(out).__name__)
    sdims, vidx = out
    ctx.require(isinstance(sdims, np.ndarray) and sdims.ndim == 1, "dimscheck-sdims-1d-array", repr(sdims))
    ctx.check(sdims.tolist() == sdims_exp, "dimscheck-sorted-selected-modes", f"{sdims.tolist()} vs {sdims_exp}")
    if P:
        ctx.check(np.issubdtype(sdims.dtype, np.integer), "dimscheck-sdims-integer", sdims.dtype)
    if M is None:
        ctx.check(vidx is None, "dimscheck-no-multiplicands-no-index", repr(vidx))
        return
    ctx.require(isinstance(vidx, np.ndarray) and vidx.shape == (P,), "dimscheck-vidx-one-per-mode", repr(vidx))
    v = [int(x) for x in vidx.tolist()]
    if M == P:
        # multiplicand j was given for chosen[j]
        ok = all(0 <= v[k] < P and chosen[v[k]] == sdims_exp[k] for k in range(P))
        ctx.check(ok, "dimscheck-vidx-position-in-given-order", f"dims={chosen} vidx={v}")
    else:  # M == N: one multiplicand per tensor mode
        ctx.check(v == sdims_exp, "dimscheck-vidx-is-mode-when-full", f"dims={chosen} vidx={v}")


def _enum_dimscheck_errors(tier):
    for N in range(1, 6):
        for form in ("list", "ndarray"):
            # both dims and exclude_dims
            for d in range(N):
                for e in range(N):
                    yield dict(N=N, kind="both", dims=[d], exclude=[e], form=form)
            # exclude_dims out of range: N (== bound), N+1, -1, alone or next to valid ones
            for bad in (N, N + 1, -1):
                for prefix in ([], [0], list(range(N))):
                    for pos in (0, len(prefix)):
                        ex = list(prefix)
                        ex.insert(pos, bad)
                        yield dict(N=N, kind="exclude-out-of-range", exclude=ex, form=form, dims=None)
            # negative dims
            for bad in (-1, -N):
                for prefix in ([], [0], list(range(N))):
                    for pos in (0, len(prefix)):
                        d = list(prefix)
                        d.insert(pos, bad)
                        yield dict(N=N, kind="negative-dims", dims=d, form=form, exclude=None)


@cell("C17/dimscheck/stated-errors", enum=_enum_dimscheck_errors)
def dimscheck_errors(ctx, case):
    """the error cases the function states (ValueError texts at pyttb_utils.py:150-183) raise"""
    N = case["N"]
    ctx.nt = True
    ctx.label(case["kind"])
    kw = {}
    if case["dims"] is not None:
        kw["dims"] = _present(case["dims"], case["form"])
    if case["exclude"] is not None:
        kw["exclude_dims"] = _present(case["exclude"], case["form"])
    keep = _snap_args(kw)
    ctx.raises(f"dimscheck-{case['kind']}-accepted", ttu.tt_dimscheck, N, None, **kw)
    ctx.raises(f"dimscheck-{case['kind']}-accepted-with-M", ttu.tt_dimscheck, N, N, **kw)
    ctx.check(_args_left_alone(kw, keep), "dimscheck-rejected-request-leaves-arguments")  # round 4 (class 12)


# ==========================================================================
# row helpers
# ==========================================================================


_ROW_DTYPES = {"int": np.int64, "float": np.float64, "int32": np.int32, "uint8": np.uint8, "uint16": np.uint16,
               "int8": np.int8,
               # round 4
               "int16": np.int16, "uint32": np.uint32, "uint64": np.uint64, "intp": np.intp, "float32": np.float32}


def _mat(rows, width, empty_form, dtype="int", layout="C"):
    dt = _ROW_DTYPES[dtype]
    if len(rows) == 0:
        if empty_form == "1x0":
            return np.array([], ndmin=2, dtype=dt)  # what an empty sptensor stores
        return np.empty((0, width), dtype=dt)
    M = np.array(rows, dtype=dt).reshape(len(rows), width)
    if layout == "F":  # e.g. the transposed array tt_ind2sub hands back
        return np.asfortranarray(M)
    if layout == "strided":  # every other row of a larger array
        big = np.zeros((2 * len(rows), width), dtype=dt)
        big[::2] = M
        return big[::2]
    return _view_as(M, layout)


def _view_as(M, layout):
    """round 4: further presentations of one 2-D array (same values, same dtype): views with other strides, read-only"""
    r, c = M.shape
    if layout == "F-strided":  # every other row of an F-ordered array (neither C- nor F-contiguous, F-like strides)
        big = np.zeros((2 * r, c), dtype=M.dtype, order="F")
        big[::2] = M
        return big[::2]
    if layout == "colslice":  # every other column of a wider array, e.g. ``subs[:, dims]`` taken as a slice
        big = np.full((r, 2 * c + 1), 1, dtype=M.dtype)
        big[:, 1::2] = M
        return big[:, 1::2]
    if layout == "reversed":  # a view that walks the buffer backwards (``x[::-1]``)
        return np.ascontiguousarray(M[::-1])[::-1]
    if layout == "transposed":  # ``X.T`` of a C-ordered array (what ``np.array(columns).T`` gives)
        return np.ascontiguousarray(M.T).T
    if layout in ("readonly", "F-readonly"):  # e.g. an array that came out of np.broadcast_to / a memory map / a frozen attribute
        out = np.asfortranarray(M.copy()) if layout == "F-readonly" else M.copy()
        out.setflags(write=False)
        return out
    return M


def _mats(case, A, B, w):
    """the two operands as arrays: dtype / memory layout per operand (``dtypeB`` / ``layoutB`` default to A's)"""
    ef = case.get("empty_form", "0xw")
    dA, lA = case.get("dtype", "int"), case.get("layout", "C")
    return _mat(A, w, ef, _holding(dA, A), lA), _mat(B, w, ef, _holding(case.get("dtypeB", dA), B), case.get("layoutB", lA))


def _holding(dtype, rows):
    """``dtype`` if it can hold every entry of ``rows``, else int64 (an array is generated in a dtype that holds it)"""
    dt = np.dtype(_ROW_DTYPES[dtype])
    flat = [v for r in rows for v in r]
    if dt.kind in "iu" and flat:
        ii = np.iinfo(dt)
        if min(flat) < ii.min or max(flat) > ii.max:
            return "uint64" if max(flat) > np.iinfo(np.int64).max else "int"
    if dt.kind == "f" and flat and dtype != "float":  # (round 4: float32 holds only what it represents exactly)
        if any(float(dt.type(v)) != v for v in flat):
            return "float"
    return dtype


def _norm(v):
    """an entry as a Python number: exact int when integral (big ints stay exact), else the float itself"""
    if isinstance(v, (int, np.integer)):
        return int(v)
    v = float(v)
    return int(v) if v.is_integer() else v


def _tuples(rows):
    return [tuple(_norm(v) for v in r) for r in rows]


def _first_occ_order(rows):
    seen, out = set(), []
    for r in rows:
        if r not in seen:
            seen.add(r)
            out.append(r)
    return out


def pair_class(case):
    """Input class of a pair of row lists (pure function of the case; used for labels, clause tags, predicates)."""
    A, B = _tuples(case["A"]), _tuples(case["B"])
    sa, sb = set(A), set(B)
    out = dict(
        a_empty=not A,
        b_empty=not B,
        a_repeats=len(sa) < len(A),
        b_repeats=len(sb) < len(B),
        common=len(sa & sb),
        a_only=len(sa - sb),
        b_only=len(sb - sa),
    )
    ca = [r for r in _first_occ_order(A) if r in sb]
    cb = [r for r in _first_occ_order(B) if r in sa]
    out["common_order_differs"] = ca != cb
    out["a_sorted"] = _first_occ_order(A) == sorted(sa)
    out["b_sorted"] = _first_occ_order(B) == sorted(sb)
    return out


def _rep_tag(pc, which):
    return f"{which}-repeats" if pc[f"{which.lower()}_repeats"] else f"{which}-distinct"


def _label_pair(ctx, pc, case=None):
    if case is not None and "dtypeB" in case:
        ctx.label("dtypes-same" if case["dtype"] == case["dtypeB"] else "dtypes-mixed", "A-" + case["dtype"], "B-" + case["dtypeB"],
                  "rows-alias-modulo-256" if case.get("alias") else "no-alias", "entries-" + case.get("entries", "small"),
                  "layout-" + case.get("layout", "C") + "/" + case.get("layoutB", "C"))
    ctx.label(
        "A-empty" if pc["a_empty"] else ("A-repeats" if pc["a_repeats"] else "A-distinct"),
        "B-empty" if pc["b_empty"] else ("B-repeats" if pc["b_repeats"] else "B-distinct"),
        "common-none" if pc["common"] == 0 else "common-some",
        "order-differs" if pc["common_order_differs"] else "order-same",
        "partial-overlap" if pc["common"] and (pc["a_only"] or pc["b_only"]) else "nested-or-disjoint",
    )


def _nt_pair(pc):
    return bool(pc["common"] and (pc["a_only"] or pc["b_only"]) and
                (pc["common_order_differs"] or pc["a_repeats"] or pc["b_repeats"]))


def _index_list(ctx, got, n, name):
    """Validate an index list returned by a helper; returns python ints."""
    ctx.require(isinstance(got, np.ndarray), f"{name}-returns-array", type(got).__name__)
    flat = got.reshape(-1)
    if flat.size:
        ctx.require(np.issubdtype(flat.dtype, np.integer) or np.all(flat == np.round(flat)),
                    f"{name}-integer-indices", flat.dtype)
    out = [int(v) for v in flat.tolist()]
    return out


def _arg(M, case):
    """the operand as handed to the helper: a private copy (rounds 1-3; NB a copy is contiguous again), or - round 4,
    ``as_is`` - the presented array itself, strides and write flag included"""
    return M if case.get("as_is") else M.copy()


def _left_alone(ctx, case, name, *pairs):
    """round 4 (``as_is`` cases): the helper only reads its operands"""
    if case.get("as_is"):
        ctx.check(all(np.array_equal(M, keep) and M.dtype == keep.dtype and M.strides == st_ and M.flags.writeable == wr
                      for M, (keep, st_, wr) in pairs), f"{name}-leaves-arguments")


def _snap(M):
    return (M.copy(), M.strides, M.flags.writeable)


def check_intersect(ctx, case, tagged=True):
    A, B = _tuples(case["A"]), _tuples(case["B"])
    w = case["width"]
    pc = pair_class(case)
    MA, MB = _mats(case, A, B, w)
    sA, sB = _snap(MA), _snap(MB)
    with ctx.sut("tt_intersect_rows(A,B)"):
        ia = ttu.tt_intersect_rows(_arg(MA, case), _arg(MB, case))
    with ctx.sut("tt_intersect_rows(B,A)"):
        ib = ttu.tt_intersect_rows(_arg(MB, case), _arg(MA, case))
    _left_alone(ctx, case, "intersect", (MA, sA), (MB, sB))
    ia = _index_list(ctx, ia, len(A), "intersect")
    ib = _index_list(ctx, ib, len(B), "intersect")
    ta, tb = _rep_tag(pc, "A"), _rep_tag(pc, "B")
    okA = all(0 <= i < len(A) for i in ia)
    okB = all(0 <= i < len(B) for i in ib)
    ctx.check(okA, f"intersect-index-in-range/first-{ta}", f"ia={ia} len(A)={len(A)}")
    ctx.check(okB, f"intersect-index-in-range/first-{tb}", f"ib={ib} len(B)={len(B)}")
    common = set(A) & set(B)
    if okA:
        ra = [A[i] for i in ia]
        ctx.check(len(set(ra)) == len(ra) and set(ra) == common, f"intersect-selects-common-rows/first-{ta}",
                  f"A={A} B={B} ia={ia}")
    if okB:
        rb = [B[i] for i in ib]
        ctx.check(len(set(rb)) == len(rb) and set(rb) == common, f"intersect-selects-common-rows/first-{tb}",
                  f"A={A} B={B} ib={ib}")
    if okA and okB and set(A[i] for i in ia) == common and set(B[i] for i in ib) == common and \
            len(ia) == len(common) == len(ib):
        order = "order-differs" if pc["common_order_differs"] else "order-same"
        ctx.check([A[i] for i in ia] == [B[i] for i in ib], f"intersect-pairing/{order}",
                  f"A={A} B={B} ia={ia} ib={ib}")
        ctx.label("matlab-order" if [A[i] for i in ia] == sorted(common) else "other-order")


def check_setdiff(ctx, case):
    A, B = _tuples(case["A"]), _tuples(case["B"])
    w = case["width"]
    pc = pair_class(case)
    MA, MB = _mats(case, A, B, w)
    sA, sB = _snap(MA), _snap(MB)
    with ctx.sut("tt_setdiff_rows"):
        got = ttu.tt_setdiff_rows(_arg(MA, case), _arg(MB, case))
    _left_alone(ctx, case, "setdiff", (MA, sA), (MB, sB))
    idx = _index_list(ctx, got, len(A), "setdiff")
    ta = _rep_tag(pc, "A")
    ok = all(0 <= i < len(A) for i in idx)
    ctx.check(ok, f"setdiff-index-in-range/first-{ta}", f"idx={idx} len(A)={len(A)}")
    if ok:
        r = [A[i] for i in idx]
        ctx.check(len(set(r)) == len(r) and set(r) == set(A) - set(B), f"setdiff-selects-difference/first-{ta}",
                  f"A={A} B={B} idx={idx}")


def check_union(ctx, case):
    A, B = _tuples(case["A"]), _tuples(case["B"])
    w = case["width"]
    pc = pair_class(case)
    MA, MB = _mats(case, A, B, w)
    sA, sB = _snap(MA), _snap(MB)
    with ctx.sut("tt_union_rows"):
        got = ttu.tt_union_rows(_arg(MA, case), _arg(MB, case))
    _left_alone(ctx, case, "union", (MA, sA), (MB, sB))
    ctx.require(isinstance(got, np.ndarray), "union-returns-array", type(got).__name__)
    want = set(A) | set(B)
    if not want:
        ctx.check(got.size == 0, "union-of-empties-empty", got.shape)
        return
    ctx.require(got.ndim == 2 and got.shape[1] == w, "union-row-matrix", got.shape)
    rows = [tuple(_norm(v) for v in r) for r in got.tolist()]
    tb = "second-sorted" if pc["b_sorted"] else "second-unsorted"
    ctx.check(len(set(rows)) == len(rows), f"union-rows-distinct/{tb}", f"A={A} B={B} got={rows}")
    ctx.check(set(rows) == want, f"union-is-set-union/{tb}", f"A={A} B={B} got={rows}")


def check_ismember(ctx, case):
    S, T = _tuples(case["A"]), _tuples(case["B"])  # search, source
    w = case["width"]
    MS = _mat(S, w, "0xw", _holding(case.get("dtype", "int"), S), case.get("layout", "C"))  # (1,0) as *search* would be one row of width 0
    MT = _mat(T, w, case.get("empty_form", "0xw"), _holding(case.get("dtypeB", case.get("dtype", "int")), T),
              case.get("layoutB", case.get("layout", "C")))
    sS, sT = _snap(MS), _snap(MT)
    with ctx.sut("tt_ismember_rows"):
        out = ttu.tt_ismember_rows(_arg(MS, case), _arg(MT, case))
    _left_alone(ctx, case, "ismember", (MS, sS), (MT, sT))
    ctx.require(isinstance(out, tuple) and len(out) == 2, "ismember-returns-pair")
    matched, results = out
    ctx.require(isinstance(matched, np.ndarray) and isinstance(results, np.ndarray), "ismember-arrays")
    ctx.require(matched.shape == (len(S),) and results.shape == (len(S),), "ismember-one-answer-per-search-row",
                f"{matched.shape} {results.shape}")
    ctx.check(matched.dtype == bool, "ismember-matched-boolean", matched.dtype)
    ctx.check(np.issubdtype(results.dtype, np.integer), "ismember-results-integer", results.dtype)
    src = set(T)
    okm = all(bool(matched[i]) == (S[i] in src) for i in range(len(S)))
    ctx.check(okm, "ismember-flag-iff-row-present", f"search={S} source={T} matched={matched.tolist()}")
    okr = True
    for i in range(len(S)):
        r = int(results[i])
        if S[i] in src:
            okr &= 0 <= r < len(T) and T[r] == S[i]
        else:
            okr &= r == -1
    ctx.check(okr, "ismember-location-points-to-equal-row", f"search={S} source={T} results={results.tolist()}")


def _enum_row_pairs(tier):
    """all pairs of row lists (length <= 3) over {0,1,2} (width 1) and over {0,1}^2 (width 2); thorough adds
    length 4 for width 1 and the {0,2}x{0,1,2} alphabet"""
    spaces = [(1, [(0,), (1,), (2,)], 3), (2, [(0, 0), (0, 1), (1, 0), (1, 1)], 3 if tier == "thorough" else 2)]
    if tier == "thorough":
        spaces.append((1, [(0,), (1,), (2,)], 4))
    for w, alpha, maxlen in spaces:
        lists = []
        for k in range(0, maxlen + 1):
            lists += [list(map(list, p)) for p in itertools.product(alpha, repeat=k)]
        for A in lists:
            for B in lists:
                yield dict(A=A, B=B, width=w, empty_form="1x0" if (len(A) + len(B)) % 2 else "0xw", dtype="int")


@st.composite
def _row_pair(draw, tier):
    """Constructed, not filtered: a pool of distinct rows, each assigned to both / A only / B only; every operand is a
    generated permutation of its rows with generated extra copies; empty operands in both storage forms."""
    w = draw(st.integers(1, 3))
    # alias mode: one operand is held in uint8, the other (int64) gets rows that differ from rows of the first by a
    # multiple of 256 in one entry - distinct rows that coincide if either operand is cast to the other's dtype
    alias = draw(st.sampled_from([None] * 6 + ["A-narrow", "B-narrow"]))
    # round 3: 'wide' entries (beyond 2**31 / 2**53, extents whose product overflows int64: rows must not be compared
    # through float64 or through scalar keys that wrap) and 'near' rows (floats that differ by one ulp / 1e-9 / 1e-12,
    # or whose entries are below every absolute tolerance: distinct rows all the same)
    _WIDE = [0, 1, 2 ** 31, 2 ** 53, 2 ** 53 + 1, 2 ** 62, -(2 ** 62)]
    _NEAR = [0.0, 1e-9, 1e-12, 2e-12, 1.0, 1.0000000000000002, 1.000000001, 0.9999999999999999]
    letters = [0, 1, 255] if alias else draw(st.sampled_from([[0, 1, 2], [0, 1, 2], [3, 0, 7], [1, 2, 5], [0, 255, 256, -1],
                                                              _WIDE, _NEAR]))
    pool = draw(st.lists(st.tuples(*[st.sampled_from(letters)] * w), min_size=1, max_size=6, unique=True))
    where = [draw(st.sampled_from(["both", "both", "both", "A", "B"])) for _ in pool]
    A = [list(r) for r, t in zip(pool, where) if t in ("both", "A")]
    B = [list(r) for r, t in zip(pool, where) if t in ("both", "B")]

    def present(rows):
        if not rows:
            return rows
        rows = list(draw(st.permutations(rows)))
        if draw(st.booleans()):
            for _ in range(draw(st.integers(1, 3))):
                r = rows[draw(st.integers(0, len(rows) - 1))]
                rows.insert(draw(st.integers(0, len(rows))), list(r))
        return rows

    A, B = present(A), present(B)
    if alias and A and B:
        narrow, wide = (A, B) if alias == "A-narrow" else (B, A)
        for _ in range(draw(st.integers(1, 2))):
            r = list(narrow[draw(st.integers(0, len(narrow) - 1))])
            r[draw(st.integers(0, w - 1))] += 256 * draw(st.sampled_from([1, -1, 2]))
            wide.insert(draw(st.integers(0, len(wide))), r)
    mode = draw(st.sampled_from(["pair"] * 8 + ["empty-A", "empty-B"])) if not alias else "pair"
    if mode == "empty-A":
        A = []
    elif mode == "empty-B":
        B = []
    dts = ["int", "int", "int", "float", "int32", "uint8", "uint16", "int8"]
    dA = draw(st.sampled_from(dts))
    dB = dA if draw(st.booleans()) else draw(st.sampled_from(dts))  # same dtype or a generated mix
    if alias:
        dA, dB = ("uint8", "int") if alias == "A-narrow" else ("int", "uint8")
    entries = "small"
    if letters is _WIDE:
        dA = dB = "int"  # (a float64 array cannot hold 2**53 + 1)
        entries = "wide"
    elif letters is _NEAR:
        dA = dB = "float"
        entries = "near"
    lays = ["C", "C", "F", "strided"]
    return dict(A=A, B=B, width=w, empty_form=draw(st.sampled_from(["1x0", "0xw"])), dtype=dA, dtypeB=dB,
                layout=draw(st.sampled_from(lays)), layoutB=draw(st.sampled_from(lays)), mode=mode, alias=alias,
                entries=entries)


@cell("C17/rows/intersect/enumerated", enum=_enum_row_pairs, shards=(4, 16))
def rows_intersect_enum(ctx, case):
    pc = pair_class(case)
    ctx.nt = _nt_pair(pc)
    _label_pair(ctx, pc, case)
    check_intersect(ctx, case)


@cell("C17/rows/intersect/sampled", strategy=_row_pair, quick=1500, thorough=16000, shards=(2, 8))
def rows_intersect(ctx, case):
    pc = pair_class(case)
    ctx.nt = _nt_pair(pc)
    _label_pair(ctx, pc, case)
    ctx.label("mode-" + case["mode"])
    check_intersect(ctx, case)


@cell("C17/rows/setdiff/enumerated", enum=_enum_row_pairs, shards=(4, 16))
def rows_setdiff_enum(ctx, case):
    pc = pair_class(case)
    ctx.nt = _nt_pair(pc)
    _label_pair(ctx, pc, case)
    check_setdiff(ctx, case)


@cell("C17/rows/setdiff/sampled", strategy=_row_pair, quick=1500, thorough=16000, shards=(2, 8))
def rows_setdiff(ctx, case):
    pc = pair_class(case)
    ctx.nt = _nt_pair(pc)
    _label_pair(ctx, pc, case)
    check_setdiff(ctx, case)


@cell("C17/rows/union/enumerated", enum=_enum_row_pairs, shards=(4, 16))
def rows_union_enum(ctx, case):
    pc = pair_class(case)
    ctx.nt = _nt_pair(pc)
    _label_pair(ctx, pc, case)
    check_union(ctx, case)


@cell("C17/rows/union/sampled", strategy=_row_pair, quick=1500, thorough=16000, shards=(2, 8))
def rows_union(ctx, case):
    pc = pair_class(case)
    ctx.nt = _nt_pair(pc)
    _label_pair(ctx, pc, case)
    check_union(ctx, case)


@cell("C17/rows/ismember/enumerated", enum=_enum_row_pairs, shards=(4, 16))
def rows_ismember_enum(ctx, case):
    pc = pair_class(case)
    ctx.nt = bool(pc["common"] and pc["a_only"])
    _label_pair(ctx, pc, case)
    check_ismember(ctx, case)


@cell("C17/rows/ismember/sampled", strategy=_row_pair, quick=1500, thorough=16000, shards=(2, 8))
def rows_ismember(ctx, case):
    pc = pair_class(case)
    ctx.nt = bool(pc["common"] and pc["a_only"])
    _label_pair(ctx, pc, case)
    check_ismember(ctx, case)


# -- the same laws at the place callers rely on them: sptensor subscripts (distinct rows, any stored order) -----------


@st.composite
def _sp_pair(draw, tier):
    shape = draw(gen.shapes(tier, min_order=1, max_order=3, max_cells=24))
    if ref.prod(shape) < 4:  # too few cells for two differently ordered lists: widen one mode
        k = draw(st.integers(0, len(shape) - 1))
        shape[k] = draw(st.integers(4, 6))
    subs = [list(s) for s in ref.all_subs_F(shape)]
    n = len(subs)

    def pick():
        dens = draw(st.sampled_from(["one", "some", "most", "most", "all"]))
        if dens == "one":
            keep = [draw(st.integers(0, n - 1))]
        elif dens == "all":
            keep = list(range(n))
        else:
            m = draw(st.lists(st.booleans(), min_size=n, max_size=n))
            keep = [i for i in range(n) if (m[i] if dens == "some" else not (m[i] and i % 3 == 0))]
        order = draw(st.sampled_from(["sorted", "reverse", "random", "random"]))
        rows = [subs[i] for i in keep]
        if order == "reverse":
            rows = rows[::-1]
        elif order == "random" and len(rows) > 1:
            rows = list(draw(st.permutations(rows)))
        return rows

    return dict(A=pick(), B=pick(), width=len(shape), shape=shape, empty_form="1x0", dtype="int")


@cell("C17/rows/sptensor-subs", strategy=_sp_pair, quick=800, thorough=16000, shards=(1, 8))
def rows_sptensor_subs(ctx, case):
    """distinct subscript lists of two sparse tensors of one shape in independent stored orders (what __mul__,
    __eq__, __truediv__ pass): all four helpers"""
    pc = pair_class(case)
    ctx.nt = bool(pc["common_order_differs"])
    _label_pair(ctx, pc, case)
    check_intersect(ctx, case)
    check_setdiff(ctx, case)
    check_union(ctx, case)
    check_ismember(ctx, case)


# -- round 3: operands above internal block sizes ----------------------------------------------------------------


@st.composite
def _rows_large(draw, tier):
    """two row matrices with 2100..3600 rows each (n_search * n_source well above 2**22 comparisons, more rows than any
    1e3 / 1e4-row block of a vectorised matcher), expanded from a seed in the body.  The rows of B come from a box that
    is shifted against A's box in a generated column, so part of each operand lies outside the other's range."""
    w = draw(st.integers(1, 3))
    nA, nB = draw(st.integers(2100, 3600)), draw(st.integers(2100, 3600))
    if draw(st.integers(0, 5)) == 0:
        nA = draw(st.sampled_from([1, 7, 1023, 1025]))  # one operand short, the other long
    elif draw(st.integers(0, 5)) == 0:
        nB = draw(st.sampled_from([1, 7, 1023, 1025]))
    return dict(seed=draw(st.integers(0, 2 ** 31 - 1)), nA=nA, nB=nB, width=w, shift_col=draw(st.integers(0, w - 1)),
                shift=draw(st.sampled_from([0, 0.25, 0.5])), repeats=draw(st.booleans()),
                sortB=draw(st.booleans()), helper=draw(st.sampled_from(["intersect", "setdiff", "union", "ismember"])),
                offset=draw(st.sampled_from([0, 0, 2 ** 31, 2 ** 53])))


def _expand_rows_large(case):
    rng = np.random.default_rng(case["seed"])
    w, nA, nB = case["width"], case["nA"], case["nB"]
    span = max(2, int(round((3.0 * (nA + nB)) ** (1.0 / w))))  # about a third of the box is occupied
    A = rng.integers(0, span, size=(nA, w))
    B = rng.integers(0, span, size=(nB, w))
    B[:, case["shift_col"]] += int(span * case["shift"])
    if case["repeats"]:
        A[rng.integers(0, nA, size=nA // 5)] = A[rng.integers(0, nA, size=nA // 5)]
        B[rng.integers(0, nB, size=nB // 5)] = B[rng.integers(0, nB, size=nB // 5)]
    if case["sortB"]:
        B = B[np.lexsort(B.T[::-1])]
    A, B = A + case["offset"], B + case["offset"]
    return dict(A=A.tolist(), B=B.tolist(), width=w, empty_form="0xw", dtype="int")


@cell("C17/rows/large", strategy=_rows_large, quick=6, thorough=80, shards=(2, 8))
def rows_large(ctx, case):
    """the set-algebra laws on operands of thousands of rows (oracle: Python sets of tuples, cheap at this size)"""
    big = _expand_rows_large(case)
    pc = pair_class(big)
    ctx.nt = _nt_pair(pc)
    _label_pair(ctx, pc)
    ctx.label("helper-" + case["helper"], "offset-%d" % case["offset"], "shifted" if case["shift"] else "same-box",
              "comparisons>2^22" if case["nA"] * case["nB"] > 2 ** 22 else "comparisons<=2^22")
    {"intersect": check_intersect, "setdiff": check_setdiff, "union": check_union, "ismember": check_ismember}[case["helper"]](ctx, big)


@st.composite
def _index_large(draw, tier):
    """(a) tensor sizes between 2**53 and 2**63 (only a sparse tensor has them): linear indices that no float64 holds,
    products that need all 64 bits; (b) tens of thousands of indices at once in an ordinary shape"""
    if draw(st.integers(0, 3)) == 0:
        n = draw(st.integers(1, 4))
        shape = [draw(st.integers(1, 40)) for _ in range(n - 1)]
        count = draw(st.one_of(st.sampled_from([10000, 10001, 16384, 16385, 65536, 65537]), st.integers(17000, 70000)))
        shape.append(max(1, -(-count // ref.prod(shape))) * draw(st.integers(1, 3)))
        shape = [shape[i] for i in draw(st.permutations(range(n)))]
        return dict(kind="many", shape=shape, count=count, seed=draw(st.integers(0, 2 ** 31 - 1)),
                    order=draw(st.sampled_from(["F", None, "C"])), neg=draw(st.booleans()))
    n = draw(st.integers(1, 5))
    total = draw(st.integers(54, 62))  # bits of the size
    cuts = sorted(draw(st.lists(st.integers(0, total), min_size=n - 1, max_size=n - 1)))
    bits = [b - a for a, b in zip([0] + cuts, cuts + [total])]
    shape = []
    for b in bits:
        lo, hi = (1 << b), (1 << (b + 1)) - 1
        shape.append(draw(st.one_of(st.just(lo), st.integers(lo, hi), st.just(lo + 1))))
    while ref.prod(shape) >= 2 ** 63:
        k = shape.index(max(shape))
        shape[k] = max(1, shape[k] // 2)
    size = ref.prod(shape)
    pos = [st.integers(0, size - 1), st.integers(max(0, size - 65), size - 1), st.just(size - 1)]
    if size > 2 ** 53 + 64:
        pos += [st.integers(2 ** 53, 2 ** 53 + 64), st.integers(2 ** 53, size - 1)]
    idx = draw(st.lists(st.one_of(*pos), min_size=1, max_size=8))
    neg = draw(st.lists(st.booleans(), min_size=len(idx), max_size=len(idx))) if draw(st.booleans()) else [False] * len(idx)
    return dict(kind="huge", shape=shape, idx=idx, neg=neg, order=draw(st.sampled_from(["F", None, "C"])),
                shape_entry=draw(st.sampled_from(["int", "int", "np.int64"])))


def _py_ind2sub(i, shape, order):
    s, r = [], i
    for nmode in (shape if order != "C" else shape[::-1]):
        s.append(r % nmode)
        r //= nmode
    return s if order != "C" else s[::-1]


@cell("C17/index/large", strategy=_index_large, quick=150, thorough=2500, shards=(2, 8))
def index_large(ctx, case):
    shape = tuple(case["shape"])
    size = ref.prod(shape)
    order = case["order"]
    okw = {} if order is None else dict(order=order)
    ctx.nt = len(set(shape)) >= 2
    if case["kind"] == "many":
        rng = np.random.default_rng(case["seed"])
        idx = rng.integers(0, size, size=case["count"])
        idx[: min(4, idx.size)] = [0, size - 1, size // 2, max(0, size - 2)][: min(4, idx.size)]
        ctx.label("many-indices", f"order{len(shape)}", f"order-arg-{order}", "negative" if case["neg"] else "non-negative",
                  "count>16384" if case["count"] > 16384 else "count<=16384", "count>65536" if case["count"] > 65536 else "count<=65536")
        # my own vectorised first-index-fastest (or last-index-fastest) digits
        digits, r = [], idx.copy()
        for nmode in (shape if order != "C" else shape[::-1]):
            digits.append(r % nmode)
            r = r // nmode
        expect = np.stack(digits if order != "C" else digits[::-1], axis=1)
        given = idx - size if case["neg"] else idx
        with ctx.sut("tt_ind2sub/many"):
            s = np.asarray(ttu.tt_ind2sub(shape, given.copy(), **okw))
        ctx.require(s.shape == expect.shape, "ind2sub-result-shape/many", s.shape)
        ctx.check(np.array_equal(s, expect), "ind2sub-subset/many", ref.diff_info(s, expect))
        with ctx.sut("tt_sub2ind/many"):
            l = np.asarray(ttu.tt_sub2ind(shape, expect.copy(), **okw))
        ctx.require(l.shape == idx.shape, "sub2ind-result-size/many", l.shape)
        ctx.check(np.array_equal(l, idx), "sub2ind-subset/many", ref.diff_info(l, idx))
        return
    idx = [int(i) for i in case["idx"]]
    given = [i - size if ng else i for i, ng in zip(idx, case["neg"])]
    ctx.label("huge-size", f"order{len(shape)}", f"order-arg-{order}", "has-negative" if any(case["neg"]) else "no-negative",
              "shape-entries-" + case["shape_entry"], "index-not-a-float64" if any(int(float(i)) != i for i in idx) else
              "indices-are-float64", "mode>2^31" if max(shape) > 2 ** 31 else "modes<=2^31",
              "mode>2^53" if max(shape) > 2 ** 53 else "modes<=2^53")
    expect = np.array([_py_ind2sub(i, shape, order) for i in idx], dtype=np.int64).reshape(len(idx), len(shape))
    shape_arg = tuple(np.int64(x) for x in shape) if case["shape_entry"] == "np.int64" else shape
    with ctx.sut("tt_ind2sub/huge"):
        s = np.asarray(ttu.tt_ind2sub(shape_arg, np.array(given, dtype=np.int64), **okw))
    ctx.require(s.shape == expect.shape, "ind2sub-result-shape/huge", s.shape)
    ctx.check(np.issubdtype(s.dtype, np.integer), "ind2sub-integer-subscripts/huge", s.dtype)
    ctx.check(np.issubdtype(s.dtype, np.integer) and s.tolist() == expect.tolist(), "ind2sub-subset/huge",
              f"{s.tolist()} vs {expect.tolist()}")
    with ctx.sut("tt_sub2ind/huge"):
        l = np.asarray(ttu.tt_sub2ind(shape_arg, expect.copy(), **okw))
    ctx.require(l.size == len(idx), "sub2ind-result-size/huge", l.shape)
    ctx.check(np.issubdtype(l.dtype, np.integer) and [int(v) for v in l.reshape(-1).tolist()] == idx, "sub2ind-subset/huge",
              f"{l.tolist()} vs {idx}")


@st.composite
def _dimscheck_large(draw, tier):
    N = draw(st.sampled_from([12, 21, 33, 64, 100, 257]))
    k = draw(st.sampled_from([1, 2, 3, N // 2, N - 1, N]))
    sel = list(draw(st.permutations(range(N))))[:k]
    which = draw(st.sampled_from(["dims", "exclude"]))
    P = k if which == "dims" else N - k
    return dict(N=N, which=which, sel=sel, form=draw(st.sampled_from(["list", "ndarray", "tuple", "ndarray-int32"])),
                M=draw(st.sampled_from([None, P, N, N + 1, max(0, P - 1)])))


@cell("C17/dimscheck/large-N", strategy=_dimscheck_large, quick=100, thorough=1500, shards=(1, 4))
def dimscheck_large(ctx, case):
    """the laws of C17/dimscheck/enumerated for tensors with 12..257 modes (above every small-N table)"""
    ctx.label(f"N{case['N']}")
    dimscheck_enumerated(ctx, case)


# ==========================================================================
# parse_shape / parse_one_d / gather_wrap_dims
# ==========================================================================


def _enum_parse_shape(tier):
    shapes = [(), (1,), (4,), (2, 3), (3, 1), (1, 1), (1, 5), (2, 3, 4), (1, 1, 1), (4, 1, 2), (2, 3, 4, 5), (5, 1, 1, 2)]
    forms = ["list", "tuple", "np1d-int64", "np1d-int32", "np1d-uint8", "np-col", "np-row", "np-k11", "iter", "range-like",
             "list-of-npint"]
    for sh in shapes:
        for f in forms:
            yield dict(shape=list(sh), form=f, expect="value")
    for n in (1, 3, 7):
        for f in ("int", "npint", "np0d", "np(1,)", "np(1,1)"):
            yield dict(shape=[n], form=f, expect="value")
    for sh in [(2, 3), (4,), (2, 2, 2)]:
        yield dict(shape=list(sh), form="np1d-float", expect="error")
        yield dict(shape=list(sh), form="list-float-entry", expect="error")
    for sh in [(2, 3), (2, 2)]:
        yield dict(shape=list(sh), form="np-2d-nontrivial", expect="error")


def _shape_arg(sh, form):
    a = np.array(sh, dtype=np.int64)
    return {
        "list": lambda: list(sh),
        "tuple": lambda: tuple(sh),
        "np1d-int64": lambda: a,
        "np1d-int32": lambda: a.astype(np.int32),
        "np1d-uint8": lambda: a.astype(np.uint8),
        "np-col": lambda: a.reshape(-1, 1),
        "np-row": lambda: a.reshape(1, -1),
        "np-k11": lambda: a.reshape(-1, 1, 1),
        "iter": lambda: iter(list(sh)),
        "range-like": lambda: (x for x in sh),
        "list-of-npint": lambda: [np.int64(x) for x in sh],
        "int": lambda: int(sh[0]),
        "npint": lambda: np.int32(sh[0]),
        "np0d": lambda: np.array(sh[0]),
        "np(1,)": lambda: np.array([sh[0]]),
        "np(1,1)": lambda: np.array([[sh[0]]]),
        "np1d-float": lambda: a.astype(float),
        "list-float-entry": lambda: [float(sh[0])] + list(sh[1:]),
        "np-2d-nontrivial": lambda: np.array([list(sh), list(sh)]),
    }[form]()


@cell("C17/parse/shape", enum=_enum_parse_shape)
def parse_shape_cell(ctx, case):
    sh = tuple(case["shape"])
    ctx.nt = len(sh) >= 2 or case["expect"] == "error"
    ctx.label(case["form"], case["expect"])
    if case["expect"] == "error":
        # stated: "Numpy arrays used as shapes must be integer valued" / "...only have one non-trivial dimension" /
        # "Shapes entries must be integers"
        bad = _shape_arg(sh, case["form"])
        keep = _snap_args(dict(shape=bad))
        ctx.raises("parse_shape-accepts-non-shape", ttu.parse_shape, bad)
        ctx.check(_args_left_alone(dict(shape=bad), keep), "parse_shape-rejected-request-leaves-argument")  # round 4 (class 12)
        return
    if case["form"] in ("np-col", "np-row", "np-k11", "np1d-int64", "np1d-int32", "np1d-uint8") and len(sh) == 0:
        arg = np.array([], dtype=int)
    else:
        arg = _shape_arg(sh, case["form"])
    with ctx.sut("parse_shape"):
        out = ttu.parse_shape(arg)
    ctx.require(isinstance(out, tuple), "parse_shape-returns-tuple", type(out).__name__)
    ctx.check(all(isinstance(e, (int, np.integer)) for e in out), "parse_shape-integer-entries", repr(out))
    ctx.check(tuple(int(e) for e in out) == sh, "parse_shape-value", f"{out} vs {sh}")
    with ctx.sut("parse_shape-idempotent"):
        again = ttu.parse_shape(out)
    ctx.check(again == out, "parse_shape-idempotent")


def _enum_parse_one_d(tier):
    vecs = [[3], [1, 2], [2.5, -1.0, 0.0], [0, 0, 0, 4], [7, 5, 3, 1, -1]]
    for v in vecs:
        for f in ("list", "tuple", "np1d", "np-row", "np-col", "np-1k1", "np-k11"):
            yield dict(v=v, form=f, expect="value")
        if len(v) == 1:
            for f in ("scalar", "npscalar", "np0d", "np(1,1)"):
                yield dict(v=v, form=f, expect="value")
    yield dict(v=[1, 2, 3, 4], form="np-2x2", expect="error")
    yield dict(v=[1, 2, 3, 4, 5, 6], form="np-2x3", expect="error")
    yield dict(v=[1, 2, 3, 4], form="np-2x1x2", expect="error")


@cell("C17/parse/one_d", enum=_enum_parse_one_d)
def parse_one_d_cell(ctx, case):
    v = case["v"]
    a = np.array(v)
    ctx.nt = len(v) >= 2
    ctx.label(case["form"], case["expect"])
    arg = {
        "list": lambda: list(v), "tuple": lambda: tuple(v), "np1d": lambda: a, "np-row": lambda: a.reshape(1, -1),
        "np-col": lambda: a.reshape(-1, 1), "np-1k1": lambda: a.reshape(1, -1, 1), "np-k11": lambda: a.reshape(-1, 1, 1),
        "scalar": lambda: v[0], "npscalar": lambda: a[0], "np0d": lambda: np.array(v[0]),
        "np(1,1)": lambda: a.reshape(1, 1),
        "np-2x2": lambda: a.reshape(2, 2), "np-2x3": lambda: a.reshape(2, 3), "np-2x1x2": lambda: a.reshape(2, 1, 2),
    }[case["form"]]()
    if case["expect"] == "error":
        # stated: "Vector can have at most one non-trivial dimension"
        keep = _snap_args(dict(v=arg))
        ctx.raises("parse_one_d-accepts-matrix", ttu.parse_one_d, arg)
        ctx.check(_args_left_alone(dict(v=arg), keep), "parse_one_d-rejected-request-leaves-argument")  # round 4 (class 12)
        return
    with ctx.sut("parse_one_d"):
        out = ttu.parse_one_d(arg)
    ctx.require(isinstance(out, np.ndarray) and out.ndim == 1, "parse_one_d-returns-1d-array", repr(out))
    ctx.check(out.tolist() == list(v), "parse_one_d-same-elements-in-order", f"{out.tolist()} vs {v}")
    ctx.check(np.issubdtype(out.dtype, np.integer) == all(isinstance(x, int) for x in v), "parse_one_d-keeps-kind",
              out.dtype)


def _enum_gather(tier):
    for c in _enum_gather_int(tier):
        yield c
        if c["N"] <= 4:  # the same designations held in other integer dtypes
            for dt in ("int32", "uint8"):
                yield dict(c, dtype=dt)


def _enum_gather_int(tier):
    for N in range(1, 6):
        modes = list(range(N))
        for k in range(0, N + 1):
            for sub in itertools.permutations(modes, k):
                if N == 5 and tier == "quick" and k > 3:
                    continue
                yield dict(N=N, given="rdims", sel=list(sub))
                yield dict(N=N, given="cdims", sel=list(sub))
                if k <= 2 or N <= 3:
                    rest = [m for m in modes if m not in sub]
                    for c in itertools.permutations(rest):
                        yield dict(N=N, given="both", sel=list(sub), other=list(c))
        for r in modes:
            for cyc in ("fc", "bc", "t"):
                yield dict(N=N, given="cyclic", sel=[r], cyc=cyc)


@cell("C17/parse/gather_wrap_dims", enum=_enum_gather, shards=(2, 8))
def gather_cell(ctx, case):
    """documented mapping of modes to rows/columns (docstring of gather_wrap_dims)"""
    N, sel = case["N"], case["sel"]
    ctx.label(case["given"])
    rest = [m for m in range(N) if m not in sel]
    ctx.nt = sel != sorted(sel) or case["given"] == "cyclic"
    dt = np.dtype(case.get("dtype", "int64"))
    ctx.label("dims-" + dt.name)
    arr = np.array(sel, dtype=dt)
    if case["given"] == "rdims":
        with ctx.sut("gather_wrap_dims"):
            r, c = ttu.gather_wrap_dims(N, rdims=arr.copy())
        er, ec = sel, rest
    elif case["given"] == "cdims":
        with ctx.sut("gather_wrap_dims"):
            r, c = ttu.gather_wrap_dims(N, cdims=arr.copy())
        er, ec = rest, sel
    elif case["given"] == "both":
        with ctx.sut("gather_wrap_dims"):
            r, c = ttu.gather_wrap_dims(N, rdims=arr.copy(), cdims=np.array(case["other"], dtype=dt))
        er, ec = sel, case["other"]
    else:
        with ctx.sut("gather_wrap_dims"):
            r, c = ttu.gather_wrap_dims(N, rdims=arr.copy(), cdims_cyclic=case["cyc"])
        k = sel[0]
        if case["cyc"] == "fc":
            er, ec = [k], list(range(k + 1, N)) + list(range(0, k))
        elif case["cyc"] == "bc":
            er, ec = [k], list(range(k - 1, -1, -1)) + list(range(N - 1, k, -1))
        else:
            er, ec = rest, [k]
        ctx.label(case["cyc"])
    ctx.require(isinstance(r, np.ndarray) and isinstance(c, np.ndarray), "gather-returns-arrays")
    ctx.check(np.issubdtype(r.dtype, np.integer) and np.issubdtype(c.dtype, np.integer), "gather-integer-modes")
    ctx.check(r.reshape(-1).tolist() == er, "gather-row-modes", f"{r.tolist()} vs {er}")
    ctx.check(c.reshape(-1).tolist() == ec, "gather-column-modes", f"{c.tolist()} vs {ec}")
    ctx.check(sorted(r.reshape(-1).tolist() + c.reshape(-1).tolist()) == list(range(N)), "gather-partition-of-modes")


# ==========================================================================
# khatrirao
# ==========================================================================


def _kr_ref(mats):
    """column-wise Kronecker product, first argument slowest (np.kron on columns; result in the arguments' common type)"""
    ncol = mats[0].shape[1]
    cols = []
    for j in range(ncol):
        v = mats[0][:, j]
        for M in mats[1:]:
            v = np.kron(v, M[:, j])
        cols.append(v)
    nrow = ref.prod(M.shape[0] for M in mats)
    return np.stack(cols, axis=1) if ncol else np.zeros((nrow, 0))  # noqa


_KR_DTYPES = {"float64": np.float64, "int64": np.int64, "int32": np.int32, "uint8": np.uint8, "bool": np.bool_,
              "float32": np.float32, "complex128": np.complex128}


@st.composite
def _kr_case(draw, tier):
    k = draw(st.integers(1, 4))
    ncol = draw(st.integers(1, 3 if tier == "quick" else 4))
    vkind = draw(st.sampled_from(["int", "float"]))
    maxr = 4 if tier == "quick" else 5
    rows = [draw(st.integers(1, maxr)) for _ in range(k)]
    mats = [draw(st.lists(st.lists(gen.values(vkind), min_size=ncol, max_size=ncol), min_size=r, max_size=r))
            for r in rows]
    layout = [draw(st.sampled_from(["C", "F"])) for _ in range(k)]
    # dtypes: all float64 / one generated dtype for all / an independent dtype per matrix (mixed: the product must be
    # carried out in a type that holds every factor)
    mode = draw(st.sampled_from(["float64", "float64", "same", "mixed", "mixed", "mixed"]))
    pool = ["float64", "int64", "int32", "uint8", "bool", "float32", "complex128"]
    if mode == "float64":
        dtypes = ["float64"] * k
    elif mode == "same":
        dtypes = [draw(st.sampled_from(pool))] * k
    else:
        dtypes = [draw(st.sampled_from(pool)) for _ in range(k)]
    # an integer-typed matrix holds integers: replace its entries by small integers (uint8 / bool: non-negative and so
    # small that the product of four factors cannot wrap)
    for j, dn in enumerate(dtypes):
        if dn in ("int64", "int32"):
            mats[j] = [[float(draw(st.integers(-6, 6))) for _ in range(ncol)] for _ in range(rows[j])]
        elif dn == "uint8":
            mats[j] = [[float(draw(st.integers(0, 3))) for _ in range(ncol)] for _ in range(rows[j])]
        elif dn == "bool":
            mats[j] = [[float(draw(st.integers(0, 1))) for _ in range(ncol)] for _ in range(rows[j])]
        elif dn == "float32":
            mats[j] = [[float(np.float32(v)) for v in row] for row in mats[j]]
    # the product is scale-free: whole matrices of general floats scaled by 1e-6 / 1e+6 (bounds are relative)
    scales = [1.0] * k
    for j, dn in enumerate(dtypes):
        if dn == "float64" and vkind == "float":
            scales[j] = draw(st.sampled_from([1.0, 1.0, 1e-6, 1e6, 1e-9, 1e-12]))  # (round 3: below every absolute tolerance)
            mats[j] = [[v * scales[j] for v in row] for row in mats[j]]
    imag = None
    if "complex128" in dtypes:
        imag = [[[float(draw(st.integers(-3, 3))) for _ in range(ncol)] for _ in range(r)] for r in rows]
    return dict(mats=mats, rows=rows, ncol=ncol, vkind=vkind, reverse=draw(st.booleans()), layout=layout, dtypes=dtypes,
                imag=imag, scales=scales)


def kr_dtype_class(case):
    """pure function of the case: 'all-float64' / 'same-<dtype>' / 'mixed' and whether the first matrix in effective
    order has a narrower type than a later one"""
    dts = case.get("dtypes") or ["float64"] * len(case["rows"])
    if len(set(dts)) == 1:
        return "all-float64" if dts[0] == "float64" else "same-" + dts[0]
    eff = dts[::-1] if case["reverse"] else dts
    first = np.dtype(_KR_DTYPES[eff[0]])
    common = np.result_type(*[_KR_DTYPES[d] for d in eff])
    return "mixed-first-narrower" if first != common else "mixed-first-widest"


def _check_kr(ctx, case):
    k = len(case["rows"])
    dts = case.get("dtypes") or ["float64"] * k
    mats = []
    for j, (m, r) in enumerate(zip(case["mats"], case["rows"])):
        M = np.array(m, dtype=float).reshape(r, case["ncol"])
        if dts[j] == "complex128":
            M = M + 1j * np.array(case["imag"][j], dtype=float).reshape(r, case["ncol"])
        mats.append(M.astype(_KR_DTYPES[dts[j]]))
    exact_inputs = [np.array(M, dtype=np.complex128) for M in mats]  # the values the arguments hold
    mats = [np.asfortranarray(m) if lay == "F" else np.ascontiguousarray(m) for m, lay in zip(mats, case["layout"])]
    rev = case["reverse"]
    ctx.nt = len(mats) >= 2 and len(set(case["rows"])) >= 2
    cls = kr_dtype_class(case)
    ctx.label(f"k{len(mats)}", "reverse" if rev else "forward", case["vkind"],
              "distinct-rows" if len(set(case["rows"])) >= 2 else "equal-rows", "dtypes-" + cls,
              "scaled" if any(x != 1.0 for x in case.get("scales", [1.0])) else "unscaled")
    keep = [m.copy() for m in mats]
    with ctx.sut("khatrirao"):
        got = ttb.khatrirao(*mats, reverse=rev) if rev else ttb.khatrirao(*mats)
    order = exact_inputs[::-1] if rev else exact_inputs
    want = _kr_ref(order)  # complex128 reference of the values; real inputs give a zero imaginary part
    ctx.require(isinstance(got, np.ndarray) and got.shape == want.shape, "khatrirao-shape",
                f"{getattr(got, 'shape', None)} vs {want.shape}")
    ctx.require(got.dtype.kind in "biufc", "khatrirao-numeric-result", got.dtype)
    g = np.array(got, dtype=np.complex128)
    intvalued = all(ref.is_intvalued(M.real) and ref.is_intvalued(M.imag) for M in exact_inputs)
    if intvalued:
        ok = bool(np.array_equal(g, want))
    else:
        # every factor is exact in the type it is held in (float32 entries are float32 values); NumPy rounds a product of
        # two factors in their common type, so as soon as one argument is float32 some partial product may be rounded
        # to float32, whichever way the factors are associated: float32 eps then, double eps otherwise
        eps = float(np.finfo(np.float32).eps) if "float32" in dts else ref.EPS
        tol = 64.0 * len(mats) * eps * np.abs(want) + 1e-290
        ok = bool(np.all((np.abs(g - want) <= tol) | (g == want)))
    ctx.check(ok, "khatrirao-columnwise-kronecker", ref.diff_info(g, want))
    ctx.check(all(np.array_equal(a, b) and a.dtype == b.dtype for a, b in zip(keep, mats)), "khatrirao-leaves-arguments")
    if len(mats) >= 2:
        # stated equivalence (docstring): khatrirao(B, A, reverse=True) is khatrirao(A, B)
        with ctx.sut("khatrirao-reverse-equivalence"):
            other = ttb.khatrirao(*mats[::-1], reverse=not rev) if not rev else ttb.khatrirao(*mats[::-1])
        ctx.check(np.array_equal(other, got), "khatrirao-reverse-is-reversed-argument-list")
    # the k-th call depends only on its own arguments: overwrite the first result, ask again
    first = np.array(got, copy=True)
    if got.flags.writeable and not any(np.shares_memory(got, m) for m in mats):
        got[...] = 0
    with ctx.sut("khatrirao-again"):
        again = ttb.khatrirao(*mats, reverse=rev) if rev else ttb.khatrirao(*mats)
    ctx.check(isinstance(again, np.ndarray) and again.shape == first.shape and np.array_equal(again, first),
              "khatrirao-second-call-same-answer")
    ctx.check(all(np.array_equal(a, b) for a, b in zip(keep, mats)), "khatrirao-result-does-not-alias-arguments")


@cell("C17/khatrirao/sampled", strategy=_kr_case, quick=800, thorough=16000, shards=(1, 8))
def khatrirao_sampled(ctx, case):
    _check_kr(ctx, case)


# -- round 3: large factors, extreme dynamic range, factors without rows / columns --------------------------------


@st.composite
def _kr_big_case(draw, tier):
    kind = draw(st.sampled_from(["large", "large", "extreme", "extreme", "empty"]))
    seed = draw(st.integers(0, 2 ** 31 - 1))
    rev = draw(st.booleans())
    if kind == "large":
        # 2e4..1.5e5 result rows (above 16384 / 65536-row blocks) or many columns
        k = draw(st.integers(2, 3))
        if draw(st.booleans()):
            rows = [draw(st.integers(100, 400)), draw(st.integers(100, 400))] + ([draw(st.integers(1, 3))] if k == 3 else [])
            rows = [rows[i] for i in draw(st.permutations(range(k)))]
            ncol = draw(st.integers(1, 3))
        else:
            rows = [draw(st.integers(2, 12)) for _ in range(k)]
            ncol = draw(st.sampled_from([33, 64, 100, 257]))
        return dict(kind=kind, seed=seed, rows=rows, ncol=ncol, reverse=rev, vkind=draw(st.sampled_from(["int", "float"])),
                    layout=[draw(st.sampled_from(["C", "F"])) for _ in range(k)])
    if kind == "extreme":
        # one or two factors whose entries span the whole exponent range: a product of two doubles is one correctly
        # rounded multiplication whichever way the code arranges it, so the comparison is exact (underflow to zero,
        # overflow to inf and subnormal results included)
        k = draw(st.sampled_from([1, 2, 2, 2]))
        return dict(kind=kind, seed=seed, rows=[draw(st.integers(1, 5)) for _ in range(k)], ncol=draw(st.integers(1, 3)),
                    reverse=rev, mags=[draw(st.sampled_from(["1e-200", "1e-200", "1e-160", "1e-18", "1e+18", "1e+200", "mixed",
                                                             "mixed"])) for _ in range(k)],
                    layout=[draw(st.sampled_from(["C", "F"])) for _ in range(k)])
    k = draw(st.integers(1, 3))
    rows = [draw(st.integers(0, 3)) for _ in range(k)]
    ncol = draw(st.sampled_from([0, 1, 2]))
    if ncol and 0 not in rows:
        rows[draw(st.integers(0, k - 1))] = 0
    return dict(kind=kind, seed=seed, rows=rows, ncol=ncol, reverse=rev, layout=["C"] * k)


def kr_no_columns(case):
    return case.get("kind") == "empty" and case.get("ncol") == 0


@cell("C17/khatrirao/large-extreme-empty", strategy=_kr_big_case, quick=60, thorough=900, shards=(2, 8))
def khatrirao_big(ctx, case):
    rng = np.random.default_rng(case["seed"])
    rows, ncol, rev, kind = case["rows"], case["ncol"], case["reverse"], case["kind"]
    k = len(rows)
    if kind == "large":
        mats = [(rng.integers(-6, 7, size=(r, ncol)).astype(float) if case["vkind"] == "int" else
                 rng.standard_normal((r, ncol)) * 10.0 ** rng.integers(-3, 4, size=(r, ncol))) for r in rows]
    elif kind == "extreme":
        mats = []
        for r, mag in zip(rows, case["mags"]):
            e = rng.choice([-300, -200, -160, -18, 0, 18, 150, 200, 300], size=(r, ncol)) if mag == "mixed" else \
                np.full((r, ncol), float(mag.split("e")[1]))
            M = rng.uniform(1.0, 10.0, size=(r, ncol)) * rng.choice([-1.0, 1.0], size=(r, ncol)) * 10.0 ** e
            M[rng.random((r, ncol)) < 0.1] = 0.0
            mats.append(M)
    else:
        mats = [rng.integers(1, 7, size=(r, ncol)).astype(float) for r in rows]
    mats = [np.asfortranarray(m) if lay == "F" else np.ascontiguousarray(m) for m, lay in zip(mats, case["layout"])]
    keep = [m.copy() for m in mats]
    ctx.nt = k >= 2 and len(set(rows)) >= 2
    nrow = ref.prod(rows)
    tag = {"large": "large", "extreme": "extreme", "empty": "no-columns" if ncol == 0 else "no-rows"}[kind]
    ctx.label("kr-" + tag, f"k{k}", "reverse" if rev else "forward",
              *(["rows>65536" if nrow > 65536 else ("rows>16384" if nrow > 16384 else "rows<=16384"), f"ncol{min(ncol, 33)}+"
                 if ncol >= 33 else "few-columns"] if kind == "large" else []))
    with ctx.sut("khatrirao/" + tag):
        got = ttb.khatrirao(*mats, reverse=rev) if rev else ttb.khatrirao(*mats)
    eff = mats[::-1] if rev else mats
    # column-wise Kronecker product, first (effective) argument slowest: my own outer products, one multiplication per
    # factor pair (exact for k <= 2)
    want = eff[0]
    for M in eff[1:]:
        want = (want[:, None, :] * M[None, :, :]).reshape(want.shape[0] * M.shape[0], ncol)
    ctx.require(isinstance(got, np.ndarray) and got.shape == (nrow, ncol), f"khatrirao-shape/{tag}",
                f"{getattr(got, 'shape', None)} vs {(nrow, ncol)}")
    if kind == "extreme" or kind == "empty" or case.get("vkind") == "int":
        ctx.check(ref.same_exact(got, want), f"khatrirao-columnwise-kronecker/{tag}", ref.diff_info(got, want))
        if kind == "extreme" and k == 2:
            with np.errstate(all="ignore"):
                ctx.label("some-product-underflows-to-zero" if bool(np.any((want == 0) & (
                    (eff[0][:, None, :] != 0) & (eff[1][None, :, :] != 0)).reshape(nrow, ncol))) else "no-underflow",
                    "some-product-overflows" if bool(np.any(np.isinf(want))) else "no-overflow")
    else:
        tol = 64.0 * k * ref.EPS * np.abs(want) + 1e-290
        ctx.check(bool(np.all((np.abs(got - want) <= tol) | (got == want))), f"khatrirao-columnwise-kronecker/{tag}",
                  ref.diff_info(got, want))
    ctx.check(all(np.array_equal(a, b) for a, b in zip(keep, mats)), "khatrirao-leaves-arguments")


def _enum_kr(tier):
    """every tuple of row counts in 1..3 (thorough 1..4) for 1..3 (thorough 1..4) matrices, 1..2 columns, both directions;
    entries are distinct primes per position so that a misplaced factor changes the product"""
    maxr, maxk = (3, 3) if tier == "quick" else (4, 4)
    for k in range(1, maxk + 1):
        for rows in itertools.product(range(1, maxr + 1), repeat=k):
            for ncol in (1, 2):
                for rev in (False, True):
                    yield dict(rows=list(rows), ncol=ncol, reverse=rev)


_PRIMES = [2, 3, 5, 7, 11, 13, 17, 19, 23, 29, 31, 37, 41, 43, 47, 53, 59, 61, 67, 71, 73, 79, 83, 89, 97, 101, 103,
           107, 109, 113, 127, 131, 137, 139, 149, 151, 157, 163, 167, 173]


@cell("C17/khatrirao/enumerated", enum=_enum_kr, shards=(2, 8))
def khatrirao_enum(ctx, case):
    it = iter(_PRIMES)
    mats = []
    for r in case["rows"]:
        mats.append([[float(next(it)) for _ in range(case["ncol"])] for _ in range(r)])
    c = dict(mats=mats, rows=case["rows"], ncol=case["ncol"], vkind="int", reverse=case["reverse"],
             layout=["C"] * len(mats))
    _check_kr(ctx, c)


# ==========================================================================
# round 4: how the caller presents valid arguments (class 11), state after a rejected request (12), process environment
# (13), ill-formed requests that broadcasting hides (14)
# ==========================================================================

import contextlib
import logging


@contextlib.contextmanager
def _root_logger_at_debug(on):
    """class 13: the root logger at DEBUG (with a NullHandler) while the helper runs; restored afterwards.  The helpers
    must compute the same thing whatever the logging level of the process is."""
    if not on:
        yield
        return
    root = logging.getLogger()
    old = root.level
    h = logging.NullHandler()
    root.addHandler(h)
    root.setLevel(logging.DEBUG)
    try:
        yield
    finally:
        root.setLevel(old)
        root.removeHandler(h)


_R4_ROW_DTYPES = ["int", "int32", "int16", "int8", "uint8", "uint16", "uint32", "uint64", "intp", "float", "float32"]
_R4_LAYOUTS = ["C", "F", "strided", "F-strided", "colslice", "reversed", "transposed", "readonly", "F-readonly"]
def _r4_range(name):
    """the integers a row dtype holds exactly"""
    dt = np.dtype(_ROW_DTYPES[name])
    if dt.kind == "f":
        m = 2 ** (np.finfo(dt).nmant + 1)
        return -m, m
    ii = np.iinfo(dt)
    return int(ii.min), int(ii.max)


def _r4_letters(dA, dB, kind):
    """entries both operands' dtypes hold: a small alphabet, or the ends of the common range (255 for uint8 next to int16,
    127 next to int8, 2**31 - 1, 2**64 - 1 for two uint64 operands ...); multiples of 1/2 when both are floating point"""
    if kind == "small":
        return [0, 1, 2]
    (la, ha), (lb, hb) = _r4_range(dA), _r4_range(dB)
    lo, hi = max(la, lb), min(ha, hb)
    if dA != dB and "uint64" in (dA, dB) and min(la, lb) < 0:
        hi = min(hi, 2 ** 53)  # uint64 next to a signed type: NumPy's common type is float64
    if kind == "halves":
        return [0.0, 0.5, 1.0, 2.5, -1.5]
    out = [0, 1, hi, hi - 1, hi // 2 + 1]
    if lo < 0:
        out += [-1, lo]
    if hi > 2 ** 53:
        out += [2 ** 53, 2 ** 53 + 1]
    return out


@st.composite
def _row_pair_r4(draw, tier):
    """two row matrices as ordinary callers hold them: one column or many (6-8) columns, each operand in a generated
    integer / float dtype (int16, uint32, uint64, intp, float32 besides the earlier ones; the same for both or mixed) and
    memory layout (C, F, row-strided in C and F order, a column slice of a wider array, a backwards view, a transpose,
    read-only), passed *as they are* (no copy in between).  Rows are built so that many differ in exactly one column."""
    w = draw(st.sampled_from([1, 1, 2, 3, 6, 7, 8]))
    dA = draw(st.sampled_from(_R4_ROW_DTYPES))
    floats = {"float", "float32"}
    dB = dA if draw(st.integers(0, 2)) == 0 else draw(st.sampled_from(_R4_ROW_DTYPES))
    if dA in floats and dB not in floats and draw(st.booleans()):
        dB = draw(st.sampled_from(["float32", "float"]))
    lk = draw(st.sampled_from(["small", "edge", "edge"] + (["halves", "halves"] if {dA, dB} <= floats else [])))
    letters = _r4_letters(dA, dB, lk)
    base = [draw(st.sampled_from(letters)) for _ in range(w)]
    pool = [tuple(base)]
    for _ in range(draw(st.integers(0, 6))):
        if draw(st.booleans()):  # differs from an earlier row in exactly one column (first, last or any)
            r = list(pool[draw(st.integers(0, len(pool) - 1))])
            r[draw(st.sampled_from([0, w - 1, draw(st.integers(0, w - 1))]))] = draw(st.sampled_from(letters))
        else:
            r = [draw(st.sampled_from(letters)) for _ in range(w)]
        if tuple(r) not in pool:
            pool.append(tuple(r))
    where = [draw(st.sampled_from(["both", "both", "both", "A", "B"])) for _ in pool]
    A = [list(r) for r, t in zip(pool, where) if t in ("both", "A")]
    B = [list(r) for r, t in zip(pool, where) if t in ("both", "B")]

    def present(rows):
        if not rows:
            return rows
        rows = list(draw(st.permutations(rows)))
        if draw(st.booleans()):
            for _ in range(draw(st.integers(1, 3))):
                r = rows[draw(st.integers(0, len(rows) - 1))]
                rows.insert(draw(st.integers(0, len(rows))), list(r))
        return rows

    A, B = present(A), present(B)
    mode = draw(st.sampled_from(["pair"] * 10 + ["empty-A", "empty-B"]))
    if mode == "empty-A":
        A = []
    elif mode == "empty-B":
        B = []
    return dict(A=A, B=B, width=w, empty_form=draw(st.sampled_from(["1x0", "0xw"])), dtype=dA, dtypeB=dB,
                layout=draw(st.sampled_from(_R4_LAYOUTS)), layoutB=draw(st.sampled_from(_R4_LAYOUTS)), mode=mode,
                entries=lk, as_is=True, debug_logging=draw(st.sampled_from([False, False, True])))


def _r4_effective(case):
    """the dtypes actually used (after ``_holding``) - pure function of the case"""
    A, B = _tuples(case["A"]), _tuples(case["B"])
    return _holding(case["dtype"], A), _holding(case["dtypeB"], B)


def _r4_sound(case):
    """a mix of uint64 with a signed type has no common integer type in NumPy (float64): kept to entries below 2**53"""
    dA, dB = _r4_effective(case)
    if {dA, dB} <= {"uint64"} or "uint64" not in (dA, dB):
        return True
    return all(abs(v) <= 2 ** 53 for r in list(case["A"]) + list(case["B"]) for v in r)


@cell("C17/rows/presented", strategy=_row_pair_r4, quick=400, thorough=3000, shards=(2, 8))
def rows_presented(ctx, case):
    """class 11 / 13: all four helpers on operands in the dtype and memory layout the caller happens to hold them in"""
    pc = pair_class(case)
    ctx.nt = _nt_pair(pc)
    dA, dB = _r4_effective(case)
    if not _r4_sound(case):
        ctx.skip("uint64 beyond 2**53 mixed with a signed type")
        return
    _label_pair(ctx, pc)
    ctx.label("width-%d" % case["width"], "A-" + dA, "B-" + dB, "dtypes-same" if dA == dB else "dtypes-mixed",
              "layoutA-" + case["layout"], "layoutB-" + case["layoutB"], "entries-" + case["entries"], "mode-" + case["mode"],
              "debug-logging" if case["debug_logging"] else "default-logging")
    with _root_logger_at_debug(case["debug_logging"]):
        check_ismember(ctx, case)
        check_intersect(ctx, case)
        check_setdiff(ctx, case)
        check_union(ctx, case)


# -- index maps ---------------------------------------------------------------------------------------------------

_R4_IDX_DTYPES = dict(_IDX_DTYPES, uint64=np.uint64)


def _r4_shape_arg(shape, form):
    """the same shape as callers hold it (``sptenmat`` passes ``tshape[rdims]``, an ndarray; a tensor grown by assignment
    has numpy integers in its shape tuple).  A numpy type that cannot hold an entry falls back to Python ints."""
    if form in ("tuple", "ndarray"):
        form += "-np.int64"
    kind, _, name = form.partition("-")
    if form == "from-sptensor":
        return ttb.sptensor(shape=tuple(shape)).shape
    if form == "tuple-mixed":
        return tuple(np.int32(x) if i % 2 else int(x) for i, x in enumerate(shape))
    if form == "ndarray-slice":  # e.g. np.array(T.shape)[dims]: a strided view
        big = np.zeros(2 * len(shape), dtype=np.int64)
        big[::2] = shape
        return big[::2]
    if form == "tuple-int":
        return tuple(int(x) for x in shape)
    dt = np.dtype(name[3:])
    if not _fits(dt, 0, max(shape)):
        return tuple(int(x) for x in shape)
    if kind == "tuple":
        return tuple(dt.type(x) for x in shape)
    return np.array(shape, dtype=dt)


@st.composite
def _index_presented(draw, tier):
    n = draw(st.sampled_from([1, 2, 3, 4, 6, 6, 7, 7, 8, 8]))
    if n >= 6:
        shape = [draw(st.integers(1, 3)) for _ in range(n)]
        if draw(st.booleans()):  # one longer mode, anywhere
            shape[draw(st.integers(0, n - 1))] = draw(st.sampled_from([5, 17, 200, 300]))
    else:
        cap = draw(st.sampled_from([300, 40, 4, 4]))
        shape = [draw(st.integers(1, cap)) for _ in range(n)]
    size = ref.prod(shape)
    k = draw(st.integers(0, 8))
    region = draw(st.sampled_from(["any", "any", "low", "high"]))
    top = size - 1 if region != "low" else min(size - 1, 100)
    bot = 0 if region != "high" else max(0, size - 1 - 100)
    idx = draw(st.lists(st.integers(bot, top), min_size=k, max_size=k))
    neg = draw(st.lists(st.booleans(), min_size=k, max_size=k)) if draw(st.booleans()) else [False] * k
    return dict(shape=shape, idx=idx, neg=neg, dtype=draw(st.sampled_from(sorted(_R4_IDX_DTYPES))),
                subs_dtype=draw(st.sampled_from(sorted(_R4_IDX_DTYPES))),
                order=draw(st.sampled_from(["F", None, "C", "C"])), order_how=draw(st.sampled_from(["keyword", "positional"])),
                shape_form=draw(st.sampled_from(["tuple-int", "from-sptensor", "tuple-mixed", "ndarray-slice", "tuple", "tuple",
                                                 "ndarray"])) if draw(st.booleans()) else
                draw(st.sampled_from(["tuple", "tuple", "ndarray"])) + "-" + draw(st.sampled_from(
                    ["np.uint8", "np.int32", "np.uint64", "np.int16", "np.uint16", "np.uint32", "np.intp", "np.int64"])),
                idx_layout=draw(st.sampled_from(["fresh", "strided", "reversed", "readonly"])),
                subs_layout=draw(st.sampled_from(_R4_LAYOUTS)),
                debug_logging=draw(st.sampled_from([False, False, True])))


def _r4_idx_view(a, layout):
    if layout == "strided":
        big = np.zeros(2 * a.shape[0], dtype=a.dtype)
        big[::2] = a
        return big[::2]
    if layout == "reversed":
        return np.ascontiguousarray(a[::-1])[::-1]
    if layout == "readonly":
        a = a.copy()
        a.setflags(write=False)
    return a


@cell("C17/index/presented", strategy=_index_presented, quick=400, thorough=3000, shards=(2, 8))
def index_presented(ctx, case):
    """class 11 / 13: tensors of order 6-8 (and 1-4), the shape as a tuple of numpy integers of every width / an ndarray / the
    ``shape`` of a tensor, index and subscript arrays in int16 .. uint64 (the subscripts in their own dtype), strided / F-ordered /
    read-only, ``order`` given positionally in its documented place or by keyword.  Oracle: mixed-radix digits in Python."""
    shape = tuple(case["shape"])
    size = ref.prod(shape)
    idx = list(case["idx"])
    order = case["order"]
    dt = _R4_IDX_DTYPES[case["dtype"]]
    neg = list(case["neg"]) if not np.issubdtype(dt, np.unsignedinteger) else [False] * len(idx)
    given = [i - size if ng else i for i, ng in zip(idx, neg)]
    if given and not _fits(dt, min(given), max(given)):
        dt = np.int64
    sdt = _R4_IDX_DTYPES[case["subs_dtype"]]
    if not _fits(sdt, 0, max(shape) - 1):
        sdt = np.int64
    positional = case["order_how"] == "positional" and order is not None
    oargs, okw = ((order,), {}) if positional else ((), {} if order is None else dict(order=order))
    ctx.nt = len(set(shape)) >= 2 and len(idx) >= 1
    ctx.label(f"order{len(shape)}", "idx-" + np.dtype(dt).name, "subs-" + np.dtype(sdt).name, "shape-" + case["shape_form"],
              f"order-arg-{order}", "order-positional" if positional else "order-keyword-or-default",
              "idx-layout-" + case["idx_layout"], "subs-layout-" + case["subs_layout"], "empty" if not idx else "nonempty",
              "has-negative" if any(neg) else "no-negative",
              "idx-dtype-holds-size" if _fits(dt, 0, size) else "idx-dtype-narrower-than-size",
              "subs-dtype-holds-size" if _fits(sdt, 0, size) else "subs-dtype-narrower-than-size",
              "debug-logging" if case["debug_logging"] else "default-logging")
    expect_subs = [_py_ind2sub(i, shape, order) for i in idx]
    expect = np.array(expect_subs, dtype=np.int64).reshape(len(idx), len(shape))
    shape_arg = _r4_shape_arg(shape, case["shape_form"])
    shape_keep = np.array(shape_arg, dtype=object)
    lin_arg = _r4_idx_view(np.array(given, dtype=dt), case["idx_layout"])
    sub_arg = expect.astype(sdt)
    sub_arg = _mat(sub_arg.tolist(), len(shape), "0xw", "int", "C").astype(sdt) if not idx else sub_arg
    if idx:
        lay = case["subs_layout"]
        if lay == "F":
            sub_arg = np.asfortranarray(sub_arg)
        elif lay == "strided":
            big = np.zeros((2 * len(idx), len(shape)), dtype=sdt)
            big[::2] = sub_arg
            sub_arg = big[::2]
        else:
            sub_arg = _view_as(sub_arg, lay)
    sL, sS = _snap(lin_arg), _snap(sub_arg)
    with _root_logger_at_debug(case["debug_logging"]):
        with ctx.sut("tt_ind2sub/presented"):
            s = ttu.tt_ind2sub(shape_arg, lin_arg, *oargs, **okw)
        with ctx.sut("tt_sub2ind/presented"):
            l = ttu.tt_sub2ind(shape_arg, sub_arg, *oargs, **okw)
    s, l = np.asarray(s), np.asarray(l)
    ctx.require(s.shape == expect.shape, "ind2sub-result-shape/presented", s.shape)
    if idx:
        ctx.check(np.issubdtype(s.dtype, np.integer), "ind2sub-integer-subscripts/presented", s.dtype)
    ctx.check(s.tolist() == expect.tolist(), "ind2sub-subset/presented", f"{s.tolist()} vs {expect.tolist()}")
    ctx.require(l.size == len(idx), "sub2ind-result-size/presented", l.shape)
    ctx.check([int(v) for v in l.reshape(-1).tolist()] == idx and (not idx or np.issubdtype(l.dtype, np.integer)),
              "sub2ind-subset/presented", f"{l.tolist()} ({l.dtype}) vs {idx}")
    ctx.check(np.array_equal(lin_arg, sL[0]) and lin_arg.flags.writeable == sL[2] and np.array_equal(sub_arg, sS[0])
              and sub_arg.flags.writeable == sS[2] and sub_arg.dtype == sS[0].dtype and lin_arg.dtype == sL[0].dtype
              and np.array_equal(np.array(shape_arg, dtype=object), shape_keep), "index-maps-leave-arguments/presented")
    # mutual inverses through the helper's own results (whatever dtype / layout they come back in)
    if idx:
        with ctx.sut("tt_sub2ind(tt_ind2sub)/presented"):
            back = np.asarray(ttu.tt_sub2ind(shape_arg, s, *oargs, **okw))
        ctx.check([int(v) for v in back.reshape(-1).tolist()] == idx, "sub2ind-inverts-ind2sub/presented")
        with ctx.sut("tt_ind2sub(tt_sub2ind)/presented"):
            back2 = np.asarray(ttu.tt_ind2sub(shape_arg, l, *oargs, **okw))
        ctx.check(back2.tolist() == expect.tolist(), "ind2sub-inverts-sub2ind/presented")


# -- khatrirao ---------------------------------------------------------------------------------------------------

_R4_KR_DTYPES = {"float64": np.float64, "float32": np.float32, "int64": np.int64, "int32": np.int32, "int16": np.int16,
                 "int8": np.int8, "uint8": np.uint8, "uint16": np.uint16}


@st.composite
def _kr_presented(draw, tier):
    """1..6 matrices with one column (half of the cases) or 2..3, as ``khatrirao(A, B, C)`` / ``khatrirao(*list)`` /
    ``khatrirao(*tuple)``, ``reverse`` omitted / ``reverse=False`` / ``reverse=True``, every matrix in its own dtype (float32 and
    the integer types of every width) and memory layout.  Entries are multiples of 1/2 in [-2, 2] (integers for integer
    types, 0..2 for unsigned ones): every product of up to six of them is exact in every type involved (|p| <= 64, at
    most 10 significant bits), so all presentations must agree exactly."""
    k = draw(st.sampled_from([1, 2, 2, 3, 3, 4, 5, 6]))
    ncol = draw(st.sampled_from([1, 1, 1, 2, 3]))
    rows = [draw(st.integers(1, 3)) for _ in range(k)]
    mode = draw(st.sampled_from(["same", "mixed", "mixed"]))
    pool = sorted(_R4_KR_DTYPES)
    dtypes = [draw(st.sampled_from(pool))] * k if mode == "same" else [draw(st.sampled_from(pool)) for _ in range(k)]
    mats = []
    for r, dn in zip(rows, dtypes):
        if dn.startswith("float"):
            ent = st.sampled_from([-2.0, -1.5, -1.0, -0.5, 0.0, 0.5, 1.0, 1.5, 2.0])
        elif dn.startswith("uint"):
            ent = st.sampled_from([0.0, 1.0, 2.0])
        else:
            ent = st.sampled_from([-2.0, -1.0, 0.0, 1.0, 2.0])
        mats.append([[draw(ent) for _ in range(ncol)] for _ in range(r)])
    return dict(mats=mats, rows=rows, ncol=ncol, dtypes=dtypes, layout=[draw(st.sampled_from(_R4_LAYOUTS)) for _ in range(k)],
                how=draw(st.sampled_from(["separate", "star-list", "star-tuple"])),
                reverse=draw(st.sampled_from(["omitted", "kw-false", "kw-true", "kw-true"])),
                debug_logging=draw(st.sampled_from([False, False, True])))


@cell("C17/khatrirao/presented", strategy=_kr_presented, quick=250, thorough=2000, shards=(2, 8))
def khatrirao_presented(ctx, case):
    k, ncol = len(case["rows"]), case["ncol"]
    vals = [np.array(m, dtype=float).reshape(r, ncol) for m, r in zip(case["mats"], case["rows"])]
    mats = []
    for v, dn, lay in zip(vals, case["dtypes"], case["layout"]):
        M = v.astype(_R4_KR_DTYPES[dn])
        if lay == "F":
            M = np.asfortranarray(M)
        elif lay == "strided":
            big = np.zeros((2 * M.shape[0], ncol), dtype=M.dtype)
            big[::2] = M
            M = big[::2]
        else:
            M = _view_as(M, lay)
        mats.append(M)
    snaps = [_snap(M) for M in mats]
    rev = case["reverse"] == "kw-true"
    kw = {} if case["reverse"] == "omitted" else dict(reverse=rev)
    ctx.nt = k >= 2 and len(set(case["rows"])) >= 2
    ctx.label(f"k{k}", f"ncol{ncol}", "reverse-" + case["reverse"], "args-" + case["how"],
              "dtypes-same-" + case["dtypes"][0] if len(set(case["dtypes"])) == 1 else "dtypes-mixed",
              *sorted({"has-" + d for d in case["dtypes"]}), *sorted({"layout-" + x for x in case["layout"]}),
              "debug-logging" if case["debug_logging"] else "default-logging")
    with _root_logger_at_debug(case["debug_logging"]):
        with ctx.sut("khatrirao/presented"):
            if case["how"] == "separate":
                got = {1: lambda a: ttb.khatrirao(a[0], **kw), 2: lambda a: ttb.khatrirao(a[0], a[1], **kw),
                       3: lambda a: ttb.khatrirao(a[0], a[1], a[2], **kw), 4: lambda a: ttb.khatrirao(a[0], a[1], a[2], a[3], **kw),
                       5: lambda a: ttb.khatrirao(a[0], a[1], a[2], a[3], a[4], **kw),
                       6: lambda a: ttb.khatrirao(a[0], a[1], a[2], a[3], a[4], a[5], **kw)}[k](mats)
            elif case["how"] == "star-list":
                got = ttb.khatrirao(*list(mats), **kw)
            else:
                got = ttb.khatrirao(*tuple(mats), **kw)
    want = _kr_ref([v.astype(np.complex128) for v in (vals[::-1] if rev else vals)]).real
    ctx.require(isinstance(got, np.ndarray) and got.shape == want.shape, "khatrirao-shape/presented",
                f"{getattr(got, 'shape', None)} vs {want.shape}")
    ctx.require(got.dtype.kind in "biuf", "khatrirao-numeric-result/presented", got.dtype)
    ctx.check(bool(np.array_equal(np.array(got, dtype=float), want)), "khatrirao-columnwise-kronecker/presented",
              ref.diff_info(np.array(got, dtype=float), want))
    ctx.check(all(np.array_equal(M, keep) and M.dtype == keep.dtype and M.strides == st_ and M.flags.writeable == wr
                  for M, (keep, st_, wr) in zip(mats, snaps)), "khatrirao-leaves-arguments/presented")
    # the same request in the library's favourite presentation: float64, C-contiguous, writable, separate list
    with ctx.sut("khatrirao/plain-presentation"):
        plain = ttb.khatrirao(*[np.array(v, dtype=np.float64, order="C") for v in vals], reverse=rev)
    ctx.check(isinstance(plain, np.ndarray) and plain.shape == got.shape and
              bool(np.array_equal(np.array(got, dtype=float), plain)), "khatrirao-same-answer-in-both-presentations")


def _enum_kr_rejected(tier):
    """class 14 / 12: requests the function states it rejects, built so that NumPy broadcasting would accept them: column
    counts (1, n) in every position, all other extents 1 or not; arguments that are not matrices (a vector of the right
    length, a (r, 1, n) array); a bare list (stated: interface changed); ``reverse`` that is not a bool"""
    for n in (2, 3):
        for rows in ([1, 1], [2, 3], [1, 1, 1], [2, 1, 3]):
            for odd in range(len(rows)):
                for rev in (False, True):
                    yield dict(kind="columns-1-vs-n", rows=rows, ncols=[1 if j == odd else n for j in range(len(rows))], reverse=rev)
                    yield dict(kind="columns-n-vs-1", rows=rows, ncols=[n if j == odd else 1 for j in range(len(rows))], reverse=rev)
    for rows in ([2, 3], [1, 1], [3, 2, 2]):
        for odd in range(len(rows)):
            for rev in (False, True):
                for kind in ("vector-argument", "three-way-argument", "scalar-argument"):
                    yield dict(kind=kind, rows=rows, ncols=[2] * len(rows), odd=odd, reverse=rev)
    for rows in ([2, 3], [2], [1, 1, 1]):
        yield dict(kind="bare-list", rows=rows, ncols=[2] * len(rows), reverse=False)
    for bad in (1, 0, None, "F", "True"):
        yield dict(kind="reverse-not-bool", rows=[2, 3], ncols=[2, 2], reverse=bad)


@cell("C17/khatrirao/rejected", enum=_enum_kr_rejected)
def khatrirao_rejected(ctx, case):
    """stated rejections ("All matrices must have the same number of columns", "Each argument must be a matrix", "Khatrirao
    interface has changed", "Expected a bool for reverse") and, after each, arguments that are bit for bit what they were"""
    ctx.nt = True
    ctx.label(case["kind"], f"k{len(case['rows'])}")
    it = iter(_PRIMES)
    mats = [np.array([[float(next(it)) for _ in range(c)] for _ in range(r)]).reshape(r, c) for r, c in zip(case["rows"], case["ncols"])]
    if case["kind"] == "vector-argument":
        mats[case["odd"]] = mats[case["odd"]][0, :].copy()  # length n: broadcasts against (r, 1, n)
    elif case["kind"] == "three-way-argument":
        mats[case["odd"]] = mats[case["odd"]].reshape(mats[case["odd"]].shape[0], 1, -1)
    elif case["kind"] == "scalar-argument":
        mats[case["odd"]] = np.array(3.0)
    keep = [m.copy() for m in mats]
    if case["kind"] == "bare-list":
        lst = list(mats)
        ctx.raises("khatrirao-bare-list-accepted", ttb.khatrirao, lst)
        ctx.check(len(lst) == len(mats) and all(a is b for a, b in zip(lst, mats)), "khatrirao-rejected-list-left-alone")
    else:
        ctx.raises(f"khatrirao-{case['kind']}-accepted", ttb.khatrirao, *mats, reverse=case["reverse"])
    ctx.check(all(a.shape == b.shape and a.dtype == b.dtype and np.array_equal(a, b) for a, b in zip(mats, keep)),
              "khatrirao-rejected-request-leaves-arguments")
    # the next valid request is answered as if nothing had happened
    X, Y = np.array([[2.0, 3.0], [5.0, 7.0]]), np.array([[11.0, 13.0]])
    with ctx.sut("khatrirao-after-rejection"):
        nxt = ttb.khatrirao(X, Y)
    ctx.check(isinstance(nxt, np.ndarray) and np.array_equal(nxt, np.array([[22.0, 39.0], [55.0, 91.0]])),
              "khatrirao-valid-request-after-rejection")


# -- tt_dimscheck: further stated rejections, and the state of the arguments afterwards ------------------------------


def _enum_dimscheck_r4(tier):
    for N in range(1, 6):
        for form in ("list", "tuple", "ndarray", "row2d", "col2d", "ndarray-int32", "ndarray-uint8"):
            # repeated dims (stated: "Repeated dims aren't allowed"): next to each other or apart, among valid ones
            for d in range(N):
                for others in ([], [m for m in range(N) if m != d]):
                    for dims in ([d, d] + others, [d] + others + [d], others + [d, d]):
                        for M in (None, len(dims), len(set(dims)), N):
                            yield dict(N=N, kind="repeated-dims", dims=dims, exclude=None, form=form, M=M)
            # dims and exclude_dims both given, one of them of length 0 (stated: "... but not both")
            for d in range(N):
                yield dict(N=N, kind="both-one-empty", dims=[], exclude=[d], form=form if form in ("list", "tuple", "ndarray") else "list", M=None)
                yield dict(N=N, kind="both-one-empty", dims=[d], exclude=[], form=form if form in ("list", "tuple", "ndarray") else "list", M=None)
            # negative entry next to valid ones in other dtypes / forms
            if not form.endswith("uint8"):
                yield dict(N=N, kind="negative-dims", dims=list(range(N)) + [-1], exclude=None, form=form, M=None)
                yield dict(N=N, kind="exclude-out-of-range", dims=None, exclude=[0, -1], form=form, M=None)
            yield dict(N=N, kind="exclude-out-of-range", dims=None, exclude=[0, N], form=form, M=None)


@cell("C17/dimscheck/rejected-r4", enum=_enum_dimscheck_r4, shards=(2, 4))
def dimscheck_rejected_r4(ctx, case):
    N = case["N"]
    ctx.nt = True
    ctx.label(case["kind"], case["form"])
    kw = {}
    if case["dims"] is not None:
        kw["dims"] = _present(case["dims"], case["form"])
    if case["exclude"] is not None:
        kw["exclude_dims"] = _present(case["exclude"], case["form"])
    keep = _snap_args(kw)
    ctx.raises(f"dimscheck-{case['kind']}-accepted", ttu.tt_dimscheck, N, case["M"], **kw)
    ctx.check(_args_left_alone(kw, keep), "dimscheck-rejected-request-leaves-arguments")
    with ctx.sut("tt_dimscheck-after-rejection"):
        out = ttu.tt_dimscheck(N, N, dims=list(range(N))[::-1])
    ctx.check(isinstance(out, tuple) and len(out) == 2 and np.asarray(out[0]).tolist() == list(range(N))
              and np.asarray(out[1]).tolist() == list(range(N))[::-1], "dimscheck-valid-request-after-rejection")


# -- tt_dimscheck: valid requests as callers write them (class 11) -----------------------------------------------------

_R4_SCALARS = {"int": int, "np.int64": np.int64, "np.int32": np.int32, "np.uint8": np.uint8, "np.intp": np.intp,
               "np.uint64": np.uint64, "np.int16": np.int16}


def _r4_present_dims(sel, form):
    if form == "list-of-npint":  # e.g. [n for n in np.arange(N) if ...], entries of differing integer types
        return [(np.int32, np.int64, np.uint8, np.intp)[i % 4](v) for i, v in enumerate(sel)]
    if form == "tuple-of-npint":
        return tuple(np.int64(v) for v in sel)
    if form.startswith("scalar-"):
        return _R4_SCALARS[form[len("scalar-"):]](sel[0])
    if form in ("readonly", "strided", "reversed"):
        return _r4_idx_view(np.array(sel, dtype=np.int64), form)
    return _present(sel, form)


@st.composite
def _dimscheck_presented(draw, tier):
    N = draw(st.integers(1, 8))
    k = draw(st.integers(0, N))
    sel = list(draw(st.permutations(range(N))))[:k]
    which = draw(st.sampled_from(["dims", "dims", "dims", "exclude", "exclude", "exclude", "default"]))
    if which == "default":
        k, sel = 0, []
    P = k if which == "dims" else N - k
    forms = ["list", "tuple", "ndarray-int16", "ndarray-uint16", "ndarray-uint32", "ndarray-uint64", "ndarray-intp", "ndarray-int8",
             "ndarray-int32", "readonly", "strided", "reversed"]
    if k >= 1:
        forms += ["list-of-npint", "tuple-of-npint", "row2d", "col2d"]
    if k == 1:
        forms += ["scalar-" + t for t in _R4_SCALARS] * 2
    return dict(N=N, which=which, sel=sel, form=draw(st.sampled_from(forms)), M=draw(st.sampled_from([None, P, N])),
                Ntype=draw(st.sampled_from(sorted(_R4_SCALARS))), Mtype=draw(st.sampled_from(sorted(_R4_SCALARS))),
                call=draw(st.sampled_from(["keyword", "positional", "M-keyword"])),
                debug_logging=draw(st.sampled_from([False, False, True])))


@cell("C17/dimscheck/presented", strategy=_dimscheck_presented, quick=300, thorough=2500, shards=(1, 4))
def dimscheck_presented(ctx, case):
    """class 11 / 13: the laws of C17/dimscheck/enumerated with N and M as numpy integers of several widths, the mode designation
    as a list / tuple of numpy integers, an array in int8 .. uint64, a read-only / strided / backwards view, a numpy scalar; M and
    dims / exclude_dims given positionally in their documented places (N, M, dims, exclude_dims) or by keyword"""
    N, which, sel, M = case["N"], case["which"], case["sel"], case["M"]
    chosen = list(sel) if which == "dims" else [m for m in range(N) if m not in sel]
    P = len(chosen)
    sdims_exp = sorted(chosen)
    ctx.nt = chosen != sdims_exp or (which == "exclude" and sel != sorted(sel))
    ctx.label(which, "form-" + case["form"], "N-" + case["Ntype"], "M-none" if M is None else "M-" + case["Mtype"],
              "call-" + case["call"], "M=P" if M == P else ("M=N" if M == N else "M-none"), f"N{N}",
              "debug-logging" if case["debug_logging"] else "default-logging")
    arg = _r4_present_dims(sel, case["form"]) if which != "default" else None
    keep = _snap_args(dict(d=arg)) if which != "default" else {}
    Narg = _R4_SCALARS[case["Ntype"]](N)
    Marg = None if M is None else _R4_SCALARS[case["Mtype"]](M)
    with _root_logger_at_debug(case["debug_logging"]):
        with ctx.sut("tt_dimscheck/presented"):
            if which == "default":
                out = ttu.tt_dimscheck(Narg, Marg) if case["call"] == "positional" else ttu.tt_dimscheck(N=Narg, M=Marg)
            elif case["call"] == "positional":
                out = ttu.tt_dimscheck(Narg, Marg, arg) if which == "dims" else ttu.tt_dimscheck(Narg, Marg, None, arg)
            elif case["call"] == "M-keyword":
                out = ttu.tt_dimscheck(Narg, M=Marg, **{("dims" if which == "dims" else "exclude_dims"): arg})
            else:
                out = ttu.tt_dimscheck(N=Narg, M=Marg, **{("dims" if which == "dims" else "exclude_dims"): arg})
    ctx.require(isinstance(out, tuple) and len(out) == 2, "dimscheck-returns-pair/presented", type(out).__name__)
    sdims, vidx = out
    ctx.require(isinstance(sdims, np.ndarray) and sdims.ndim == 1, "dimscheck-sdims-1d-array/presented", repr(sdims))
    ctx.check(sdims.tolist() == sdims_exp, "dimscheck-sorted-selected-modes/presented", f"{sdims.tolist()} vs {sdims_exp}")
    if P:  # the modes are used as indices (``shape[sdims]``, ``U[vidx[k]]``)
        ctx.check(np.issubdtype(sdims.dtype, np.integer), "dimscheck-sdims-integer/presented", f"{sdims!r}")
    ctx.check(which == "default" or _args_left_alone(dict(d=arg), keep), "dimscheck-leaves-arguments/presented")
    if M is None:
        ctx.check(vidx is None, "dimscheck-no-multiplicands-no-index/presented", repr(vidx))
        return
    ctx.require(isinstance(vidx, np.ndarray) and vidx.shape == (P,), "dimscheck-vidx-one-per-mode/presented", repr(vidx))
    v = [int(x) for x in vidx.tolist()]
    if P:
        ctx.check(np.issubdtype(vidx.dtype, np.integer), "dimscheck-vidx-integer/presented", f"{vidx!r}")
    if M == P:
        ctx.check(all(0 <= v[j] < P and chosen[v[j]] == sdims_exp[j] for j in range(P)),
                  "dimscheck-vidx-position-in-given-order/presented", f"dims={chosen} vidx={v}")
    else:
        ctx.check(v == sdims_exp, "dimscheck-vidx-is-mode-when-full/presented", f"dims={chosen} vidx={v}")


# ==========================================================================
# predicates for known findings
# ==========================================================================


def _repeat_before_common(rows, other):
    """some row of ``rows`` is repeated before the first occurrence of a row that also occurs in ``other``: exactly
    then positions in the de-duplicated list differ from positions in the list itself for a common row"""
    rows, other = _tuples(rows), set(_tuples(other))
    seen, repeat_seen = set(), False
    for r in rows:
        if r in seen:
            repeat_seen = True
        else:
            if repeat_seen and r in other:
                return True
            seen.add(r)
    return False


PREDICATES = {
    # khatrirao reshapes with -1 next to a zero-length axis
    "khatrirao_no_columns": lambda c: kr_no_columns(c),
    # tt_union_rows replaces an empty operand by np.empty(...) of float64: the vstack is then float64
    "union_one_operand_empty_other_beyond_2_53": lambda c: (not c["A"] or not c["B"]) and any(
        isinstance(v, int) and int(float(v)) != v for r in list(c["A"]) + list(c["B"]) for v in r),
    # tt_intersect_rows(X, Y) / tt_setdiff_rows(X, Y) take positions in the de-duplicated X for positions in X:
    "A_repeat_before_common_row": lambda c: _repeat_before_common(c["A"], c["B"]),
    "B_repeat_before_common_row": lambda c: _repeat_before_common(c["B"], c["A"]),
    # tt_intersect_rows(X, Y) lists its indices in Y's order, so the two index lists of a swapped pair of calls do not
    # correspond as soon as the common rows are ordered differently in the two operands
    "common_rows_ordered_differently": lambda c: pair_class(c)["common_order_differs"],
    # tt_union_rows indexes B's sorted-unique index list with positions of B's first-occurrence list
    "second_not_sorted_and_partial_overlap": lambda c: (not pair_class(c)["b_sorted"]) and pair_class(c)["common"] > 0
    and pair_class(c)["b_only"] > 0,
    # tt_ind2sub: `idx + prod(shape)` is evaluated in the dtype of idx / prod(shape) in the dtype of the shape entries
    "idx_dtype_narrower_than_size": lambda c: not subset_classes(c)["idx_dtype_holds_size"],
    "shape_product_overflows_and_negative_index": lambda c: (not subset_classes(c)["shape_prod_fits"])
    and subset_classes(c)["has_negative"],
    # tt_dimscheck: np.arange(0, N) with N a numpy uint64 is a float64 array (exclude_dims / default path)
    "order_given_as_uint64_and_modes_from_arange": lambda c: c.get("Ntype") == "np.uint64" and c.get("which") in ("exclude", "default"),
    # gather_wrap_dims 'bc': rdims[0] - 1 in an unsigned dtype wraps for mode 0
    "unsigned_first_mode_backward_cyclic": lambda c: c.get("given") == "cyclic" and c.get("cyc") == "bc"
    and list(c.get("sel")) == [0] and str(c.get("dtype", "int64")).startswith("uint"),
}
