"""C04 helpers: JSON key / right-hand-side encoding, the NumPy model of an F-ordered growable array, and the
construction of the concrete pyttb keys / values from a JSON operation.

Nothing in here calls a pyttb indexing method; pyttb is only used to *construct* right-hand-side objects
(``ttb.tensor`` / ``ttb.sptensor`` from arrays) that the documented call forms require.

JSON encoding
-------------
key
    ``{"f": "tuple", "k": [elem, ...]}``   region / full subscript; elem = int | {"s": [start, stop]} |
                                            {"s": [start, stop, step]} (any python slice: steps, negative
                                            steps, negative bounds, bounds beyond the extent) |
                                            {"l": [i, ...]} (python list) | {"a": [i, ...]} (1-D ndarray);
                                            optional ``"np": true`` = ints are passed as numpy.int64
    ``{"f": "subs", "rows": [[...], ...]}`` p x M array of subscripts (distinct rows); ``rows == []`` with
                                            ``"ncols": M`` = the 0 x M array (addresses nothing)
    (round 3) empty requests: a slice element that selects no index (``:0``, ``a:a``, ``b:a``, ``n:``, ...), an empty
    index list ``{"l": []}`` / ``{"a": []}``, the 0 x M subscript array and empty linear lists / arrays / slices
    address no position: a write through them is a no-op (NumPy's meaning; no growth is ever combined with them)
    ``{"f": "lin", "i": int}`` · ``{"f": "linlist", "i": [...]}`` · ``{"f": "linarr", "i": [...]}`` ·
    ``{"f": "linslice", "s": [start, stop(, step)]}``   linear index forms (first index fastest)
rhs
    ``{"r": "scalar", "v": float, "int": bool}``          scalar (python float, python int when "int",
                                                           numpy.float64 when "np")
    ``{"r": "vec", "v": [...]}``                           one value per subscript row / linear index
                                                           ("idt": true = held in an int64 array; also for "array")
    ``{"r": "array", "v": [...F-order...], "as": "ndarray"|"tensor", "sp": "sorted"|"reverse"}``
                                                           array of the region's kept-mode shape
"""

from __future__ import annotations

import itertools
from typing import Any, Dict, List, Optional, Sequence, Tuple

import numpy as np

import pyttb as ttb


# --------------------------------------------------------------------------
# key geometry
# --------------------------------------------------------------------------


def is_int(e) -> bool:
    return isinstance(e, (int, np.integer)) and not isinstance(e, bool)


def elem_kind(e) -> str:
    if is_int(e):
        return "int"
    if "s" in e:
        return "slice"
    if "l" in e:
        return "list"
    return "arr"


def slice_of(e) -> slice:
    """python slice of a slice element / linear slice key ({"s": [start, stop]} or {"s": [start, stop, step]})"""
    s = e["s"]
    return slice(s[0], s[1], s[2] if len(s) > 2 else None)


def slice_plain(e) -> bool:
    """unit step and no negative bound: the only slice form the docstring examples show"""
    sl = slice_of(e)
    return sl.step in (None, 1) and (sl.start is None or sl.start >= 0) and (sl.stop is None or sl.stop >= 0)


def slice_classes(e, cur: Optional[int] = None) -> List[str]:
    """labels: stepped / reversed / negative-bound / beyond-extent (clipped) / plain"""
    sl = slice_of(e)
    out = []
    if sl.step is not None and sl.step < 0:
        out.append("slice-reversed")
    if sl.step not in (None, 1, -1):
        out.append("slice-stepped")
    if (sl.start is not None and sl.start < 0) or (sl.stop is not None and sl.stop < 0):
        out.append("slice-negative-bound")
    return out or ["slice-plain"]


def elem_list(e) -> List[int]:
    return list(e["l"]) if "l" in e else list(e["a"])


def elem_extent(e, cur: Optional[int]) -> int:
    """Smallest mode size that contains everything the key element addresses (cur = present size or None)."""
    k = elem_kind(e)
    if k == "int":
        return e + 1 if e >= 0 else (cur or 0)
    if k == "slice":
        sl = slice_of(e)
        if slice_plain(e):
            if sl.stop is None:
                assert cur is not None, "unbounded slice on a new mode"
                return cur
            return sl.stop
        # general slice: a negative step, a negative stop or no stop never reach beyond the present extent (python
        # clips); a positive step with a stop beyond it addresses start, start+step, ... < stop in the grown mode
        assert cur is not None, "general slice on a new mode"
        if (sl.step is not None and sl.step < 0) or sl.stop is None or sl.stop <= cur:
            return cur
        idx = range(sl.stop)[sl]
        return max(cur, idx[-1] + 1) if len(idx) else cur
    lst = elem_list(e)
    return (max(lst) + 1) if lst else (cur or 0)  # an empty index list addresses nothing


def grown_shape(shape: Sequence[int], key: Dict[str, Any]) -> List[int]:
    """Shape after an assignment with ``key`` (max of present shape and key extent; trailing modes appended)."""
    shape = list(shape)
    f = key["f"]
    if f == "tuple":
        out = []
        for m, e in enumerate(key["k"]):
            cur = shape[m] if m < len(shape) else None
            ext = elem_extent(e, cur)
            out.append(max(cur or 0, ext))
        return out
    if f == "subs":
        rows = key["rows"]
        if not rows:
            return shape  # a subscript array without rows addresses nothing
        M = len(rows[0])
        out = []
        for m in range(M):
            ext = max(r[m] for r in rows) + 1
            out.append(max(shape[m] if m < len(shape) else 0, ext))
        return out
    return shape  # linear forms never grow


def elem_indices(e, old: Optional[int], new: int) -> List[int]:
    """Indices addressed along one mode; negative ints count from the end of the *present* extent."""
    k = elem_kind(e)
    if k == "int":
        return [e if e >= 0 else e + old]
    if k == "slice":
        return list(range(new)[slice_of(e)])
    return elem_list(e)


def region_indices(shape: Sequence[int], key, new_shape: Optional[Sequence[int]] = None) -> List[List[int]]:
    new_shape = list(new_shape) if new_shape is not None else list(shape)
    out = []
    for m, e in enumerate(key["k"]):
        old = shape[m] if m < len(shape) else None
        out.append(elem_indices(e, old, new_shape[m]))
    return out


def kept_shape(shape: Sequence[int], key, new_shape: Optional[Sequence[int]] = None) -> List[int]:
    idx = region_indices(shape, key, new_shape)
    return [len(ix) for ix, e in zip(idx, key["k"]) if elem_kind(e) != "int"]


def lin_positions(shape: Sequence[int], key) -> List[int]:
    n = int(np.prod(shape))
    f = key["f"]
    if f == "lin":
        return [key["i"] % n if key["i"] < 0 else key["i"]]
    if f in ("linlist", "linarr"):
        return [i + n if i < 0 else i for i in key["i"]]
    if f == "linslice":
        return list(range(n)[slice_of(key)])
    raise ValueError(f)


def lin_to_sub(i: int, shape: Sequence[int]) -> List[int]:
    out = []
    for n in shape:
        out.append(i % n)
        i //= n
    return out


def positions(shape: Sequence[int], key, write: bool = True) -> List[List[int]]:
    """All addressed subscripts (of the grown shape when writing; a read never grows, slice bounds beyond the extent are
    clipped), in the order the values of a vector / F-ordered region right-hand side correspond to them."""
    f = key["f"]
    if f == "subs":
        return [list(r) for r in key["rows"]]
    if f == "tuple":
        new = grown_shape(shape, key) if write else list(shape)
        idx = region_indices(shape, key, new)
        rev = itertools.product(*[ix for ix in reversed(idx)])
        return [list(reversed(r)) for r in rev]
    return [lin_to_sub(i, shape) for i in lin_positions(shape, key)]


# --------------------------------------------------------------------------
# the model
# --------------------------------------------------------------------------


def grow(A: np.ndarray, new_shape: Sequence[int]) -> np.ndarray:
    new_shape = tuple(int(n) for n in new_shape)
    if new_shape == A.shape:
        return A
    B = np.zeros(new_shape, dtype=float)
    src = A.reshape(A.shape + (1,) * (len(new_shape) - A.ndim))
    B[tuple(slice(0, n) for n in src.shape)] = src
    return B


def rhs_values(rhs, count: int) -> np.ndarray:
    if rhs["r"] == "scalar":
        return np.full(count, float(rhs["v"]))
    v = np.array(rhs["v"], dtype=float)
    assert v.size == count, (v.size, count)
    return v


def model_write(A: np.ndarray, key, rhs) -> np.ndarray:
    """Array after ``X[key] = rhs`` (returns a new array)."""
    pos = positions(A.shape, key)
    vals = rhs_values(rhs, len(pos))
    B = grow(A, grown_shape(A.shape, key)).copy()
    for p, v in zip(pos, vals):
        B[tuple(p)] = v
    return B


def model_read(A: np.ndarray, key):
    """('scalar', v) | ('vector', 1-D array) | ('region', array of the kept-mode shape)."""
    f = key["f"]
    if f == "tuple":
        idx = region_indices(A.shape, key)
        sub = A[np.ix_(*idx)]
        kept = [len(ix) for ix, e in zip(idx, key["k"]) if elem_kind(e) != "int"]
        if not kept:
            return "scalar", float(sub.reshape(-1)[0])
        return "region", sub.reshape(tuple(kept))
    pos = positions(A.shape, key)
    v = np.array([A[tuple(p)] for p in pos], dtype=float)
    if f == "lin":
        return "scalar", float(v[0])
    return "vector", v


# --------------------------------------------------------------------------
# concrete pyttb keys / values
# --------------------------------------------------------------------------


# (round 4) how the caller presents a valid key / value: the integer dtype of subscript / index arrays and of numpy
# integer scalars (key["dt"]), read-only and non-contiguous (strided) array views (key["mem"] / rhs["mem"]), float32
# value arrays (rhs["f32"], integer-valued data only: exact in single precision), numpy scalar right-hand sides
# (rhs["nps"]).  The request is the same; the answer must be the same.
DTYPES = {"int64": np.int64, "int32": np.int32, "uint8": np.uint8, "uint16": np.uint16, "uint64": np.uint64,
          "intp": np.intp, "float32": np.float32}


def present(arr: np.ndarray, mem: Optional[str]) -> np.ndarray:
    """the same array as a non-contiguous view of a larger one ('strided') and / or read-only ('ro')"""
    if not mem:
        return arr
    if "strided" in mem and arr.ndim >= 1 and arr.size:
        big = np.zeros((2 * arr.shape[0],) + arr.shape[1:], dtype=arr.dtype)
        big[::2] = arr
        arr = big[::2]
    if "ro" in mem:
        arr = arr.view()
        arr.flags.writeable = False
    return arr


def _key_dtype(key, values) -> type:
    dt = DTYPES.get(key.get("dt") or "", int)
    if dt in (np.uint8, np.uint16, np.uint64) and any(int(v) < 0 for v in values):
        return np.int32  # a negative index has no unsigned spelling
    return dt


def py_key(key):
    f = key["f"]
    mem = key.get("mem")
    if f == "tuple":
        out = []
        for e in key["k"]:
            k = elem_kind(e)
            if k == "int":
                out.append(_key_dtype(key, [e])(e) if key.get("np") else int(e))
            elif k == "slice":
                out.append(slice_of(e))
            elif k == "list":
                out.append([int(i) for i in e["l"]])
            else:
                out.append(present(np.array(e["a"], dtype=_key_dtype(key, e["a"])), mem))
        return tuple(out)
    if f == "subs":
        rows = key["rows"]
        dt = _key_dtype(key, [i for r in rows for i in r])
        return present(np.array(rows, dtype=dt).reshape(len(rows), len(rows[0]) if rows else int(key["ncols"])), mem)
    if f == "lin":
        return _key_dtype(key, [key["i"]])(key["i"]) if key.get("np") else int(key["i"])
    if f == "linlist":
        return [int(i) for i in key["i"]]
    if f == "linarr":
        return present(np.array(key["i"], dtype=_key_dtype(key, key["i"])), mem)
    if f == "linslice":
        return slice_of(key)
    raise ValueError(f)


def arr_F(shape, data) -> np.ndarray:
    return np.reshape(np.array(data, dtype=float), tuple(shape), order="F")


def py_rhs(rhs, holder: str, region_shape: Optional[Sequence[int]] = None):
    """Right-hand side object in the form documented for ``holder`` ('T' dense, 'S' sparse)."""
    r = rhs["r"]
    mem = rhs.get("mem")
    if r == "scalar":
        if rhs.get("nps"):
            return DTYPES[rhs["nps"]](rhs["v"])  # a numpy scalar (integer-valued: exact in every type used)
        if rhs.get("int"):
            return int(rhs["v"])
        return np.float64(rhs["v"]) if rhs.get("np") else float(rhs["v"])
    dt = np.int64 if rhs.get("idt") else (np.float32 if rhs.get("f32") else float)
    if r == "vec":
        v = np.array(rhs["v"], dtype=float).astype(dt)
        if holder == "S":
            return present(v.reshape(-1, 1), mem)
        return [x.item() for x in v] if rhs.get("as") == "list" else present(v, mem)
    if r == "array":
        A = arr_F(region_shape, rhs["v"])
        if holder == "T":
            B = np.array(A, order="F").astype(dt, order="F")
            return ttb.tensor(B, tuple(region_shape)) if rhs.get("as") == "tensor" else present(B, mem)
        nz = [(list(s), float(A[s])) for s in _subs_F(A.shape) if A[s] != 0]
        if rhs.get("sp") == "reverse":
            nz = nz[::-1]
        if not nz:
            return ttb.sptensor(shape=tuple(region_shape))
        subs = np.array([s for s, _ in nz], dtype=int).reshape(len(nz), len(region_shape))
        vals = np.array([v for _, v in nz], dtype=float).astype(dt).reshape(-1, 1)
        return ttb.sptensor(subs, vals, tuple(region_shape))
    raise ValueError(r)


def _subs_F(shape):
    rev = itertools.product(*[range(n) for n in reversed(shape)])
    return [tuple(reversed(r)) for r in rev]


def as_subs(shape: Sequence[int], key, rhs=None):
    """The same addressed positions (and values) as a p x M subscript-array operation."""
    pos = positions(shape, key, write=rhs is not None)
    k2 = dict(f="subs", rows=pos)
    if not pos:
        k2["ncols"] = len(key["k"]) if key["f"] == "tuple" else (key.get("ncols") or len(shape))
    if rhs is None:
        return k2, None
    if rhs["r"] == "scalar":
        return k2, dict(rhs)
    return k2, dict(r="vec", v=[float(x) for x in rhs["v"]])


def bounded(shape: Sequence[int], key):
    """Region key with every slice given explicit start and stop (same positions)."""
    out = []
    for m, e in enumerate(key["k"]):
        if elem_kind(e) == "slice" and slice_plain(e):
            cur = shape[m] if m < len(shape) else None
            a, b = e["s"][0], e["s"][1]
            out.append(dict(s=[0 if a is None else a, cur if b is None else b]))
        else:
            out.append(e)
    return dict(key, k=out)


# --------------------------------------------------------------------------
# classes of keys (used for labels, exclusion by construction and known-finding tags)
# --------------------------------------------------------------------------


def n_lists(key) -> int:
    return sum(1 for e in key["k"] if elem_kind(e) in ("list", "arr"))


def advanced_split(key) -> bool:
    """NumPy 'advanced' entries (ints and index lists) separated by a slice, with at least one list."""
    kinds = [elem_kind(e) for e in key["k"]]
    if not any(k in ("list", "arr") for k in kinds):
        return False
    adv = [i for i, k in enumerate(kinds) if k != "slice"]
    return len(adv) >= 2 and (adv[-1] - adv[0] + 1) != len(adv)


def key_label(key) -> str:
    f = key["f"]
    if f != "tuple":
        return f
    kinds = {elem_kind(e) for e in key["k"]}
    if kinds == {"int"}:
        return "full-subscript"
    return "region"


# --------------------------------------------------------------------------
# classes in which pyttb is known to break the property (see known_findings/C04.json).  Each function is a
# pure function of the operation and of the state it meets; the cells put the tag into the clause name, so a
# failure outside these classes can never be matched by a known finding.
# --------------------------------------------------------------------------


def long_lists(key) -> int:
    """index lists that do not broadcast against every other list (length other than one; an empty list included)"""
    return sum(1 for e in key["k"] if elem_kind(e) in ("list", "arr") and len(elem_list(e)) != 1)


def has_empty_list(key) -> bool:
    return key["f"] == "tuple" and any(elem_kind(e) in ("list", "arr") and not elem_list(e) for e in key["k"])


def dense_tags(op: str, shape: Sequence[int], key, rhs=None) -> List[str]:
    """op: 'read' | 'write'."""
    tags = []
    if key["f"] != "tuple":
        if (op == "write" and rhs is not None and rhs["r"] == "vec" and rhs.get("as") == "list"
                and len(positions(shape, key)) == 1):
            tags.append("single-row-list")
        if op == "write" and key["f"] == "subs" and not key["rows"]:
            tags.append("empty-subs")
        if op == "write" and key["f"] == "linlist" and not key["i"]:
            tags.append("empty-linlist")
        return tags
    if op == "write" and has_empty_list(key):
        tags.append("empty-list")
    if long_lists(key) >= 2 or (n_lists(key) >= 2 and op == "write" and rhs is not None and rhs["r"] == "array"):
        tags.append("lists-paired")
    elif advanced_split(key) and (op == "read" or (rhs is not None and rhs["r"] == "array")):
        tags.append("adv-split")
    if op == "write":
        for m, e in enumerate(key["k"]):
            if (elem_kind(e) == "slice" and slice_plain(e) and e["s"][1] is None and m < len(shape)
                    and shape[m] == 1):
                tags.append("open-slice-singleton")
                break
    return tags


def _buggy_m_consulted_wrong(shape: Sequence[int], key, region_shape: Sequence[int]) -> bool:
    """sptensor right-hand side: pyttb's running index ``m`` into value.shape is not advanced after an index
    list; True when a later key element therefore reads a different extent than the right one and the
    difference matters (size check of a later list, growth of a later open slice)."""
    m_bug = 0
    m_true = 0
    for n, e in enumerate(key["k"]):
        k = elem_kind(e)
        if k == "int":
            continue
        if k == "slice":
            if e["s"][1] is None and m_bug != m_true:
                cur = shape[n] if n < len(shape) else 0
                right = max(cur, region_shape[m_true]) if n < len(shape) else region_shape[m_true]
                wrong = max(cur, region_shape[m_bug]) if n < len(shape) else region_shape[m_bug]
                if right != wrong:
                    return True
            m_bug += 1
            m_true += 1
        else:
            if m_bug != m_true and len(elem_list(e)) != region_shape[m_bug]:
                return True
            m_true += 1
    return False


def sparse_tags(op: str, shape: Sequence[int], key, rhs, stored_subs: np.ndarray,
                stored_shape: Optional[Sequence[Any]] = None) -> List[str]:
    """stored_subs / stored_shape: S.subs and S.shape before the operation (public attributes), used only to
    know which stored row holds which subscript and whether an extent is held as a NumPy integer."""
    tags = []
    f = key["f"]
    nstored = 0 if stored_subs is None or np.size(stored_subs) == 0 else int(np.shape(stored_subs)[0])
    if (op == "write" and f == "tuple" and key.get("dt") in ("uint8", "uint16", "uint64")
            and ((key.get("np") and any(is_int(e) for e in key["k"])) or any(elem_kind(e) == "arr" for e in key["k"]))
            and list(grown_shape(shape, key)) != list(shape)):
        # (round 4) growth through an unsigned numpy scalar / unsigned index array leaves an unsigned entry in S.shape
        tags.append("unsigned-key-growth")
    if op == "read":
        if f == "tuple" and any(elem_kind(e) == "arr" and len(e["a"]) >= 2 for e in key["k"]):
            tags.append("ndarray-list-read")
        return tags
    if f == "subs" and not key["rows"]:
        return ["empty-subs"]
    if rhs is not None and rhs["r"] == "scalar" and rhs.get("nps"):
        tags.append("np-scalar-rhs")  # (round 4) numpy integer / float32 scalars are refused by sptensor assignments
    if f == "subs" and key.get("dt") == "uint64" and all(i >= 0 for r in key["rows"] for i in r):
        tags.append("uint64-subs")  # (round 4) unsigned 64-bit subscripts end up in a float64 subs array
    if f == "tuple" and has_empty_list(key):
        tags.append("empty-list")
    if f == "subs":
        rows = sorted(tuple(r) for r in key["rows"])  # pyttb sorts the batch (np.unique)
        byrow = dict(zip([tuple(r) for r in key["rows"]], rhs_values(rhs, len(key["rows"]))))
        vals = [byrow[r] for r in rows]
        M = len(rows[0])
        if M > len(shape) and nstored > 0:
            tags.append("order-growth-ones")
        zeros = [v == 0 for v in vals]
        if any(zeros) and not all(zeros):
            tags.append("mixed-batch")
        elif all(zeros) and nstored > 0:
            pad = (0,) * (M - len(shape))  # where the stored rows belong once the order has grown
            stored = {tuple(int(x) for x in r) + pad: i for i, r in enumerate(np.asarray(stored_subs))}
            where = [stored.get(r) for r in rows]
            hit = [w for w in where if w is not None]
            if hit and not (len(hit) == len(rows) and sorted(hit) == list(range(len(rows)))):
                tags.append("subs-delete")
        return tags
    if f == "tuple" and rhs["r"] == "array":
        new = grown_shape(shape, key)
        rs = kept_shape(shape, key, new)
        if len(key["k"]) > len(shape) and nstored > 0:
            tags.append("sprhs-order-growth")
        if _buggy_m_consulted_wrong(shape, key, rs):
            tags.append("sprhs-list-extent")
        if any(elem_kind(e) == "slice" and not slice_plain(e) for e in key["k"]):
            tags.append("sprhs-slice-form")
        ints = [(m, e) for m, e in enumerate(key["k"]) if is_int(e)]
        if (key.get("np") and ints) or (stored_shape is not None and any(
            e < 0 and m < len(stored_shape) and type(stored_shape[m]) is not int for m, e in ints
        )):
            tags.append("sprhs-npint")
    return tags
