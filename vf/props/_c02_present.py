"""C02 cells (round 4): how the caller presents valid arguments, the state after a refused request, the process
environment.

  C02/present/args/<holder>   the ordinary case of a drawn operation (same strategy, same body, same reference) with the arguments
                              typed the way other callers type them: mode numbers / mode lists as int32 / uint8 / uint16 /
                              uint32 / uint64 / int16 / int64 arrays, as numpy integer scalars of those widths where one
                              mode is named (``for n in np.arange(N, dtype=...)``), as tuples, as lists of numpy integers;
                              vectors / matrices / factor matrices / scaling factors as read-only arrays, views with
                              negative or wide strides, F-ordered copies, single-precision arrays; the multiplicand list
                              as a tuple; optionally with the root logger at DEBUG.  The oracle is the one of the ordinary
                              cell: the defining sum in NumPy on the array the case denotes, so two presentations of one
                              request are both held to the same answer.  Operands shown in single precision have their
                              values rounded to float32 in the case (the cast is lossless) and are judged with the
                              single-precision unit (2**29 x the double one) and never exactly.
  C02/present/holder/<kind>   (+ sptensor-roomy) the receiver itself as other callers build it: dense data in float32, sparse values in
                              float32, sparse subscripts in int32 (scipy COO coordinates) / uint8 / uint16 / uint32 / uint64,
                              the shape as an array of a narrow integer type or a tuple of numpy integers, read-only
                              buffers; one operation of the property is then applied with ordinary arguments.
  C02/refused/<holder>        (class 12) a product request that cannot be carried out (a multiplicand of the wrong length,
                              a mode out of range, mismatched contraction sizes, too many multiplicands ...) is made on
                              freshly built operands.  Whether and how it is refused is C19's business; here: after the
                              call - refused or not - the receiver and every other operand are what they were (same
                              attributes bit for bit, same array), and the valid request made next on the same objects
                              gives the defining sum.
"""

from __future__ import annotations

import contextlib
import copy
import logging

import numpy as np
from hypothesis import strategies as st

import pyttb as ttb

from .. import gen, ref
from ..core import cell
from . import _c02_common as cm
from . import _c02_modes as md
from . import _c02_mttkrp as mk
from . import _c02_pairs as pr
from . import _c02_unary as un


# --------------------------------------------------------------------------
# presentations
# --------------------------------------------------------------------------

_DIMS = list(cm.DIM_FORMS) + ["int32", "uint8", "uint64"]  # the widths ordinary sources produce most, twice
_MULT = list(cm.MULT_FORMS) + ["readonly", "float32"]


@st.composite
def _pres(draw, single=True, plain_dims=False):
    forms = [f for f in _MULT if single or not f.startswith("float32")]
    mult = draw(st.lists(st.sampled_from(forms), min_size=1, max_size=3))
    if single and any(f.startswith("float32") for f in mult):
        # single precision is a property of the caller's data: every array operand of the call is shown in it
        mult = [f if f.startswith("float32") else "float32" for f in mult]
    return dict(dims=None if plain_dims else draw(st.sampled_from(_DIMS)), mult=mult,
                container=draw(st.sampled_from(["list", "tuple"])), env=draw(st.sampled_from([None, None, "debug-logging"])),
                positional=draw(st.booleans()), U_nocopy=draw(st.booleans()))


def _r32(x):
    """the values of a nested list rounded to single precision (so that showing them as float32 loses nothing)"""
    if isinstance(x, list):
        return [_r32(y) for y in x]
    return float(np.float32(x))


def _presented(base, value_paths, single=True):
    """strategy: a case of ``base`` plus a presentation; the values under ``value_paths`` are rounded to float32 when
    the presentation shows array operands in single precision"""

    @st.composite
    def s(draw, tier):
        case = draw(base(tier))
        p = draw(_pres(single=single))
        if any(f.startswith("float32") for f in p["mult"]):
            for path in value_paths:
                d = case
                for k in path[:-1]:
                    d = d.get(k) if isinstance(d, dict) else None
                    if d is None:
                        break
                if isinstance(d, dict) and d.get(path[-1]) is not None:
                    d[path[-1]] = _r32(d[path[-1]])
            for smp in case.get("samples") or []:  # reconstruct: matrices among the samples
                if smp.get("kind") == "matrix":
                    smp["value"] = _r32(smp["value"])
        case["pres"] = p
        return case

    return s


@contextlib.contextmanager
def _environment(case):
    """the process environment the presentation names: root logger at DEBUG with a handler that swallows the records
    (core.evaluate disables logging below CRITICAL for the run; it is re-enabled here and put back afterwards)"""
    env = (case.get("pres") or {}).get("env")
    if env != "debug-logging":
        yield
        return
    root = logging.getLogger()
    level, disabled, handlers = root.level, root.manager.disable, root.handlers[:]
    try:
        root.handlers[:] = [logging.NullHandler()]  # (a stderr handler may have been installed by logging.warning)
        root.setLevel(logging.DEBUG)
        logging.disable(logging.NOTSET)
        yield
    finally:
        logging.disable(disabled)
        root.setLevel(level)
        root.handlers[:] = handlers


# operation -> (base strategy factory taking the holder class, or a tier strategy; body; value paths rounded for float32;
#               may array operands be shown in single precision?)
_ARG_OPS = {
    "ttv": (md._ttv_strategy, md.ttv_body, [("vecs",)], True),
    "ttm": (md._ttm_strategy, md.ttm_body, [("mats",)], True),
    "mttkrp": (mk._strategy, mk.mttkrp_body, [("U", "factors"), ("U", "weights")], True),
    "mttkrps": (lambda kind: mk._mttkrps_strategy, mk.mttkrps_tensor, [("U", "factors"), ("U", "weights")], True),
    "ttt": (lambda kind: pr._ttt_strategy, pr.ttt_tensor, [], False),
    "scale": (pr._scale_strategy, pr.scale_body, [("fdata",)], True),
    "collapse": (un._collapse_strategy, un.collapse_body, [], False),
    "contract": (un._contract_strategy, un.contract_body, [], False),
    "ttsv": (lambda kind: un._ttsv_strategy, un.ttsv_body, [("v",)], True),
    "reconstruct": (lambda kind: un._reconstruct_strategy, un.reconstruct_ttensor, [], True),
}
ARG_OPS = {
    "tensor": ("ttv", "ttm", "mttkrp", "ttt", "scale", "collapse", "contract", "ttsv", "mttkrps"),
    "sptensor": ("ttv", "ttm", "mttkrp", "scale", "collapse", "contract"),
    "ktensor": ("ttv", "mttkrp"), "ttensor": ("ttv", "ttm", "mttkrp", "reconstruct"), "sumtensor": ("ttv", "mttkrp"),
}


def _arg_strategy(kind):
    subs = {op: _presented(_ARG_OPS[op][0](kind), _ARG_OPS[op][2], _ARG_OPS[op][3]) for op in ARG_OPS[kind]}

    @st.composite
    def s(draw, tier):
        op = draw(st.sampled_from(ARG_OPS[kind]))
        case = draw(subs[op](tier))
        case["rop"] = op
        return case

    return s


def args_body(ctx, case):
    """the ordinary case of the drawn operation, its arguments typed as another caller types them"""
    ctx.label("op-" + case["rop"])
    with _environment(case):
        _ARG_OPS[case["rop"]][1](ctx, case)


for _k, (_q, _t) in {"tensor": (1100, 9000), "sptensor": (800, 6000), "ktensor": (260, 2000), "ttensor": (500, 4000),
                     "sumtensor": (240, 1800)}.items():
    cell(f"C02/present/args/{_k}", strategy=_arg_strategy(_k), quick=_q, thorough=_t, shards=(4 if _q > 600 else 2, 8))(args_body)


# --------------------------------------------------------------------------
# the receiver (and a second dense / sparse tensor) as other callers build it
# --------------------------------------------------------------------------


def _holder_presented(base):
    @st.composite
    def s(draw, tier):
        case = draw(base(tier))
        single = [cm.present_holder(draw, case[k]) for k in ("X", "Y") if isinstance(case.get(k), dict)]
        if case.get("wkind") in ("tensor", "sptensor") and draw(st.booleans()):
            case["whpres"] = draw(cm.holder_presentation(case["wkind"]))  # the mask tensor
        if case.get("fkind") in ("tensor", "sptensor") and draw(st.booleans()):
            case["fhpres"] = draw(cm.holder_presentation(case["fkind"]))  # the scaling factor as a tensor object
            if case["fhpres"]["f32"]:
                case["fdata"] = _r32(case["fdata"])
                single.append(True)
            case["fstate"] = None
        case["pres"] = dict(dims=None, mult=None, container="list", env=draw(st.sampled_from([None, None, "debug-logging"])),
                            data32=any(single))
        return case

    return s


_HOLDER_OPS = {
    "ttv": (md._ttv_strategy, md.ttv_body), "ttm": (md._ttm_strategy, md.ttm_body), "mttkrp": (mk._strategy, mk.mttkrp_body),
    "innerprod": (pr._inner_strategy, pr.innerprod_body), "norm": (un._norm_strategy, un.norm_body),
    "collapse": (un._collapse_strategy, un.collapse_body), "contract": (un._contract_strategy, un.contract_body),
    "scale": (pr._scale_strategy, pr.scale_body), "mask": (pr._mask_strategy, pr.mask_body),
    "ttt": (lambda kind: pr._ttt_strategy, pr.ttt_tensor), "ttsv": (lambda kind: un._ttsv_strategy, un.ttsv_body),
    "mttkrps": (lambda kind: mk._mttkrps_strategy, mk.mttkrps_tensor),
}
HOLDER_OPS = {
    "tensor": ("ttv", "ttm", "mttkrp", "innerprod", "norm", "collapse", "contract", "scale", "mask", "ttt", "ttsv", "mttkrps"),
    "sptensor": ("ttv", "ttm", "mttkrp", "innerprod", "norm", "collapse", "contract", "scale", "mask"),
    "ktensor": ("ttv", "mttkrp", "innerprod", "norm", "mask"), "ttensor": ("ttv", "ttm", "mttkrp", "innerprod", "norm"),
    "sumtensor": ("ttv", "mttkrp", "innerprod"),
}


def _holder_strategy(kind):
    subs = {op: _holder_presented(_HOLDER_OPS[op][0](kind)) for op in HOLDER_OPS[kind]}

    @st.composite
    def s(draw, tier):
        op = draw(st.sampled_from(HOLDER_OPS[kind]))
        case = draw(subs[op](tier))
        case["rop"] = op
        return case

    return s


def holder_body(ctx, case):
    """the ordinary case of the drawn operation on a receiver built the way another caller builds it"""
    ctx.label("op-" + case["rop"])
    with _environment(case):
        _HOLDER_OPS[case["rop"]][1](ctx, case)


for _k, (_q, _t) in {"tensor": (480, 4000), "sptensor": (400, 3200), "ktensor": (160, 1200), "ttensor": (160, 1200),
                     "sumtensor": (110, 800)}.items():
    cell(f"C02/present/holder/{_k}", strategy=_holder_strategy(_k), quick=_q, thorough=_t, shards=(2, 4))(holder_body)


# --------------------------------------------------------------------------
# (class 12 / 14) the state after a request that cannot be carried out
# --------------------------------------------------------------------------

REFUSED_OPS = {
    "tensor": ("ttv", "scale", "mttkrp", "ttm", "ttt", "collapse", "contract", "innerprod"),
    "sptensor": ("ttv", "scale", "mttkrp", "ttm", "collapse", "contract", "innerprod"),
    "ktensor": ("mttkrp", "ttv", "innerprod"), "ttensor": ("ttv", "mttkrp", "ttm", "innerprod"),
    "sumtensor": ("mttkrp", "ttv", "innerprod"),
}
BAD = {
    "ttv": ("vector-length-1", "vector-too-long", "mode-repeated", "vector-as-column", "mode-out-of-range", "vector-too-short",
            "one-vector-too-many", "mode-negative"),
    "ttm": ("matrix-too-wide", "mode-repeated", "mode-out-of-range", "matrix-is-vector"),
    "mttkrp": ("factor-one-row", "factor-too-many-rows", "n-out-of-range", "one-factor-missing", "factor-other-rank"),
    "scale": ("factor-length-1", "factor-too-long", "mode-out-of-range"),
    "collapse": ("mode-repeated", "mode-out-of-range", "mode-negative"),
    "contract": ("sizes-differ", "same-mode-twice", "mode-out-of-range"),
    "innerprod": ("other-longer-mode", "other-extra-mode"),
    "ttt": ("lists-of-different-length", "sizes-differ", "mode-out-of-range"),
}
_BASE = {"ttv": md._ttv_strategy, "ttm": md._ttm_strategy, "mttkrp": mk._strategy, "scale": pr._scale_strategy,
         "collapse": un._collapse_strategy, "contract": un._contract_strategy, "innerprod": pr._inner_strategy}
_BODY = {"ttv": md.ttv_body, "ttm": md.ttm_body, "mttkrp": mk.mttkrp_body, "scale": pr.scale_body, "collapse": un.collapse_body,
         "contract": un.contract_body, "innerprod": pr.innerprod_body, "ttt": pr.ttt_tensor}


def _refused_strategy(kind):
    @st.composite
    def s(draw, tier):
        op = draw(st.sampled_from(REFUSED_OPS[kind]))
        case = draw(pr._ttt_strategy(tier)) if op == "ttt" else draw(_BASE[op](kind)(tier))
        case["rop"] = op
        case["bad"] = draw(st.sampled_from(BAD[op]))
        case["bad_at"] = draw(st.integers(0, 7))
        return case

    return s


def _snap(x):
    """a value that is equal before and after iff the object denotes the same thing with the same parameterisation"""
    if isinstance(x, np.ndarray):
        return ("nd", str(x.dtype), x.shape, x.tobytes(), bool(x.flags.writeable))
    if isinstance(x, ttb.tensor):
        return ("tensor", tuple(int(n) for n in x.shape), _snap(x.data))
    if isinstance(x, ttb.sptensor):
        return ("sptensor", tuple(int(n) for n in x.shape), _snap(x.subs), _snap(x.vals))
    if isinstance(x, ttb.ktensor):
        return ("ktensor", _snap(x.weights), [_snap(f) for f in x.factor_matrices])
    if isinstance(x, ttb.ttensor):
        return ("ttensor", _snap(x.core), [_snap(f) for f in x.factor_matrices])
    if isinstance(x, ttb.sumtensor):
        return ("sumtensor", [_snap(p) for p in x.parts])
    if isinstance(x, (list, tuple)):
        return [_snap(y) for y in x]
    if hasattr(x, "toarray"):
        return ("spmatrix", _snap(np.asarray(x.toarray())))
    return ("other", repr(x))


def _bad_request(case, X):
    """(callable making the ill-formed request on X, the other operands it hands over) or None when this kind of
    ill-formedness does not exist for the case (then another one is used: a mode number equal to the order)"""
    op, bad, at = case["rop"], case["bad"], case["bad_at"]
    h = case["X"]
    shape = h["shape"]
    N = len(shape)
    if op in ("ttv", "ttm"):
        sel = list(case["des"]["sel"])
        j = at % len(sel)
        if op == "ttv":
            ops = [np.array(v, dtype=float) for v in case["vecs"]]
        else:
            ops = [np.array(M, dtype=float).reshape(len(M), shape[m]) for m, M in zip(sel, case["mats"])]
        dims = list(sel)
        if bad in ("vector-too-long", "matrix-too-wide"):
            ops[j] = np.concatenate([ops[j], ops[j][..., :1] * 0 + 3.0], axis=-1)
        elif bad == "vector-too-short":
            if ops[j].size < 2:
                return None
            ops[j] = ops[j][:-1].copy()
        elif bad == "vector-length-1":
            if shape[sel[j]] < 2:
                return None
            ops[j] = ops[j][:1].copy()  # NumPy would broadcast it
        elif bad == "vector-as-column":
            if shape[sel[j]] < 2:
                return None
            ops[j] = ops[j].reshape(-1, 1).copy()
        elif bad == "matrix-is-vector":
            ops[j] = ops[j][0].copy()
        elif bad == "mode-out-of-range":
            dims[j] = N + at % 2
        elif bad == "mode-negative":
            dims[j] = -1 - (at % N)
        elif bad == "mode-repeated":
            if len(sel) < 2:
                return None
            dims[j] = dims[(j + 1) % len(sel)]
        elif bad == "one-vector-too-many":
            ops = ops + [ops[0].copy()]
            if len(ops) == N:  # |dims| + 1 == N reads as "one per tensor mode"
                return None
        f = X.ttv if op == "ttv" else X.ttm
        return (lambda: f(ops, dims=np.array(dims, dtype=int))), ops
    if op == "mttkrp":
        U, _ = mk.build_operand(case["U"], shape)
        n = case["n"]
        if bad == "n-out-of-range":
            return (lambda: X.mttkrp(U, N + at % 2)), U
        k = [m for m in range(N) if m != n][at % (N - 1)]
        if isinstance(U, ttb.ktensor):
            fm = [np.array(f, dtype=float) for f in U.factor_matrices]
        else:
            fm = [np.array(f, dtype=float) for f in U]
        if bad == "factor-too-many-rows":
            fm[k] = np.vstack([fm[k], fm[k][:1]])
        elif bad == "factor-one-row":
            if shape[k] < 2:
                return None
            fm[k] = fm[k][:1].copy()  # NumPy would broadcast it
        elif bad == "factor-other-rank":
            fm[k] = np.hstack([fm[k], fm[k][:, :1]])
        elif bad == "one-factor-missing":
            fm = fm[:-1]
            if not fm:
                return None
        if isinstance(U, ttb.ktensor) and bad in ("factor-too-many-rows", "factor-one-row"):
            U2 = ttb.ktensor(fm, np.array(U.weights, dtype=float))
            return (lambda: X.mttkrp(U2, int(n))), U2
        return (lambda: X.mttkrp(fm, int(n))), fm
    if op == "scale":
        d = case["dims"][0]
        F = np.arange(1.0, shape[d] + 1.0)
        if bad == "factor-too-long":
            return (lambda: X.scale(np.arange(1.0, shape[d] + 2.0), int(d))), F
        if bad == "factor-length-1":
            if shape[d] < 2:
                return None
            return (lambda: X.scale(np.array([2.0]), int(d))), F
        return (lambda: X.scale(F, N + at % 2)), F
    if op == "collapse":
        dims = list(case["dims"])
        if bad == "mode-out-of-range":
            dims[at % len(dims)] = N + at % 2
        elif bad == "mode-negative":
            dims[at % len(dims)] = -1 - (at % N)
        else:
            if len(dims) < 2:
                return None
            dims[0] = dims[1]
        return (lambda: X.collapse(np.array(dims, dtype=int))), []
    if op == "contract":
        i, j = case["i"], case["j"]
        if bad == "same-mode-twice":
            return (lambda: X.contract(int(i), int(i))), []
        if bad == "mode-out-of-range":
            return (lambda: X.contract(int(i), N + at % 2)), []
        other = [m for m in range(N) if shape[m] != shape[i]]
        if not other:
            return None
        return (lambda: X.contract(int(i), int(other[at % len(other)]))), []
    if op == "innerprod":
        Y = cm.build(case["Y"])
        shp = list(shape)
        if bad == "other-longer-mode":
            shp[at % N] += 1
        else:
            shp = shp + [1 + at % 2]
        Z = ttb.tensor(np.ones(tuple(shp)))
        return (lambda: X.innerprod(Z)), [Y, Z]
    if op == "ttt":
        Y = cm.build(case["Y"])
        s2 = case["Y"]["shape"]
        if bad == "sizes-differ":
            pairs = [(a, b) for a in range(N) for b in range(len(s2)) if shape[a] != s2[b]]
            if not pairs:
                return None
            a, b = pairs[at % len(pairs)]
            return (lambda: X.ttt(Y, np.array([a]), np.array([b]))), Y
        if bad == "mode-out-of-range":
            return (lambda: X.ttt(Y, np.array([N]), np.array([0]))), Y
        # (class 14) lists of different lengths over extents of 1: broadcasting would hide the mismatch
        ones_x = [a for a in range(N) if shape[a] == 1]
        ones_y = [b for b in range(len(s2)) if s2[b] == 1]
        if ones_x and len(ones_y) >= 2:
            return (lambda: X.ttt(Y, np.array(ones_x[:1]), np.array(ones_y[:2]))), Y
        if len(s2) >= 2:
            return (lambda: X.ttt(Y, np.array([0]), np.array([0, 1]))), Y
        return None
    return None


def refused_body(ctx, case):
    h = case["X"]
    X = cm.build(h)
    N = len(h["shape"])
    req = _bad_request(case, X)
    bad = case["bad"]
    if req is None:
        bad = "fallback:mode-out-of-range"
        if case["rop"] in ("ttv", "ttm"):
            req = (lambda: getattr(X, case["rop"])([np.ones(2)], dims=np.array([N]))), []
        elif case["rop"] == "mttkrp":
            U0, _ = mk.build_operand(case["U"], h["shape"])
            req = (lambda: X.mttkrp(U0, N)), U0
        elif case["rop"] == "ttt":
            Y0 = cm.build(case["Y"])
            req = (lambda: X.ttt(Y0, np.array([N]), np.array([0]))), Y0
        elif case["rop"] == "contract":
            req = (lambda: X.contract(0, N)), []
        elif case["rop"] == "scale":
            req = (lambda: X.scale(np.ones(2), N)), []
        else:
            req = (lambda: X.collapse(np.array([N]))), []
    call, others = req
    before, before_others = _snap(X), _snap(others)
    outcome = "refused"
    try:
        call()
        outcome = "carried-out"  # whether it must be refused is C19's question, not this property's
    except Exception as e:  # noqa: BLE001
        outcome = "refused-" + type(e).__name__
    ctx.label("request-" + case["rop"], "bad-" + bad, outcome, "refused-on-" + h["holder"])
    ctx.check(_snap(X) == before, "receiver-unchanged-by-refused-request", f"{case['rop']} {bad} {outcome}")
    ctx.check(_snap(others) == before_others, "operands-unchanged-by-refused-request", f"{case['rop']} {bad} {outcome}")
    # the valid request, made next on the very same receiver, is judged as if the refused one had not happened
    orig = cm.build
    cm.build = lambda hh: X if hh is h else orig(hh)
    try:
        _BODY[case["rop"]](ctx, case)
    finally:
        cm.build = orig


for _k in REFUSED_OPS:
    cell(f"C02/refused/{_k}", strategy=_refused_strategy(_k), quick=150, thorough=1200, shards=(1, 4))(refused_body)


# --------------------------------------------------------------------------
# sparse receivers with narrow subscript types whose *cell count* exceeds the type's range
# --------------------------------------------------------------------------
# A subscript array in uint8 / int8 / int16 holds every subscript of a (9, 11, 12) tensor, but not its linear indices
# (up to 1187): index arithmetic carried out in the caller's dtype wraps around.  The ordinary shapes (<= 64 cells at
# the quick tier) never get there.


@st.composite
def _roomy_sparse(draw, shape=None):
    if shape is None:
        N = draw(st.sampled_from([2, 3, 3, 4]))
        lo, hi = {2: (17, 60), 3: (9, 20), 4: (5, 8)}[N]
        shape = [draw(st.integers(lo, hi)) for _ in range(N)]
    shape = list(shape)
    k = draw(st.integers(1, 10))
    corner = [n - 1 for n in shape]
    subs = draw(st.lists(st.tuples(*[st.integers(0, n - 1) for n in shape]), min_size=k, max_size=k, unique=True))
    subs = [list(s) for s in subs]
    if corner not in subs and draw(st.integers(0, 3)) > 0:
        subs[draw(st.integers(0, k - 1))] = corner  # the cell with the largest linear index
    vals = draw(st.lists(gen.values("int", nonzero=True), min_size=k, max_size=k))
    hp = dict(f32=False, shape=draw(st.sampled_from(cm.SHAPE_FORMS)), readonly=draw(st.sampled_from([False, True])),
              subs=draw(st.sampled_from(["uint8", "int8", "uint8", "int16", "uint16", "int32", "uint32"])))
    return dict(holder="sptensor", shape=shape, vkind="int", pattern="few", order="random", subs=subs, vals=vals, hpres=hp)


@st.composite
def _roomy_strategy(draw, tier):
    h = draw(_roomy_sparse())
    shape = h["shape"]
    N = len(shape)
    op = draw(st.sampled_from(["ttm", "ttv", "ttm", "collapse", "mttkrp", "scale", "ttv", "innerprod", "norm"]))
    ints = gen.values("int")
    case = dict(X=h, rop=op, pres=dict(dims=None, mult=None, container="list", env=None))
    if op == "ttv":
        des = draw(cm.designation(N))
        case.update(des=des, vecs=[draw(st.lists(ints, min_size=shape[m], max_size=shape[m])) for m in des["sel"]],
                    vdtypes=[None] * len(des["sel"]), vvkind="int", junk="empty")
    elif op == "ttm":
        m = draw(st.integers(0, N - 1))
        J = draw(st.integers(1, 3))
        case.update(des=dict(form="int", sel=[m], excl=None, container="scalar"), transpose=draw(st.booleans()),
                    mats=[[draw(st.lists(ints, min_size=shape[m], max_size=shape[m])) for _ in range(J)]], mkind="ndarray",
                    mdtypes=[None], mvkind="int", junk="empty")
    elif op == "collapse":
        kk = draw(st.integers(1, N))
        case.update(dims=list(draw(st.permutations(range(N))))[:kk], dform="array", reducer=draw(st.sampled_from(
            ["default", "sumsq-np"])))
    elif op == "mttkrp":
        R = 2
        case.update(n=draw(st.integers(0, N - 1)), n_numpy=False,
                    U=dict(kind="list", rank=R, weights=[1.0] * R, fdtypes=[None] * N, vkind="int", state=None,
                           factors=[draw(st.lists(st.lists(ints, min_size=R, max_size=R), min_size=s, max_size=s)) for s in shape]))
    elif op == "scale":
        d = draw(st.integers(0, N - 1))
        case.update(dims=[d], dform="int", fkind=draw(st.sampled_from(["ndarray", "tensor", "sptensor"])), fshape=[shape[d]],
                    fdata=draw(st.lists(ints, min_size=shape[d], max_size=shape[d])), forder="sorted", fpattern="all",
                    fdtype=None, fvkind="int", fstate=None)
    elif op == "norm":
        case.update(kind="sptensor")
    else:
        # the second operand: a sparse tensor sharing some positions, presented in its own way
        y = draw(_roomy_sparse(shape))
        extra = [s for s in h["subs"][:2] if s not in y["subs"]]
        y["subs"] += extra
        y["vals"] += [2.0] * len(extra)
        case.update(Y=y)
    return case


@cell("C02/present/holder/sptensor-roomy", strategy=_roomy_strategy, quick=240, thorough=2000, shards=(1, 4))
def roomy_sparse(ctx, case):
    """sparse receivers whose subscripts fit a narrow integer type while their linear indices do not"""
    ctx.label("roomy-" + case["rop"], "cells>" + ("1000" if ref.prod(case["X"]["shape"]) > 1000 else "255" if ref.prod(
        case["X"]["shape"]) > 255 else "0"))
    {"ttv": md.ttv_body, "ttm": md.ttm_body, "collapse": un.collapse_body, "mttkrp": mk.mttkrp_body, "scale": pr.scale_body,
     "norm": un.norm_body, "innerprod": pr.innerprod_body}[case["rop"]](ctx, case)
