"""Helpers for C14 (leading mode-n vectors): models with a constructed mode-n spectrum and every holder of the same data."""

from __future__ import annotations

import contextlib
import itertools
import logging

import numpy as np
from hypothesis import strategies as st
from scipy import sparse

import pyttb as ttb

from .. import gen, ref

SEP = 1e-3  # "well separated": consecutive leading eigenvalues differ by at least SEP * lambda_1


# ----------------------------------------------------------------------------------------------------------------
# deterministic expansion of drawn integers into rotations (nuisance parameters: not shrunk, fully replayable)
# ----------------------------------------------------------------------------------------------------------------


def orth(seed, rows, cols):
    """rows x cols matrix with orthonormal columns (cols <= rows), a deterministic function of the integer seed."""
    rng = np.random.default_rng(int(seed))
    M = rng.integers(-4, 5, size=(rows, rows)).astype(float) + 0.25 * np.eye(rows)
    Q, _ = np.linalg.qr(M)
    return Q[:, :cols]


def unfold(A, n):
    """mode-n unfolding, remaining modes in increasing order, first fastest (column order is irrelevant for the Gram)"""
    return np.reshape(np.moveaxis(A, n, 0), (A.shape[n], -1), order="F")


def fold(M, n, shape):
    rest = [shape[k] for k in range(len(shape)) if k != n]
    return np.moveaxis(np.reshape(M, [shape[n]] + rest, order="F"), 0, n)


def gram(A, n):
    Xn = unfold(A, n)
    return Xn @ Xn.T


# ----------------------------------------------------------------------------------------------------------------
# models: case -> dense array
# ----------------------------------------------------------------------------------------------------------------

SPECTRA = ["geometric", "close-pair", "dominant", "rank-deficient", "slow-decay"]


def spectrum(kind, m, scale):
    """m singular values of the mode-n unfolding (eigenvalues of the Gram are their squares)."""
    if kind == "geometric":
        s = [0.5 ** k for k in range(m)]
    elif kind == "close-pair":
        s = [1.0, 0.998] + [0.5 ** k for k in range(1, m - 1)]
    elif kind == "dominant":
        s = [1.0] + [0.05 * 0.6 ** k for k in range(m - 1)]
    elif kind == "rank-deficient":
        keep = max(1, m - 2)
        s = [0.7 ** k for k in range(keep)] + [0.0] * (m - keep)
    elif kind == "steep-tail":
        # 12 decades inside one array: a few well separated leading values, then 1e-5 ... 1e-12
        nl = max(1, min(4, m - 2))
        t = m - nl
        s = [1.0, 0.6, 0.3, 0.1][:nl] + [10.0 ** -(5.0 + 7.0 * j / max(1, t - 1)) for j in range(t)]
    elif kind == "near-threshold":
        # eigenvalue gaps of 1.2e-3 * lambda_1: just above the separation threshold SEP
        nl = min(3, m)
        s = [float(np.sqrt(1.0 - 1.2e-3 * j)) for j in range(nl)] + [0.5 ** (k + 1) for k in range(m - nl)]
    elif kind == "wide-1e-4":
        # singular values 1, 1e-2, 1e-4, then nothing: Gram eigenvalues 1, 1e-4, 1e-8 - single-precision data define all three
        # directions (1e-4 is far above 6e-8), a Gram matrix *formed* in single precision loses the third
        s = [1.0, 1e-2, 1e-4][:m] + [0.0] * max(0, m - 3)
    elif kind == "wide-decades":
        s = [10.0 ** -j for j in range(min(m, 5))] + [0.0] * max(0, m - 5)
    elif kind == "wide-tail":
        s = [1.0, 0.6, 0.3, 3e-3, 1e-4][:m] + [0.0] * max(0, m - 5)
    elif kind == "rank-one":
        s = [1.0] + [0.0] * (m - 1)
    elif kind == "low-rank":
        s = [1.0, 0.5] + [0.0] * max(0, m - 2)
    else:  # slow-decay: gaps of a few percent (beyond 20 values: geometric with ratio 0.9, staying positive and distinct)
        s = [1.0 - 0.04 * k if k < 20 else 0.24 * 0.9 ** (k - 19) for k in range(m)]
    return [float(scale) * x for x in s[:m]]


def dense_of(case):
    """The array every holder of this case denotes."""
    fam = case["family"]
    shape = tuple(case["shape"])
    if fam == "spectral":
        n = case["n"]
        I = shape[n]
        P = ref.prod(shape) // I
        m = min(I, P)
        U = orth(case["useed"], I, I)
        W = orth(case["wseed"], P, m)
        s = np.array(case["sing"], dtype=float)
        return fold((U[:, :m] * s[None, :]) @ W.T, n, shape)
    if fam == "cp":
        w, F = cp_parts(case)
        return ref.den_kruskal(w, F)
    if fam == "sparse":
        return gen.dense_of_sparse_case(case) * float(case.get("vscale", 1.0))
    if fam == "block":
        return block_dense(case)
    if fam == "zero":
        return np.zeros(shape)
    if fam == "tucker":
        core, fm = tucker_parts(case)
        return den_tucker(core, fm)
    if fam == "kruskal":
        w, F = kruskal_parts(case)
        return ref.den_kruskal(w, F)
    if fam == "bigblock":
        return fold(bigblock_unfolding(case), case["n"], shape)
    raise ValueError(fam)


def cp_parts(case):
    """weights, factors of the CP-born model: orthonormal columns carrying `sigma`, plus small generic components."""
    shape = case["shape"]
    R = case["rank"]
    F = [orth(case["fseed"] + 17 * k, I, R) for k, I in enumerate(shape)]
    w = np.array(case["sigma"], dtype=float)
    if case.get("noise"):
        rng = np.random.default_rng(int(case["fseed"]) + 999)
        q = case["noise"]["rank"]
        E = []
        for I in shape:
            M = rng.integers(-3, 4, size=(I, q)).astype(float)
            M[0, :] += 0.5
            M /= np.linalg.norm(M, axis=0, keepdims=True)
            E.append(M)
        F = [np.concatenate([a, b], axis=1) for a, b in zip(F, E)]
        w = np.concatenate([w, np.array(case["noise"]["weights"], dtype=float)])
    return w, F


# ----------------------------------------------------------------------------------------------------------------
# block family: integer data whose mode-n Gram matrix is exactly block diagonal with rank-one blocks, so that the
# leading mode-n vectors have a prescribed *exact* structure (entries summing exactly to zero, few nonzero entries,
# sign symmetry, exact ties in magnitude), in mode sizes above the solvers' internal thresholds
# ----------------------------------------------------------------------------------------------------------------

# coefficient vectors of a block: rows rows[i] of the mode-n unfolding are coef[i] * x on the block's own columns;
# the block contributes the eigenvalue |coef|^2 |x|^2 with eigenvector coef/|coef| (zero elsewhere)
STRUCTS = {
    "sum0-211": [2, -1, -1],           # sums to zero exactly, also after any scaling (power-of-two multiples)
    "sum0-pair": [1, -1],              # two entries, tie in magnitude
    "sum0-signsym": [1, 1, -1, -1],    # sign-symmetric
    "sum0-wide": [1, -1, 1, -1, 1, -1],
    "sum0-generic": [3, -1, -2],       # sums to zero in exact arithmetic only
    "unit": [1],                       # a single entry
    "ones": [1, 1, 1],                 # parallel to the all-ones direction on its support
    "generic": [3, -1, 2],
}
LEAD_STRUCTS = ["sum0-211", "sum0-211", "sum0-pair", "sum0-signsym", "sum0-wide", "sum0-generic", "unit", "ones", "generic"]


def expand_blocks(I, P, structs, rseed, lead_mag):
    """Deterministic expansion of (mode size, unfolding width, block structures, seed) into explicit blocks + filler.
    Eigenvalues decrease with the block index, consecutive ones at least 0.4 % of the first apart as long as the
    integer grid allows; the filler (rows outside every block, columns outside every block) stays far below."""
    rng = np.random.default_rng(int(rseed))
    rows = [int(v) for v in rng.permutation(I)]
    cols = [int(v) for v in rng.permutation(P)]
    blocks = []
    lam_prev = None
    lam0 = None
    for name in structs:
        coef = STRUCTS[name]
        if len(coef) > len(rows) or not cols:
            break
        ncol = int(min(len(cols), rng.integers(1, 4)))
        if len(cols) - ncol < 0:
            break
        c2 = sum(c * c for c in coef)
        small = [int(v) for v in rng.integers(1, 4, size=ncol - 1) * rng.choice([-1, 1], size=ncol - 1)]
        s2 = sum(v * v for v in small)
        if lam_prev is None:
            x0 = int(lead_mag)
        else:
            target = (lam_prev - max(1.0, 0.004 * lam0)) / c2 - s2
            x0 = int(np.floor(np.sqrt(target))) if target >= 1 else 1
            x0 = max(1, x0)
        x = [x0 * int(rng.choice([-1, 1]))] + small
        lam = c2 * (x0 * x0 + s2)
        if lam0 is None:
            lam0 = lam
        lam_prev = min(lam, lam_prev) if lam_prev is not None else lam
        blocks.append(dict(rows=rows[: len(coef)], coef=list(coef), cols=cols[:ncol], x=x, struct=name))
        rows, cols = rows[len(coef):], cols[ncol:]
    filler = []
    if cols and rows:
        for rw in rows[: max(0, len(rows) - 2)]:  # the last two free rows stay empty slices
            for _ in range(int(rng.integers(1, 3))):
                filler.append([rw, int(rng.choice(cols)), int(rng.choice([-1, 1]))])
    return blocks, filler


def block_unfolding(case):
    shape = tuple(case["shape"])
    n = case["n"]
    I = shape[n]
    P = ref.prod(shape) // I
    M = np.zeros((I, P))
    for b in case["blocks"]:
        M[np.ix_(b["rows"], b["cols"])] = np.outer(np.array(b["coef"], dtype=float), np.array(b["x"], dtype=float))
    for rw, cl, v in case["filler"]:
        M[rw, cl] = v
    return M


def block_dense(case):
    return fold(block_unfolding(case), case["n"], tuple(case["shape"])) * float(case.get("vscale", 1.0))


# ----------------------------------------------------------------------------------------------------------------
# round 3: models born as Tucker / Kruskal forms whose factor matrices are exactly special, epsilon-perturbed or
# generic; the all-zero tensor; large block models
# ----------------------------------------------------------------------------------------------------------------

EPS_LIST = [1e-12, 1e-10, 1e-9, 3e-9, 1e-8, 1e-7, 1e-6, 1e-5]
MATRIX_KINDS = ["identity", "permutation", "orthonormal", "diagonal", "unit-columns", "generic"]


def structured_matrix(kind, seed, I, J):
    """I x J matrix of the given structure, a deterministic function of the seed.  identity / permutation / orthonormal
    have exactly (up to the rounding of one QR) orthonormal columns and need I >= J (np.eye(I, J) serves for I < J too);
    diagonal = identity with powers of two; unit-columns = generic columns of norm one; generic = small integers."""
    rng = np.random.default_rng(int(seed))
    if kind in ("permutation", "orthonormal") and I < J:
        kind = "generic"
    if kind == "identity":
        return np.eye(I, J)
    if kind == "permutation":
        p = rng.permutation(I)[:J]
        A = np.zeros((I, J))
        A[p, np.arange(J)] = 1.0
        return A
    if kind == "orthonormal":
        return orth(seed, I, J)
    if kind == "diagonal":
        return np.eye(I, J) * (2.0 ** rng.integers(-3, 4, size=J))[None, :]
    if kind == "unit-columns":
        M = rng.integers(-3, 4, size=(I, J)).astype(float) + 0.5 * np.eye(I, J)
        nrm = np.linalg.norm(M, axis=0)
        M[0, nrm == 0] = 1.0
        return M / np.linalg.norm(M, axis=0, keepdims=True)
    if kind == "generic":
        return rng.integers(-4, 5, size=(I, J)).astype(float) + 0.25 * np.eye(I, J)
    raise ValueError(kind)


def _perturbation(seed, I, J):
    return np.random.default_rng(int(seed) + 7777).uniform(-1.0, 1.0, size=(I, J))


def _spec_matrices(spec, rows, cols, stride):
    """the factor matrices of a Tucker (cols = core shape) or Kruskal (cols = [R]*N) form described by `spec` =
    dict(kind, seed, eps, pmode): structure `kind`, plus eps * (generic matrix) on every factor (pmode None) or on the
    factor of mode pmode only"""
    out = []
    for k, (I, J) in enumerate(zip(rows, cols)):
        A = structured_matrix(spec["kind"], spec["seed"] + stride * k, I, J)
        if spec.get("eps") and (spec.get("pmode") is None or spec["pmode"] == k):
            A = A + float(spec["eps"]) * _perturbation(spec["seed"] + stride * k, I, J)
        out.append(A)
    return out


def tucker_parts(case):
    """core array and factor matrices of the Tucker-born model: core = the model case["core"]; factors by case["tf"];
    `balance` moves powers of two between the factors and the core without changing the denoted array"""
    core = dense_of(case["core"])
    tf = case["tf"]
    fm = _spec_matrices(tf, tf["rows"], core.shape, 101)
    if tf.get("balance"):
        fm = [f * 2.0 ** int(a) for f, a in zip(fm, tf["balance"])]
        core = core * 2.0 ** (-int(sum(tf["balance"])))
    return core, fm


def kruskal_parts(case):
    """weights and factor matrices of the Kruskal-born model (case["kf"], case["weights"]); `balance` moves a power of
    two between weight j and column j of one factor"""
    kf = case["kf"]
    shape = case["shape"]
    R = len(case["weights"])
    F = _spec_matrices(kf, shape, [R] * len(shape), 17)
    w = np.array(case["weights"], dtype=float)
    if kf.get("balance"):
        for j, a in enumerate(kf["balance"]):
            F[j % len(F)][:, j] *= 2.0 ** int(a)
            w[j] *= 2.0 ** (-int(a))
    return w, F


def bigblock_unfolding(case):
    """mode-n unfolding (I x P) of the large block model: nb rank-one blocks on disjoint row and column sets that
    together take (nearly) all rows, so every one of the (I-2)*bcols block entries shapes a leading vector; singular
    values 100 * 0.8**(j/2); `fill` more entries of magnitude 0.02 anywhere outside the last two rows of the row
    permutation (empty slices)"""
    shape = tuple(case["shape"])
    I = shape[case["n"]]
    P = ref.prod(shape) // I
    rng = np.random.default_rng(int(case["bseed"]))
    rows, cols = rng.permutation(I), rng.permutation(P)
    nb, ncol = int(case["nb"]), int(case["bcols"])
    base = (I - 2) // nb
    M = np.zeros((I, P))
    for j in range(nb):
        rj, cj = rows[j * base:(j + 1) * base], cols[j * ncol:(j + 1) * ncol]
        coef = rng.integers(1, 6, size=len(rj)) * rng.choice([-1, 1], size=len(rj))
        x = rng.integers(1, 10, size=len(cj)) * rng.choice([-1, 1], size=len(cj))
        t = 100.0 * 0.8 ** (j / 2.0) / np.sqrt(float(np.sum(coef * coef)) * float(np.sum(x * x)))
        M[np.ix_(rj, cj)] = t * np.outer(coef, x)
    fill = int(case.get("fill", 0))
    if fill:
        fr = rows[rng.integers(0, I - 2, size=fill)]
        fc = rng.integers(0, P, size=fill)
        M[fr, fc] += 0.02 * rng.choice([-1.0, 1.0], size=fill)
    return M * float(case.get("vscale", 1.0))


def case_labels(case):
    """labels of the structure classes of the round-3 families"""
    out = []
    for key, pre in (("tf", "factors-"), ("kf", "kfactors-")):
        sp = case.get(key)
        if sp:
            out.append(pre + sp["kind"])
            if sp.get("eps"):
                out += [pre + "perturbed", f"{pre}eps={sp['eps']:g}", pre + ("perturbed-all-modes" if sp.get("pmode") is None else "perturbed-one-mode")]
            else:
                out.append(pre + "exact")
            if sp.get("balance"):
                out.append(pre + "balanced-powers-of-two")
    if case.get("tf"):
        rows, J = case["tf"]["rows"], case["core"]["shape"]
        out.append("factors-" + ("square" if rows == J else ("tall" if all(a >= b for a, b in zip(rows, J)) else "wide")))
        out.append("core-" + case["core"]["family"])
    if case.get("kf"):
        out.append("weights-" + case.get("wkind", "?"))
        out.append("rank>mode-size" if len(case["weights"]) > min(case["shape"]) else "rank<=mode-sizes")
    return out


# ----------------------------------------------------------------------------------------------------------------
# holders of the same data
# ----------------------------------------------------------------------------------------------------------------


INT_DTYPES = ("int64", "int32", "uint8", "int16", "int8", "uint16", "f16-intvalued", "f32-intvalued")
FLOAT_EXACT = {"f16-intvalued": ("float16", 2048.0), "f32-intvalued": ("float32", 2.0 ** 24)}  # integers these floats hold exactly


def int_dtype_of(case, X):
    """numpy dtype name when the case asks for storage of integer-valued data in an integer dtype or a narrow floating
    dtype and the data allow it (integer valued, in the range the dtype holds exactly), else None"""
    dt = case.get("dtype")
    if dt not in INT_DTYPES or not ref.is_intvalued(X):
        return None
    if dt in FLOAT_EXACT:
        name, lim = FLOAT_EXACT[dt]
        return name if (not X.size or float(np.max(np.abs(X))) <= lim) else None
    info = np.iinfo(dt)
    if X.size and (X.min() < info.min or X.max() > info.max):
        return None
    return dt


def store_dtype_of(case, X):
    """storage dtype the case asks for, where the data allow it: an integer dtype (integer-valued data in range) or
    float32 (any data: the holder then denotes the float32 roundings, which the cells read back with den)"""
    if case.get("dtype") == "float32":
        return "float32"
    return int_dtype_of(case, X)


def is_f32(case):
    return case.get("dtype") == "float32"


def den_tucker(core, factors):
    """core x_0 A_0 x_1 A_1 ... by one mode product after the other (ref.den_tucker is a single einsum whose cost is the
    product of all sizes: fine for small cases, not for mode sizes of 100+)"""
    A = np.asarray(core, dtype=float)
    for k, f in enumerate(factors):
        A = np.moveaxis(np.tensordot(np.asarray(f, dtype=float), A, axes=(1, k)), 0, k)
    return A


def den_sp(S):
    """dense array of a sparse tensor, vectorised (ref.den loops over the nonzeros in Python)"""
    A = np.zeros(tuple(int(v) for v in S.shape))
    if S.subs.size:
        np.add.at(A, tuple(np.asarray(S.subs).T), np.asarray(S.vals, dtype=float).reshape(-1))
    return A


def den(obj):
    """ref.den, extended to Tucker tensors whose factor matrices are scipy coo matrices (the constructor admits them)"""
    if isinstance(obj, ttb.ttensor):
        return den_tucker(den(obj.core), [f.toarray() if sparse.issparse(f) else f for f in obj.factor_matrices])
    if isinstance(obj, ttb.sptensor):
        return den_sp(obj)
    return ref.den(obj)


def den_abs(obj):
    """the array denoted by the absolute values of the attributes: bounds the rounding noise any evaluation of the
    object carries (entries of den(obj) far below it are cancellation noise, not data)"""
    if isinstance(obj, ttb.ktensor):
        return ref.abs_kruskal(obj.weights, obj.factor_matrices)
    if isinstance(obj, ttb.ttensor):
        return den_tucker(np.abs(den(obj.core)), [np.abs(f.toarray() if sparse.issparse(f) else f) for f in obj.factor_matrices])
    return np.abs(den(obj))


def _same(obj, X):
    """the object denotes X (derived states come out of public operations that other properties judge; an operation
    that misbehaves must not turn into a C14 alarm, the holder falls back to the constructor)"""
    try:
        D = den(obj)
    except Exception:  # noqa: BLE001
        return False
    scale = float(np.max(np.abs(X), initial=0.0))
    return D.shape == tuple(X.shape) and float(np.max(np.abs(D - X), initial=0.0)) <= 1e-13 * scale


TENSOR_STATES = ["ctor", "ctor", "grown", "grown", "c-order-input", "round-trip-permute", "from-sptensor", "from-ttensor",
                 "readonly-shared", "strided-view-input"]


def as_tensor(X, case=None):
    """dense holder; returns (object, state label)"""
    case = case or {}
    dt = store_dtype_of(case, X)
    if dt == "float32":
        # single-precision data in the states that keep the dtype: constructor (F / C ordered input, a strided view),
        # a read-only array shared through copy=False, permute round trip
        st32 = case.get("state", "ctor")
        A = np.asfortranarray(X.astype(np.float32))
        try:
            if st32 == "c-order-input":
                return ttb.tensor(np.ascontiguousarray(A)), "dtype-float32,state-c-order-input"
            if st32 == "round-trip-permute" and X.ndim >= 2:
                p = np.roll(np.arange(X.ndim), 1)
                T = ttb.tensor(A, tuple(X.shape)).permute(p).permute(np.argsort(p))
                if T.data.dtype == np.float32 and ref.same_exact(T.data, A):
                    return T, "dtype-float32,state-round-trip-permute"
            if st32 in ("grown", "from-ttensor"):
                A.flags.writeable = False
                T = ttb.tensor(A, tuple(X.shape), copy=False)
                return T, "dtype-float32,state-readonly-" + ("shared" if np.shares_memory(T.data, A) else "copied")
            if st32 == "from-sptensor":
                big = np.zeros(tuple(2 * v for v in X.shape), dtype=np.float32, order="F")
                view = big[tuple(slice(1, None, 2) for _ in X.shape)]
                view[...] = A
                return ttb.tensor(view), "dtype-float32,state-strided-view-input"
        except Exception:  # noqa: BLE001
            pass
        return ttb.tensor(np.asfortranarray(X.astype(np.float32)), tuple(X.shape)), "dtype-float32"
    if dt is not None:
        return ttb.tensor(np.asfortranarray(X.astype(dt)), tuple(X.shape)), "dtype-" + dt
    state = case.get("state", "ctor")
    T = None
    try:
        if state == "grown":
            T = gen.build_tensor(dict(shape=list(X.shape), data=X.ravel(order="F").tolist(), prov="grown"))
            if not gen.is_grown(T):
                T = None
        elif state == "c-order-input":
            T = ttb.tensor(np.ascontiguousarray(X))
        elif state == "round-trip-permute" and X.ndim >= 2:
            p = np.roll(np.arange(X.ndim), 1)
            T = ttb.tensor(X.copy(order="F"), tuple(X.shape)).permute(p).permute(np.argsort(p))
        elif state == "from-sptensor":
            # the result of one operation fed into the next: a converted sparse tensor
            T = as_sptensor(X, "sorted", dict(state="ctor"))[0].to_tensor()
        elif state == "from-ttensor":
            # ... a reconstructed Tucker tensor with permutation factors (exact)
            T = as_ttensor(dict(case, family="other", state="ctor", dtype="float"), X, True).full()
        elif state == "strided-view-input":
            big = np.zeros(tuple(2 * v for v in X.shape), order="C" if case.get("tseed", 0) % 2 else "F")
            view = big[tuple(slice(1, None, 2) for _ in X.shape)]
            view[...] = X
            T = ttb.tensor(view)
        elif state == "readonly-shared" and not case.get("hist"):
            # the caller's array, read-only, shared through copy=False: nvecs only reads
            A = X.copy(order="F")
            A.flags.writeable = False
            T = ttb.tensor(A, tuple(X.shape), copy=False)
    except Exception:  # noqa: BLE001
        T = None
    if T is not None and isinstance(T, ttb.tensor) and tuple(int(v) for v in T.shape) == tuple(X.shape) and _same(T, X):
        return T, "state-" + state
    return ttb.tensor(X.copy(order="F"), tuple(X.shape)), "state-ctor"


SPTENSOR_STATES = ["ctor", "ctor", "random-order", "explicit-zeros", "explicit-zeros", "npint-shape", "grown", "from-tensor",
                   "round-trip-permute", "zeroed-by-assignment", "readonly-shared"]


def nonzeros_F(X):
    """subscripts (nnz x N int array) and values (nnz x 1) of the nonzeros of X, first subscript fastest"""
    subs = np.argwhere(X != 0).reshape(-1, X.ndim)
    if len(subs) and X.ndim:
        lin = np.ravel_multi_index(tuple(subs.T), X.shape, order="F")
        subs = subs[np.argsort(lin, kind="stable")]
    vals = np.asarray(X[tuple(subs.T)], dtype=float).reshape(-1, 1)
    return subs.astype(int), vals


def as_sptensor(X, stored="sorted", case=None):
    """sparse holder; returns (object, state label) when a case is given, else the object (old call form)"""
    old_form = case is None
    case = case or {}
    if old_form:
        sc = gen.sparse_case_from_dense(X)
        if stored == "reverse":
            sc["subs"], sc["vals"] = sc["subs"][::-1], sc["vals"][::-1]
        return gen.build_sptensor(sc)
    shape = tuple(X.shape)
    subs, vals = nonzeros_F(X)
    if stored == "reverse":
        subs, vals = subs[::-1].copy(), vals[::-1].copy()
    nnz = len(subs)
    dt = store_dtype_of(case, X)
    label = None
    if dt is not None:
        vals = vals.astype(dt)
        label = "dtype-" + dt
        if dt == "float32":
            X = np.zeros(shape)
            X[tuple(subs.T)] = vals.reshape(-1).astype(float)  # what the holder is to denote: the float32 roundings
    state = case.get("state", "ctor")
    if state in ("explicit-zeros", "zeroed-by-assignment") and not (X == 0).any():
        state = "random-order"  # nothing to store a zero at
    rng = np.random.default_rng(int(case.get("tseed", 0)) + 5)
    S = None
    try:
        if nnz == 0 and state != "explicit-zeros":
            S = None
        elif state == "random-order":
            p = rng.permutation(nnz)
            S = ttb.sptensor(subs[p], vals[p], shape)
        elif state == "explicit-zeros":
            zs = np.argwhere(X == 0)
            if len(zs):
                extra = zs[rng.permutation(len(zs))[: min(len(zs), 3)]]
                s2 = np.vstack([subs, extra])
                v2 = np.vstack([vals, np.zeros((len(extra), 1), dtype=vals.dtype)])
                p = rng.permutation(len(s2))
                S = ttb.sptensor(s2[p], v2[p], shape)
        elif state == "npint-shape":
            S = ttb.sptensor(subs, vals, tuple(np.int64(v) for v in shape))
        elif state == "grown":
            # construct without the last index of the last mode of size >= 2, then assign the missing entries
            cand = [m for m, v in enumerate(shape) if v >= 2]
            if cand:
                m = cand[-1]
                keep = subs[:, m] < shape[m] - 1
                if keep.any() and (~keep).any():
                    small = tuple(v - 1 if k == m else v for k, v in enumerate(shape))
                    S = ttb.sptensor(subs[keep], vals[keep], small)
                    S[subs[~keep]] = vals[~keep]
        elif state == "from-tensor" and dt is None:
            S = ttb.tensor(X.copy(order="F"), shape).to_sptensor()
        elif state == "round-trip-permute" and X.ndim >= 2:
            p = np.roll(np.arange(X.ndim), 1)
            S = ttb.sptensor(subs, vals, shape).permute(p).permute(np.argsort(p))
        elif state == "zeroed-by-assignment":
            # one more nonzero first, then set it to zero through the public subscript assignment
            zs = np.argwhere(X == 0)
            if len(zs):
                e = zs[int(rng.integers(0, len(zs)))][None, :]
                S = ttb.sptensor(np.vstack([subs, e]), np.vstack([vals, np.ones((1, 1), dtype=vals.dtype)]), shape)
                S[e] = np.zeros((1, 1), dtype=vals.dtype)
        elif state == "readonly-shared" and not case.get("hist"):
            # the caller's arrays, read-only, shared through copy=False; subscripts as int32 (scipy coo coordinates)
            s2, v2 = np.array(subs, dtype=np.int32 if case.get("tseed", 0) % 2 else np.int64), np.array(vals)
            s2.flags.writeable = False
            v2.flags.writeable = False
            S = ttb.sptensor(s2, v2, shape, copy=False)
    except Exception:  # noqa: BLE001
        S = None
    if S is not None and isinstance(S, ttb.sptensor) and tuple(int(v) for v in S.shape) == shape and _same(S, X):
        return S, label or ("state-" + state)
    if nnz == 0:
        return ttb.sptensor(shape=shape), label or "state-ctor"
    return ttb.sptensor(subs, vals, shape), label or "state-ctor"


KTENSOR_STATES = ["ctor", "ctor", "normalize-into-mode", "normalize-into-mode", "normalize", "arrange", "redistribute", "f-order-input", "readonly-shared"]


def _ktensor_parts(case, X):
    """weights, factors (float) of the Kruskal form: the born CP when there is one, else the fibre representation
    along `kmode`: X = sum over fibres p of  x_p (in mode kmode) outer unit vectors (other modes)."""
    if case["family"] == "cp":
        w, F = cp_parts(case)
        return w.copy(), [f.copy() for f in F]
    if case["family"] == "kruskal":
        return kruskal_parts(case)
    if case["family"] == "zero" and case.get("tseed", 0) % 3 != 2:
        # the all-zero tensor as zero weights on generic factors, or as one zero factor matrix
        rng = np.random.default_rng(int(case.get("tseed", 0)))
        F = [rng.integers(-3, 4, size=(I, 2)).astype(float) for I in X.shape]
        if case.get("tseed", 0) % 3 == 0:
            return np.zeros(2), F
        F[case["kmode"]][...] = 0.0
        return np.array([2.0, -1.0]), F
    km = case["kmode"]
    shape = X.shape
    others = [k for k in range(len(shape)) if k != km]
    Xk = np.moveaxis(X, km, 0).reshape(shape[km], -1)  # C order over the other modes = itertools.product order
    cols = list(itertools.product(*[range(shape[k]) for k in others]))
    keepi = [i for i in range(len(cols)) if np.any(Xk[:, i] != 0)]
    if not keepi:
        keepi = [0]
    R = len(keepi)
    F = [np.zeros((I, R)) for I in shape]
    for j, i in enumerate(keepi):
        F[km][:, j] = Xk[:, i]
        for k, idx in zip(others, cols[i]):
            F[k][idx, j] = 1.0
    return np.ones(R), F


def as_ktensor(case, X, with_label=False):
    w, F = _ktensor_parts(case, X)
    state = case.get("state", "ctor")
    K = None
    try:
        if state == "f-order-input":
            K = ttb.ktensor([np.asfortranarray(f) for f in F], w.copy())
        elif state == "readonly-shared" and not case.get("hist"):
            F2, w2 = [np.asfortranarray(f) for f in F], w.copy()
            for a in F2 + [w2]:
                a.flags.writeable = False
            K = ttb.ktensor(F2, w2, copy=False)
        elif state in ("normalize-into-mode", "normalize", "arrange", "redistribute"):
            K = ttb.ktensor([f.copy() for f in F], w.copy())
            k = int(case.get("tseed", 0)) % len(F)
            if state == "normalize-into-mode":
                K.normalize(weight_factor=k)
            elif state == "normalize":
                K.normalize()
            elif state == "arrange":
                K.arrange()
            else:
                K.redistribute(k)
    except Exception:  # noqa: BLE001
        K = None
    if K is not None and isinstance(K, ttb.ktensor) and _same(K, X):
        return (K, "state-" + state) if with_label else K
    K = ttb.ktensor([f.copy() for f in F], w.copy())
    return (K, "state-ctor") if with_label else K


TTENSOR_STATES = ["ctor", "ctor", "derived-core", "derived-core", "f-order-factors", "shared-arrays"]


def _ttensor_parts(case, X, sparse_core):
    """core array, factor matrices of the Tucker form.  cp family: super-diagonal core with the CP factors.  Otherwise
    dense core: X rotated by an orthogonal matrix per mode (factors undo it); sparse core, or integer storage, or the
    block family (whose exact structure a rotation would blur): X with permuted indices, permutation-matrix factors."""
    shape = X.shape
    N = len(shape)
    if case["family"] == "tucker":
        core, fm = tucker_parts(case)
        return core, fm, "tucker-born"
    if case["family"] in ("cp", "kruskal"):
        w, F = cp_parts(case) if case["family"] == "cp" else kruskal_parts(case)
        R = len(w)
        core = np.zeros((R,) * N)
        for j in range(R):
            core[(j,) * N] = w[j]
        return core, [f.copy() for f in F], "tucker-superdiagonal"
    exact = sparse_core or int_dtype_of(case, X) is not None or (case["family"] == "block" and case.get("tseed", 0) % 2 == 0)
    if exact:
        rng = np.random.default_rng(int(case["tseed"]))
        perms = [rng.permutation(I) for I in shape]
        core = X[np.ix_(*perms)]  # core[i..] = X[perm[i]..]
        fm = []
        for p, I in zip(perms, shape):
            Pm = np.zeros((I, I))
            Pm[p, np.arange(I)] = 1.0  # X[a] = sum_i Pm[a, i] core[i]  with a = p[i]
            fm.append(Pm)
        return core, fm, "tucker-permutation"
    Q = [orth(case["tseed"] + 31 * k, I, I) for k, I in enumerate(shape)]
    return den_tucker(X, [q.T for q in Q]), Q, "tucker-rotation"


def as_ttensor(case, X, sparse_core, with_label=False, sparse_factors=False):
    core, fm, form = _ttensor_parts(case, X, sparse_core)
    dt = "float32" if is_f32(case) else (int_dtype_of(case, X) if ref.is_intvalued(core, *fm) else None)
    if sparse_factors and dt == "float16":
        dt = "float32"  # scipy.sparse does not support float16
    state = case.get("state", "ctor")
    label = "state-ctor"
    kw = {}
    if dt is not None:
        core = core.astype(dt)
        fm = [f.astype(dt) for f in fm] if case.get("tseed", 0) % 3 else fm
        label = "dtype-" + dt
        if dt == "float32":
            label += ",factors-" + ("float32" if case.get("tseed", 0) % 3 else "float64")
    c = None
    if sparse_core:
        subs = nonzeros_F(core)[0]
        if len(subs):
            vals = np.asarray(core[tuple(subs.T)]).reshape(-1, 1)
            if state == "derived-core":
                # stored order random, explicit zero, numpy-integer shape: states the checked constructor call accepts
                rng = np.random.default_rng(int(case.get("tseed", 0)) + 11)
                zs = np.argwhere(core == 0)
                if len(zs):
                    subs = np.vstack([subs, zs[:1]])
                    vals = np.vstack([vals, np.zeros((1, 1), dtype=vals.dtype)])
                p = rng.permutation(len(subs))
                try:
                    c = ttb.sptensor(subs[p], vals[p], tuple(np.int64(v) for v in core.shape))
                    label = label if dt else "state-derived-core"
                except Exception:  # noqa: BLE001
                    c = None
            if c is None:
                c = ttb.sptensor(subs, vals, tuple(core.shape))
        else:
            c = ttb.sptensor(shape=tuple(core.shape))
    else:
        if state == "derived-core" and dt is None:
            g = gen.build_tensor(dict(shape=list(core.shape), data=core.ravel(order="F").tolist(), prov="grown"))
            if gen.is_grown(g) and _same(g, core):
                c, label = g, "state-derived-core"
        if c is None:
            c = ttb.tensor(np.asfortranarray(core), tuple(core.shape))
    if sparse_factors:
        # the constructor admits scipy coo matrices as factor matrices; some stay dense when the state says so
        keep_dense = (case.get("tseed", 0) % len(fm)) if state in ("f-order-factors", "shared-arrays") else -1
        fm = [f if k == keep_dense else sparse.coo_matrix(f) for k, f in enumerate(fm)]
        label = label if dt else ("state-mixed-factors" if keep_dense >= 0 else label)
        form += ",coo-factors"
    elif state == "f-order-factors":
        fm = [np.asfortranarray(f) for f in fm]
        label = label if dt else "state-f-order-factors"
    elif state == "shared-arrays":
        kw = dict(copy=False)
        label = label if dt else "state-shared-arrays"
        if case.get("tseed", 0) % 2 and not case.get("hist"):
            # ... and read-only: nvecs only reads
            fm = [np.asfortranarray(f) for f in fm]
            for f in fm:
                f.flags.writeable = False
            label = label if dt else "state-shared-readonly-arrays"
    T = ttb.ttensor(c, fm, **kw)
    return (T, label + "," + form) if with_label else T


# ----------------------------------------------------------------------------------------------------------------
# strategies
# ----------------------------------------------------------------------------------------------------------------


def _limits(tier):
    return (5, 72) if tier == "quick" else (6, 220)


@st.composite
def _shape_with_mode(draw, tier, min_order=1):
    maxsize, maxcells = _limits(tier)
    N = draw(st.sampled_from([n for n in [1, 2, 2, 2, 3, 3, 3, 3, 4, 4] if n >= min_order]))
    n = draw(st.integers(0, N - 1))
    In = draw(st.sampled_from([1, 2, 3, 3, 4, 4, 4, 5, 5, maxsize]))
    shape = [0] * N
    shape[n] = In
    cells = In
    for k in range(N):
        if k != n:
            cap = max(1, min(maxsize, maxcells // cells))
            # singleton modes are kept (they matter) but not allowed to dominate: a unit product of the other modes
            # makes the Gram matrix rank one
            lo = 2 if cap >= 2 and draw(st.integers(0, 5)) > 0 else 1
            shape[k] = draw(st.integers(lo, cap))
            cells *= shape[k]
    return shape, n


SEEDS = st.integers(0, 2 ** 20)
SCALES = [1.0, 1.0, 37.5, 1e3, 1e-3, 1e-6, 1e6]


@st.composite
def _common_fields(draw, states):
    """holder state (each holder reads it from its own list), storage dtype (used where the data are integer valued and
    the class admits integer storage), the Python / numpy type n and r are passed as"""
    return dict(
        state=draw(st.sampled_from(list(states))),
        dtype=draw(st.sampled_from(["float"] * 8 + ["int64", "int32", "uint8", "int16", "int8", "uint16", "f16-intvalued", "f32-intvalued"])),
        npint=draw(st.sampled_from(NPINTS)),
        flipform=draw(st.sampled_from(FLIPFORMS)),
        log=draw(st.sampled_from(LOGLEVELS)),
    )


# round 4: how the caller presents the same request, and the process environment
NPINTS = [None, None, None, "int64", "int32", "uint64", "intp", "uint32", "int16", "uint16"]
FLIPFORMS = [None, None, None, "np.bool_", "positional", "positional-np.bool_"]
LOGLEVELS = [None, None, None, "DEBUG", "DEBUG", "INFO"]


def present(case, n, r, flip, I):
    """(args, kwargs) of the nvecs call as the case presents it: n and r as Python int or a numpy integer scalar (16-bit
    types only for mode sizes up to 64: scipy's eigsh sizes its workspace ncv*(ncv+8) in the caller's integer type),
    flipsign as bool or numpy.bool_, by keyword or positionally in the documented order"""
    t = case.get("npint")
    if not t or (t in ("int16", "uint16") and I > 64):
        nn, rr = int(n), int(r)
    else:
        nn, rr = getattr(np, t)(n), getattr(np, t)(r)
    ff = case.get("flipform") or ""
    f = np.bool_(flip) if "np.bool_" in ff else bool(flip)
    return ((nn, rr, f), {}) if ff.startswith("positional") else ((nn, rr), dict(flipsign=f))


@contextlib.contextmanager
def root_logging(level):
    """the root logger at `level` ("DEBUG" / "INFO"; None: leave everything as it is) with a NullHandler, and the
    process-wide logging.disable (set by core.evaluate) lifted; everything restored on exit"""
    if not level:
        yield
        return
    root = logging.getLogger()
    old_level, old_disable, old_handlers = root.level, root.manager.disable, root.handlers
    # only a NullHandler: the module-level logging.warning(...) calls of the library may have installed a stream handler
    # (basicConfig) earlier in the process, which would now write the DEBUG records to stderr
    root.handlers = [logging.NullHandler()]
    try:
        logging.disable(logging.NOTSET)
        root.setLevel(getattr(logging, level))
        yield
    finally:
        root.setLevel(old_level)
        root.handlers = old_handlers
        logging.disable(old_disable)


def snapshot(obj):
    """copies of every array that parameterises the holder (values, subscripts, weights, factors, coo coordinates) + shape"""
    if isinstance(obj, ttb.tensor):
        arrs = [obj.data]
    elif isinstance(obj, ttb.sptensor):
        arrs = [obj.subs, obj.vals]
    elif isinstance(obj, ttb.ktensor):
        arrs = [obj.weights] + list(obj.factor_matrices)
    elif isinstance(obj, ttb.ttensor):
        arrs = [a for _, a in snapshot(obj.core)[0]]
        for f in obj.factor_matrices:
            arrs += [f.row, f.col, f.data] if sparse.issparse(f) and hasattr(f, "row") else [f.toarray() if sparse.issparse(f) else f]
    else:
        raise TypeError(type(obj))
    return [(np.asarray(a).dtype.str, np.array(a, copy=True)) for a in arrs], tuple(int(v) for v in obj.shape)


def same_snapshot(obj, snap):
    """bit for bit the same parameterisation"""
    try:
        now, shape = snapshot(obj)
    except Exception:  # noqa: BLE001
        return False
    old, oshape = snap
    return shape == oshape and len(now) == len(old) and all(
        d1 == d0 and a1.shape == a0.shape and ref.same_exact(a1, a0) for (d1, a1), (d0, a0) in zip(now, old))


@st.composite
def model_case(draw, tier, families=("spectral", "spectral", "cp", "sparse"), states=("ctor",)):
    fam = draw(st.sampled_from(list(families)))
    shape, n = draw(_shape_with_mode(tier))
    N = len(shape)
    c = dict(family=fam, shape=shape, n=n, np_seed=draw(st.integers(0, 2 ** 31 - 1)), flipsign=draw(st.sampled_from([True, True, False])),
             stored=draw(st.sampled_from(["sorted", "reverse"])), tseed=draw(SEEDS), kmode=draw(st.integers(0, N - 1)))
    c.update(draw(_common_fields(states)))
    I = shape[n]
    if fam == "spectral":
        P = ref.prod(shape) // I
        m = min(I, P)
        kind = draw(st.sampled_from(SPECTRA))
        scale = draw(st.sampled_from(SCALES))
        c.update(spectrum=kind, sing=spectrum(kind, m, scale), useed=draw(SEEDS), wseed=draw(SEEDS))
    elif fam == "cp":
        R = draw(st.integers(1, max(1, min(min(shape), 4))))
        base = draw(st.sampled_from(["geometric", "close-pair", "slow-decay"]))
        sig = spectrum(base, R, draw(st.sampled_from([1.0, 8.0, 0.05, 1e-6, 1e6])))
        signs = draw(st.lists(st.sampled_from([1.0, 1.0, -1.0]), min_size=R, max_size=R))
        c.update(rank=R, sigma=[a * b for a, b in zip(sig, signs)], fseed=draw(SEEDS), spectrum="cp-" + base)
        if draw(st.booleans()):
            q = draw(st.integers(1, 2))
            c["noise"] = dict(rank=q, weights=[abs(sig[-1]) * 1e-4 * (k + 1) for k in range(q)])
        else:
            c["noise"] = None
    else:
        n_cells = ref.prod(shape)
        pattern = draw(st.sampled_from(["one", "some", "some", "all"]))
        flat = gen._pattern_values(draw, n_cells, pattern, "int")
        if all(v == 0 for v in flat):
            flat[draw(st.integers(0, n_cells - 1))] = 2.0
        if c["dtype"] in ("uint8", "uint16"):
            flat = [abs(v) for v in flat]
        A = gen.arr_F(shape, flat)
        s2 = gen.sparse_case_from_dense(A)
        c.update(subs=s2["subs"], vals=s2["vals"], spectrum="sparse-" + pattern)
        # the property is scale free: integer storage keeps the integers, float storage also takes tiny / huge data
        c["vscale"] = 1.0 if c["dtype"] in INT_DTYPES else draw(st.sampled_from([1.0, 1.0, 1e-6, 1e6, 0.3]))
    # r: both ends and the interior (the interior is the non-trivial class and needs I >= 3)
    inner = list(range(2, I))
    c["r"] = draw(st.sampled_from([1, I, max(1, I - 1)] + inner + inner))
    return c


# mode sizes above the iterative solver's thresholds: ARPACK's default subspace is min(I, max(2r+1, 20)) vectors, so
# I <= 20 always spans everything (any start vector, any tolerance works), I > 20 does not, and r >= 10 moves the
# subspace size itself
LARGE_SIZES = {"quick": [21, 22, 25, 32, 40], "thorough": [21, 22, 23, 25, 32, 40, 41, 48, 64]}
LARGE_REST = [[8], [12], [16], [30], [3, 4], [4, 3], [6, 5], [5, 6], [2, 3, 2], [24], [2, 13]]


@st.composite
def large_case(draw, tier, states=("ctor",)):
    """mode n larger than 20: block family (exact structure of the leading vectors) and spectral family (generic ones)"""
    fam = draw(st.sampled_from(["block", "block", "spectral"]))
    I = draw(st.sampled_from(LARGE_SIZES[tier]))
    rest = list(draw(st.sampled_from(LARGE_REST)))
    N = len(rest) + 1
    n = draw(st.integers(0, N - 1))
    shape = rest[:n] + [I] + rest[n:]
    P = ref.prod(rest)
    c = dict(family=fam, shape=shape, n=n, np_seed=draw(st.integers(0, 2 ** 31 - 1)), flipsign=draw(st.sampled_from([True, True, False])),
             stored=draw(st.sampled_from(["sorted", "reverse"])), tseed=draw(SEEDS), kmode=draw(st.integers(0, N - 1)))
    c.update(draw(_common_fields(states)))
    if fam == "block":
        nb = draw(st.sampled_from([2, 3, 4, 6, 12, 14]))
        structs = [draw(st.sampled_from(LEAD_STRUCTS))] + draw(st.lists(st.sampled_from(sorted(STRUCTS)), min_size=nb - 1, max_size=nb - 1))
        blocks, filler = expand_blocks(I, P, structs, draw(SEEDS), draw(st.integers(30, 60)))
        for b in blocks:
            b.pop("struct")
        c.update(blocks=blocks, filler=filler, spectrum="block-" + structs[0],
                 vscale=1.0 if c["dtype"] in INT_DTYPES else draw(st.sampled_from([1.0, 1.0, 1e-6, 1e6, 0.3])))
        nsep = len(blocks)
    else:
        m = min(I, P)
        kind = draw(st.sampled_from(["slow-decay", "slow-decay", "geometric", "close-pair", "dominant"]))
        c.update(spectrum=kind, sing=spectrum(kind, m, draw(st.sampled_from(SCALES))), useed=draw(SEEDS), wseed=draw(SEEDS))
        nsep = m
    # r: few, around ten (the subspace size changes at r = 10), up to the number of constructed leading values, and the
    # boundary between the solvers
    pool = [1, 1, 2, 3, 5] + [v for v in (9, 10, 11, 12, 13) if v < nsep] + [max(1, nsep - 1), max(1, nsep - 1)] + [I - 2, I - 1, I]
    c["r"] = draw(st.sampled_from([v for v in pool if 1 <= v <= I]))
    return c


# ----------------------------------------------------------------------------------------------------------------
# round 3 strategies: structured forms (exactly special / epsilon-perturbed / generic), extreme magnitudes, extreme
# dynamic range, degenerate requests; a few large cases
# ----------------------------------------------------------------------------------------------------------------

SPECTRA3 = ["steep-tail", "steep-tail", "near-threshold", "near-threshold", "rank-one", "low-rank", "rank-deficient", "geometric", "close-pair"]
SCALES3 = [1.0, 1.0, 1e-9, 1e-12, 1e-15, 1e9, 1e12, 1e15, 1e-6, 1e6]
BALANCE = [0, 30, -30, 60, -60]


@st.composite
def _spectral_fields(draw, shape, n, kinds=tuple(SPECTRA3), scales=tuple(SCALES3)):
    I = shape[n]
    m = min(I, ref.prod(shape) // I)
    kind = draw(st.sampled_from(list(kinds)))
    return dict(family="spectral", shape=list(shape), n=n, spectrum=kind, sing=spectrum(kind, m, draw(st.sampled_from(list(scales)))),
                useed=draw(SEEDS), wseed=draw(SEEDS))


@st.composite
def _sparse_fields(draw, shape, dtype, scales=(1.0, 1.0, 1e-6, 1e6, 0.3)):
    n_cells = ref.prod(shape)
    pattern = draw(st.sampled_from(["one", "some", "some", "all"]))
    flat = gen._pattern_values(draw, n_cells, pattern, "int")
    if all(v == 0 for v in flat):
        flat[draw(st.integers(0, n_cells - 1))] = 2.0
    if dtype in ("uint8", "uint16"):
        flat = [abs(v) for v in flat]
    s2 = gen.sparse_case_from_dense(gen.arr_F(shape, flat))
    return dict(family="sparse", shape=list(shape), subs=s2["subs"], vals=s2["vals"], spectrum="sparse-" + pattern,
                vscale=1.0 if dtype in INT_DTYPES else draw(st.sampled_from(list(scales))))


@st.composite
def _matrix_spec(draw, kinds, N):
    kind = draw(st.sampled_from(list(kinds)))
    eps = 0.0
    if kind != "generic" and draw(st.booleans()):
        eps = draw(st.sampled_from(EPS_LIST))
    return dict(kind=kind, seed=draw(SEEDS), eps=eps, pmode=draw(st.sampled_from([None, None] + list(range(N)))) if eps else None)


def _r_pool(I, extra=()):
    inner = list(range(2, I))
    return [1, I, max(1, I - 1)] + inner + inner + [v for v in extra if 1 <= v <= I]


STRUCTURED_FAMILIES = {
    "tensor": ["spectral"] * 8 + ["zero", "tucker", "kruskal"],
    "sptensor": ["spectral"] * 6 + ["sparse", "sparse", "zero", "tucker", "kruskal"],
    "ktensor": ["kruskal"] * 10 + ["spectral"] * 3 + ["zero"],
    "ttensor": ["tucker"] * 10 + ["kruskal"] * 3 + ["spectral"] * 2 + ["zero"],
}


@st.composite
def structured_case(draw, tier, cls="tensor", states=("ctor",)):
    fam = draw(st.sampled_from(STRUCTURED_FAMILIES[cls]))
    shape, n = draw(_shape_with_mode(tier))
    N = len(shape)
    c = dict(family=fam, n=n, np_seed=draw(st.integers(0, 2 ** 31 - 1)), flipsign=draw(st.sampled_from([True, True, False])),
             stored=draw(st.sampled_from(["sorted", "reverse"])), tseed=draw(SEEDS), kmode=draw(st.integers(0, N - 1)))
    c.update(draw(_common_fields(states)))
    extra_r = []
    if fam == "spectral":
        c.update(draw(_spectral_fields(shape, n)))
    elif fam == "sparse":
        c.update(draw(_sparse_fields(shape, c["dtype"], scales=SCALES3)))
    elif fam == "zero":
        c.update(shape=shape, spectrum="zero")
    elif fam == "tucker":
        # `shape` is the core's; the tensor's mode sizes are the row counts of the factor matrices
        cf = draw(st.sampled_from(["spectral"] * 8 + ["sparse"] * 3 + ["zero"]))
        if cf == "spectral":
            core = draw(_spectral_fields(shape, n))
        elif cf == "sparse":
            core = draw(_sparse_fields(shape, c["dtype"], scales=SCALES3))
        else:
            core = dict(family="zero", shape=shape, spectrum="zero")
        tf = draw(_matrix_spec(MATRIX_KINDS + ["orthonormal", "identity"], N))
        form = draw(st.sampled_from(["square", "square", "tall", "tall", "wide"]))
        if form == "square":
            rows = list(shape)
        elif form == "tall":
            rows = [J + draw(st.sampled_from([0, 0, 1, 2])) for J in shape]
            rows[n] = shape[n] + draw(st.sampled_from([0, 1, 1, 3]))
        else:
            k = draw(st.integers(0, N - 1))
            rows = [max(1, J - 1) if i == k else J for i, J in enumerate(shape)]
        tf["rows"] = rows
        tf["balance"] = [draw(st.sampled_from(BALANCE)) for _ in range(N)] if draw(st.integers(0, 4)) == 0 else None
        extra_r = [shape[n], shape[n], shape[n] + 1]
        c.update(shape=rows, core=core, tf=tf, spectrum="tucker-" + str(core.get("spectrum")))
    else:  # kruskal
        kf = draw(_matrix_spec(["orthonormal", "orthonormal", "orthonormal", "permutation", "unit-columns", "generic"], N))
        Rmax = min(shape) if kf["kind"] in ("orthonormal", "permutation") else 7
        R = draw(st.integers(1, max(1, min(Rmax, 6 if kf["kind"] in ("orthonormal", "permutation") else 7))))
        wkind = draw(st.sampled_from(["equal", "near-equal", "near-equal", "geometric", "slow-decay", "zero-weight"]))
        scale = draw(st.sampled_from(SCALES3))
        if wkind == "equal":
            w = [1.0] * R
        elif wkind == "near-equal":
            g = draw(st.sampled_from([1.1e-3, 2e-3, 5e-3]))
            w = [float(np.sqrt(1.0 - g * j)) for j in range(R)]
        elif wkind == "geometric":
            w = [0.5 ** j for j in range(R)]
        else:
            w = [1.0 - 0.04 * j for j in range(R)]
        if wkind == "zero-weight" and R >= 2:
            w[draw(st.integers(0, R - 1))] = 0.0
        signs = draw(st.lists(st.sampled_from([1.0, 1.0, -1.0]), min_size=R, max_size=R))
        kf["balance"] = [draw(st.sampled_from(BALANCE)) for _ in range(R)] if draw(st.integers(0, 4)) == 0 else None
        c.update(shape=shape, kf=kf, weights=[scale * a * b for a, b in zip(w, signs)], wkind=wkind, spectrum="kruskal-" + wkind)
        extra_r = [R, R, R + 1]
    I = c["shape"][n]
    c["r"] = draw(st.sampled_from(_r_pool(I, extra_r)))
    return c


WIDE_SHAPES = [([8, 5, 4], None), ([6, 12], None), ([12, 7], None), ([5, 4, 4], None), ([25, 6], 0), ([4, 30], 1), ([3, 9, 4], 1)]


@st.composite
def float32_case(draw, tier, states=("ctor",)):
    """single-precision data: the families of the sampled / large cells, and spectral models whose singular values span
    1 .. 1e-4 (Gram eigenvalues 1 .. 1e-8)"""
    kind = draw(st.sampled_from(["wide", "wide", "wide", "model", "model", "large"]))
    if kind == "model":
        c = draw(model_case(tier, families=("spectral", "spectral", "sparse"), states=states))
    elif kind == "large":
        c = draw(large_case(tier, states=states))
    else:
        if draw(st.booleans()):
            shape, n = draw(_shape_with_mode(tier, min_order=2))
        else:
            shape, n = draw(st.sampled_from(WIDE_SHAPES))
            shape = list(shape)
            n = draw(st.integers(0, len(shape) - 1)) if n is None else n
        N = len(shape)
        c = dict(np_seed=draw(st.integers(0, 2 ** 31 - 1)), flipsign=draw(st.sampled_from([True, True, False])),
                 stored=draw(st.sampled_from(["sorted", "reverse"])), tseed=draw(SEEDS), kmode=draw(st.integers(0, N - 1)))
        c.update(draw(_common_fields(states)))
        c.update(draw(_spectral_fields(shape, n, kinds=["wide-1e-4", "wide-1e-4", "wide-decades", "wide-tail"],
                                       scales=[1.0, 1.0, 37.5, 1e-6, 1e6, 1e3])))
        I = shape[n]
        c["r"] = draw(st.sampled_from(_r_pool(I, extra=[2, 3, 3, 3, 4, 5])))
    c["dtype"] = "float32"
    return c


@st.composite
def presentation_case(draw, tier, cls="tensor", states=("ctor",)):
    """the same request twice: plainly (Python ints, flipsign by keyword as bool, logging as the harness leaves it) and as
    presented (numpy scalars, numpy.bool_, positional flipsign, root logger at DEBUG / INFO) - at least one differs"""
    kind = draw(st.integers(0, 5))
    if kind == 0:
        c = draw(large_case(tier, states=states))
    elif kind == 1:
        c = draw(structured_case(tier, cls=cls, states=states))
    else:
        c = draw(model_case(tier, states=states))
    c["npint"] = draw(st.sampled_from(NPINTS[2:]))
    c["flipform"] = draw(st.sampled_from(FLIPFORMS[2:]))
    c["log"] = draw(st.sampled_from(["DEBUG", "DEBUG", "DEBUG", "INFO", None]))
    if not (c["npint"] or c["flipform"] or c["log"]):
        c["log"] = "DEBUG"
    return c


XL_FAMILIES = {"tensor": ["bigblock", "bigspectral"], "sptensor": ["bigblock"], "ktensor": ["bigblock", "bigcp", "bigcp"],
               "ttensor": ["bigblock", "bigtucker", "bigtucker"]}


@st.composite
def xlarge_case(draw, tier, cls="tensor", states=("ctor",)):
    """a few large cases: mode sizes 60..200, sparse data with 1e4+ stored entries, Kruskal / Tucker forms with tall factors;
    everything expanded from seeds, judged by dense NumPy on the expanded array (at most a few 1e5 cells)"""
    fam = draw(st.sampled_from(XL_FAMILIES[cls]))
    c = dict(np_seed=draw(st.integers(0, 2 ** 31 - 1)), flipsign=draw(st.sampled_from([True, True, False])),
             stored=draw(st.sampled_from(["sorted", "reverse"])), tseed=draw(SEEDS))
    c.update(draw(_common_fields(states)))
    c["dtype"] = "float"
    if fam in ("bigblock", "bigspectral", "bigcp"):
        I = draw(st.sampled_from([60, 100, 150, 200, 200]))
        if fam == "bigblock":
            rest = list(draw(st.sampled_from([[20, 16], [16, 20], [350], [8, 6, 7], [24, 15], [330]])))
        elif fam == "bigspectral":
            I = min(I, 128)
            rest = list(draw(st.sampled_from([[8, 9], [70], [5, 4, 4], [40]])))
        else:
            rest = list(draw(st.sampled_from([[30, 12], [40], [12, 10, 8], [25, 25]])))
        n = draw(st.integers(0, len(rest)))
        shape = rest[:n] + [I] + rest[n:]
        P = ref.prod(rest)
        c.update(shape=shape, n=n, kmode=n)
        if fam == "bigblock":
            nb = draw(st.sampled_from([3, 5, 8, 12]))
            c.update(family="bigblock", nb=nb, bcols=P // nb, bseed=draw(SEEDS), fill=draw(st.sampled_from([0, 500, 3000])),
                     vscale=draw(st.sampled_from([1.0, 1.0, 1e-12, 1e12, 1e-6])), spectrum="bigblock")
            pool = [1, 2, nb - 1, nb, nb, nb + 2, I - 2, I - 1, I]
        elif fam == "bigspectral":
            c.update(draw(_spectral_fields(shape, n, kinds=["slow-decay", "geometric", "steep-tail", "near-threshold"])))
            pool = [1, 2, 3, 5, 12, 25, I - 2, I - 1, I]
        else:
            R = draw(st.sampled_from([2, 5, 8, 12]))
            R = min(R, min(shape))
            base = draw(st.sampled_from(["slow-decay", "slow-decay", "close-pair"]))
            sig = spectrum(base, R, draw(st.sampled_from([1.0, 1e-9, 1e9, 8.0])))
            signs = draw(st.lists(st.sampled_from([1.0, 1.0, -1.0]), min_size=R, max_size=R))
            c.update(family="cp", rank=R, sigma=[a * b for a, b in zip(sig, signs)], fseed=draw(SEEDS), spectrum="cp-" + base,
                     noise=dict(rank=1, weights=[abs(sig[-1]) * 1e-4]) if draw(st.booleans()) else None)
            pool = [1, 2, R - 1, R, R, R + 1, I - 2, I - 1, I]
    else:  # bigtucker
        J = list(draw(st.sampled_from([[6, 5, 4], [8, 7], [5, 4, 3, 3], [12, 10], [4, 9, 5]])))
        N = len(J)
        n = draw(st.integers(0, N - 1))
        I = draw(st.sampled_from([60, 100, 150, 200]))
        rows = [J[k] + draw(st.sampled_from([0, 10, 30])) for k in range(N)]
        rows[n] = I
        core = draw(_spectral_fields(J, n, kinds=["slow-decay", "geometric", "near-threshold", "close-pair"]))
        tf = draw(_matrix_spec(["orthonormal", "orthonormal", "generic", "unit-columns", "permutation", "identity"], N))
        tf.update(rows=rows, balance=None)
        c.update(family="tucker", shape=rows, n=n, kmode=n, core=core, tf=tf, spectrum="tucker-" + core["spectrum"])
        pool = [1, 2, J[n] - 1, J[n], J[n], J[n] + 1, I - 2, I - 1, I]
    c["r"] = draw(st.sampled_from([v for v in pool if 1 <= v <= I]))
    return c


# sparse tensors whose modes other than n are long: the stored entries sit at a handful of indices of a mode of length
# 2**40 .. 2**62 (also 2**53 and 2**53+1, which float64 cannot tell apart; products of mode lengths beyond 2**63)
LONG_LENGTHS = [2 ** 16, 2 ** 40, 2 ** 40, 2 ** 53 + 7, 2 ** 60, 2 ** 62]


@st.composite
def long_case(draw, tier):
    shape, n = draw(_shape_with_mode(tier, min_order=2))
    N = len(shape)
    c = dict(np_seed=draw(st.integers(0, 2 ** 31 - 1)), flipsign=draw(st.sampled_from([True, True, False])), tseed=draw(SEEDS),
             npint=draw(st.sampled_from([None, None, "int64", "uint64", "int32"])), flipform=draw(st.sampled_from(FLIPFORMS)),
             log=draw(st.sampled_from(LOGLEVELS)))
    c.update(draw(_spectral_fields(shape, n, kinds=SPECTRA, scales=SCALES)))
    others = [k for k in range(N) if k != n]
    chosen = draw(st.lists(st.sampled_from(others), min_size=1, max_size=min(2, len(others)), unique=True))
    long = {}
    for k in chosen:
        # never in between: the unrepaired code needs memory proportional to the product of the other modes' lengths, so
        # that product is either small (<= 2**16 * 72) or hopeless (>= 2**40)
        L = draw(st.sampled_from(LONG_LENGTHS if len(chosen) == 1 else LONG_LENGTHS[1:]))
        cand = sorted({v for v in (0, 1, 2, 3, 7, L - 1, L - 2, L // 2, L // 3, 2 ** 24 + 1, 2 ** 31, 2 ** 32 + 1, 2 ** 53, 2 ** 53 + 1, 2 ** 53 + 2)
                       if 0 <= v < L})
        idx = draw(st.lists(st.integers(0, len(cand) - 1), min_size=shape[k], max_size=shape[k], unique=True))
        long[str(k)] = dict(L=L, used=sorted(cand[i] for i in idx))
    c["long"] = long
    I = shape[n]
    c["r"] = draw(st.sampled_from(_r_pool(I)))
    return c


EDIT_KINDS = ["scale-slice", "scale-slice", "shear", "shear", "set-entry", "scale-all", "zero-slice", "move-entry"]
EDIT_VALUES = [4.0, -3.0, 0.5, 2.0, -1.0, 1.75]


@st.composite
def history_case(draw, tier, states=("ctor",), cls=None):
    """a model plus 2..4 steps on ONE object: optional in-place edit of one attribute array, then nvecs(n, r, flipsign)
    on the object (or on a fresh object made from copies of its current attributes), optionally overwriting the
    returned array afterwards"""
    big = draw(st.integers(0, 9))
    if big == 0:
        c = draw(large_case(tier, states=states))
    elif big <= 2 and cls is not None:
        # forms with exactly special / perturbed / generic factors, extreme magnitudes, the all-zero tensor
        c = draw(structured_case(tier, cls=cls, states=states))
    else:
        c = draw(model_case(tier, families=("spectral", "spectral", "cp", "sparse"), states=states))
    c["dtype"] = "float"
    c["hist"] = True
    shape = c["shape"]
    N = len(shape)
    k = draw(st.integers(2, 4))
    steps = []
    for i in range(k):
        n = draw(st.integers(0, N - 1)) if i else c["n"]
        I = shape[n]
        r = c["r"] if i == 0 else draw(st.sampled_from([1, I, max(1, I - 1), max(1, I - 2)] + list(range(2, min(I, 6))) * 2))
        edit = None
        if i and draw(st.integers(0, 3)) > 0:
            edit = dict(kind=draw(st.sampled_from(EDIT_KINDS)), arr=draw(st.integers(0, 7)), axis=draw(st.integers(0, 3)),
                        i=draw(st.integers(0, 63)), j=draw(st.integers(0, 63)), val=draw(st.sampled_from(EDIT_VALUES)))
        steps.append(dict(n=n, r=min(r, I), flipsign=draw(st.sampled_from([True, True, False])) if i else c["flipsign"], edit=edit,
                          fresh=draw(st.sampled_from([None] * 8 + TWINS)) if i else None, clobber=draw(st.integers(0, 3)) == 0,
                          np_seed=draw(st.integers(0, 2 ** 31 - 1))))
    # round 4: the logging level of the root logger during a step; a request that is rejected (or that the class happens to
    # accept) right before a valid step
    for i, stp in enumerate(steps):
        stp["log"] = draw(st.sampled_from(LOGLEVELS))
        if draw(st.integers(0, 2)) == 0:
            stp["reject"] = dict(kind=draw(st.sampled_from(REJECTS)), n=draw(st.integers(0, N - 1)), log=draw(st.sampled_from(LOGLEVELS)))
    if not any(s["edit"] for s in steps[1:]) and draw(st.booleans()):
        steps[-1]["edit"] = dict(kind="shear", arr=draw(st.integers(0, 7)), axis=0, i=draw(st.integers(0, 63)), j=draw(st.integers(0, 63)), val=2.0)
    # a history that forks: before step i a copy is made through the public API; the history goes on with the original
    # or with the copy, and the other one is judged again at the very end
    if draw(st.integers(0, 2)) == 0:
        steps[draw(st.integers(1, k - 1))]["fork"] = dict(how=draw(st.sampled_from(["public-copy", "deepcopy"])),
                                                         go_on_with=draw(st.sampled_from(["original", "copy"])))
    c["steps"] = steps
    return c


REJECTS = ["mode=N", "mode=N+3", "mode=-N-1", "r=0", "r=-1", "r=0", "r-float", "mode=N,r=0"]


def rejected_args(kind, n, N, I):
    """(n, r) of an ill-formed request: the mode does not exist, or the count is not a positive integer"""
    if kind == "mode=N":
        return N, 1
    if kind == "mode=N+3":
        return N + 3, 1
    if kind == "mode=-N-1":
        return -N - 1, 1
    if kind == "r=0":
        return n, 0
    if kind == "r=-1":
        return n, -1
    if kind == "r-float":
        return n, 1.5
    return N, 0


def attribute_arrays(obj):
    """the arrays that define the state of a holder (edited in place by the history cells)"""
    if isinstance(obj, ttb.tensor):
        return [obj.data]
    if isinstance(obj, ttb.sptensor):
        return [obj.vals]
    if isinstance(obj, ttb.ktensor):
        return [obj.weights] + list(obj.factor_matrices)
    if isinstance(obj, ttb.ttensor):
        core = obj.core.data if isinstance(obj.core, ttb.tensor) else obj.core.vals
        return [f.data if sparse.issparse(f) else f for f in obj.factor_matrices] + [core]
    raise TypeError(type(obj))


def apply_edit(obj, e):
    """edit one attribute array of the holder in place; returns a label.  Only array contents change: no attribute is
    rebound, no shape changes."""
    arrs = [a for a in attribute_arrays(obj) if a.size]
    if not arrs:
        return "edit-none"
    a = arrs[e["arr"] % len(arrs)]
    kind = e["kind"]
    if kind == "move-entry":
        # sparse data: one stored entry gets another (free) subscript, written into the subscript array in place
        sp = obj if isinstance(obj, ttb.sptensor) else (obj.core if isinstance(obj, ttb.ttensor) and isinstance(obj.core, ttb.sptensor) else None)
        if sp is not None and sp.subs.size:
            shape = tuple(int(v) for v in sp.shape)
            total = ref.prod(shape)
            taken = {tuple(int(v) for v in row) for row in sp.subs}
            if len(taken) < total:
                lin = (e["j"] * 7919) % total
                while tuple(int(v) for v in np.unravel_index(lin, shape)) in taken:
                    lin = (lin + 1) % total
                sp.subs[e["i"] % sp.subs.shape[0], :] = np.unravel_index(lin, shape)
                return "edit-move-entry"
        kind = "set-entry"
    if kind == "shear" and not (a.ndim == 2 and a.shape[1] >= 2):
        kind = "scale-slice"
    if kind == "scale-all":
        a *= e["val"]
    elif kind == "set-entry":
        idx = np.unravel_index(e["i"] % a.size, a.shape)
        a[idx] = a[idx] * e["val"] + e["val"]
    elif kind == "shear":
        j = e["j"] % a.shape[1]
        j2 = (j + 1 + e["i"] % (a.shape[1] - 1)) % a.shape[1]
        a[:, j] += e["val"] * a[:, j2]
    else:
        ax = e["axis"] % a.ndim
        sl = [slice(None)] * a.ndim
        sl[ax] = e["i"] % a.shape[ax]
        a[tuple(sl)] *= 0.0 if kind == "zero-slice" else e["val"]
    return "edit-" + kind


TWINS = ["ctor-copy", "public-copy", "deepcopy", "shared"]


def twin(obj, how):
    """a second live object denoting the same array: made by the constructor from copies of the attributes, by the
    public copy(), by copy.deepcopy, or by the constructor with copy=False from the very same attribute arrays (then
    both objects share their state).  None when that does not work or does not reproduce the array (other
    properties judge copying)."""
    import copy as _copy

    try:
        if how in (True, "ctor-copy"):
            t = fresh_copy(obj)
        elif how == "public-copy":
            t = obj.copy()
        elif how == "deepcopy":
            t = _copy.deepcopy(obj)
        elif how == "shared":
            if isinstance(obj, ttb.tensor):
                t = ttb.tensor(obj.data, tuple(int(v) for v in obj.shape), copy=False)
            elif isinstance(obj, ttb.sptensor):
                t = ttb.sptensor(obj.subs, obj.vals, tuple(int(v) for v in obj.shape), copy=False)
            elif isinstance(obj, ttb.ktensor):
                t = ttb.ktensor(list(obj.factor_matrices), obj.weights, copy=False)
            else:
                t = ttb.ttensor(obj.core, list(obj.factor_matrices), copy=False)
        else:
            return None
        if type(t) is not type(obj) or not ref.same_exact(den(t), den(obj)):
            return None
        return t
    except Exception:  # noqa: BLE001
        return None


def fresh_copy(obj):
    """a new object made through the constructor from copies of the current attributes"""
    if isinstance(obj, ttb.tensor):
        return ttb.tensor(np.array(obj.data, order="F"), tuple(int(v) for v in obj.shape))
    if isinstance(obj, ttb.sptensor):
        return ttb.sptensor(np.array(obj.subs), np.array(obj.vals), tuple(int(v) for v in obj.shape))
    if isinstance(obj, ttb.ktensor):
        return ttb.ktensor([np.array(f) for f in obj.factor_matrices], np.array(obj.weights))
    if isinstance(obj, ttb.ttensor):
        return ttb.ttensor(fresh_copy(obj.core), [f.copy() if sparse.issparse(f) else np.array(f) for f in obj.factor_matrices])
    raise TypeError(type(obj))


def enum_models(tier):
    """A fixed list of models x every mode n x every r in 1..I_n x flipsign (the finite part of the quantifier)."""
    shapes = [(3, 4), (4, 3, 2), (2, 5, 3), (1, 4), (3, 3, 3), (5, 2)]
    if tier == "thorough":
        shapes += [(4, 4, 3), (2, 3, 2, 3), (6, 4), (3, 1, 5), (6, 2, 3)]
    seed = 100
    for sh in shapes:
        N = len(sh)
        for n in range(N):
            I = sh[n]
            P = ref.prod(sh) // I
            m = min(I, P)
            for kind in ("geometric", "close-pair", "rank-deficient"):
                seed += 1
                for r in range(1, I + 1):
                    for flip in (True, False):
                        yield dict(family="spectral", shape=list(sh), n=n, r=r, flipsign=flip, np_seed=seed, stored="reverse",
                                   tseed=seed + 5, kmode=(n + 1) % N, spectrum=kind, sing=spectrum(kind, m, 3.0),
                                   useed=seed + 1, wseed=seed + 2, log=(None, "DEBUG", "INFO")[(seed + r) % 3],
                                   flipform=FLIPFORMS[2:][(seed + r) % 4], npint=(None, "int64", "uint64", "int32", "intp")[(seed + 2 * r) % 5])
            if min(sh) >= 2:
                R = min(min(sh), 3)
                seed += 1
                for r in range(1, I + 1):
                    yield dict(family="cp", shape=list(sh), n=n, r=r, flipsign=True, np_seed=seed, stored="sorted", tseed=seed,
                               kmode=0, rank=R, sigma=[(-1.0) ** k * x for k, x in enumerate(spectrum("geometric", R, 2.0))],
                               fseed=seed, spectrum="cp-geometric", noise=dict(rank=1, weights=[1e-5]),
                               log=("DEBUG", None)[(seed + r) % 2])


# ----------------------------------------------------------------------------------------------------------------
# the reference
# ----------------------------------------------------------------------------------------------------------------


def reference(X, n):
    G = gram(X, n)
    lam, V = np.linalg.eigh(G)
    order = np.argsort(-lam, kind="stable")
    lam, V = lam[order], V[:, order]
    lam = np.maximum(lam, 0.0)
    return G, lam, V


NEGLIGIBLE = 1e-9  # eigenvalues below NEGLIGIBLE * lambda_1 form the "numerically zero" tail


def spectrum_class(lam, r, sep=SEP):
    """(k, class) for the request r:
    ("separated", k = r)    the r leading eigenvalues are pairwise separated and separated from the (r+1)-th;
    ("separated-then-negligible", k < r)   the k leading eigenvalues are separated like that and everything from the
                            (k+1)-th on is below NEGLIGIBLE * lambda_1 (rank-deficient unfolding with r beyond the rank, a
                            spectrum that drops by many decades; k = 0: the all-zero tensor);
    ("not-separated", 0)    anything else (ties or close values among the requested ones)."""
    lam = np.asarray(lam, dtype=float)
    if lam[0] <= 0:
        return 0, "separated-then-negligible"
    if separated(lam, r, sep):
        return r, "separated"
    gaps = -np.diff(lam[: min(r + 1, len(lam))])
    k = 0
    while k < len(gaps) and gaps[k] >= sep * lam[0]:
        k += 1
    if 1 <= k < r and lam[k] <= NEGLIGIBLE * lam[0]:
        return k, "separated-then-negligible"
    return 0, "not-separated"


def separated(lam, r, sep=SEP):
    """leading r eigenvalues pairwise separated, and separated from the rest, by sep * lambda_1"""
    if lam[0] <= 0:
        return False
    upto = min(r + 1, len(lam))
    gaps = -np.diff(lam[:upto])
    return bool((gaps >= sep * lam[0]).all()) if gaps.size else True
