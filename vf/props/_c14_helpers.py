"""Helpers for C14 (leading mode-n vectors): models with a constructed mode-n spectrum and every holder of the same data."""

from __future__ import annotations

import itertools

import numpy as np
from hypothesis import strategies as st

import pyttb as ttb

from .. import gen, ref

SEP = 1e-3  # "well separated": consecutive leading eigenvalues differ by at least SEP * lambda_1


# ----------------------------------------------------------------------------------------------------------------
# deterministic expansion of drawn integers into rotations (nuisance parameters: not shrunk, fully replayable)
# ----------------------------------------------------------------------------------------------------------------


def orth(seed, rows, cols):
    """rows x cols matrix with orthonormal columns (cols <= rows), a deterministic function of the integer seed."""
    rng = np.random.default_rng(int(seed))
    M = rng.integers(-4, 5, size=(rows, rows)).astype(float) + 0.25 * np.eye(rows)
    Q, _ = np.linalg.qr(M)
    return Q[:, :cols]


def unfold(A, n):
    """mode-n unfolding, remaining modes in increasing order, first fastest (column order is irrelevant for the Gram)"""
    return np.reshape(np.moveaxis(A, n, 0), (A.shape[n], -1), order="F")


def fold(M, n, shape):
    rest = [shape[k] for k in range(len(shape)) if k != n]
    return np.moveaxis(np.reshape(M, [shape[n]] + rest, order="F"), 0, n)


def gram(A, n):
    Xn = unfold(A, n)
    return Xn @ Xn.T


# ----------------------------------------------------------------------------------------------------------------
# models: case -> dense array
# ----------------------------------------------------------------------------------------------------------------

SPECTRA = ["geometric", "close-pair", "dominant", "rank-deficient", "slow-decay"]


def spectrum(kind, m, scale):
    """m singular values of the mode-n unfolding (eigenvalues of the Gram are their squares)."""
    if kind == "geometric":
        s = [0.5 ** k for k in range(m)]
    elif kind == "close-pair":
        s = [1.0, 0.998] + [0.5 ** k for k in range(1, m - 1)]
    elif kind == "dominant":
        s = [1.0] + [0.05 * 0.6 ** k for k in range(m - 1)]
    elif kind == "rank-deficient":
        keep = max(1, m - 2)
        s = [0.7 ** k for k in range(keep)] + [0.0] * (m - keep)
    else:  # slow-decay: gaps of a few percent
        s = [1.0 - 0.04 * k for k in range(m)]
    return [float(scale) * x for x in s[:m]]


def dense_of(case):
    """The array every holder of this case denotes."""
    fam = case["family"]
    shape = tuple(case["shape"])
    if fam == "spectral":
        n = case["n"]
        I = shape[n]
        P = ref.prod(shape) // I
        m = min(I, P)
        U = orth(case["useed"], I, I)
        W = orth(case["wseed"], P, m)
        s = np.array(case["sing"], dtype=float)
        return fold((U[:, :m] * s[None, :]) @ W.T, n, shape)
    if fam == "cp":
        w, F = cp_parts(case)
        return ref.den_kruskal(w, F)
    if fam == "sparse":
        return gen.dense_of_sparse_case(case)
    raise ValueError(fam)


def cp_parts(case):
    """weights, factors of the CP-born model: orthonormal columns carrying `sigma`, plus small generic components."""
    shape = case["shape"]
    R = case["rank"]
    F = [orth(case["fseed"] + 17 * k, I, R) for k, I in enumerate(shape)]
    w = np.array(case["sigma"], dtype=float)
    if case.get("noise"):
        rng = np.random.default_rng(int(case["fseed"]) + 999)
        q = case["noise"]["rank"]
        E = []
        for I in shape:
            M = rng.integers(-3, 4, size=(I, q)).astype(float)
            M[0, :] += 0.5
            M /= np.linalg.norm(M, axis=0, keepdims=True)
            E.append(M)
        F = [np.concatenate([a, b], axis=1) for a, b in zip(F, E)]
        w = np.concatenate([w, np.array(case["noise"]["weights"], dtype=float)])
    return w, F


# ----------------------------------------------------------------------------------------------------------------
# holders of the same data
# ----------------------------------------------------------------------------------------------------------------


def as_tensor(X):
    return ttb.tensor(X.copy(order="F"), tuple(X.shape))


def as_sptensor(X, stored="sorted"):
    sc = gen.sparse_case_from_dense(X)
    if stored == "reverse":
        sc["subs"], sc["vals"] = sc["subs"][::-1], sc["vals"][::-1]
    return gen.build_sptensor(sc)


def as_ktensor(case, X):
    """Kruskal holder: the born CP when there is one, else the fibre representation along `kmode`:
    X = sum over fibres p of  x_p (in mode kmode) outer unit vectors (other modes)."""
    if case["family"] == "cp":
        w, F = cp_parts(case)
        return ttb.ktensor([f.copy() for f in F], w.copy())
    km = case["kmode"]
    shape = X.shape
    others = [k for k in range(len(shape)) if k != km]
    cols = list(itertools.product(*[range(shape[k]) for k in others]))
    cols = [c for c in cols if np.any(X[tuple(slice(None) if k == km else c[others.index(k)] for k in range(len(shape)))] != 0)]
    if not cols:
        cols = [tuple(0 for _ in others)]
    R = len(cols)
    F = [np.zeros((I, R)) for I in shape]
    for j, c in enumerate(cols):
        idx = tuple(slice(None) if k == km else c[others.index(k)] for k in range(len(shape)))
        F[km][:, j] = X[idx]
        for k, i in zip(others, c):
            F[k][i, j] = 1.0
    return ttb.ktensor(F, np.ones(R))


def as_ttensor(case, X, sparse_core):
    """Tucker holder.  cp family: super-diagonal core with the CP factors.  Otherwise dense core: X rotated by an
    orthogonal matrix per mode (factors undo it); sparse core: X with permuted indices, permutation-matrix factors."""
    shape = X.shape
    N = len(shape)
    if case["family"] == "cp":
        w, F = cp_parts(case)
        R = len(w)
        core = np.zeros((R,) * N)
        for j in range(R):
            core[(j,) * N] = w[j]
        fm = [f.copy() for f in F]
    elif sparse_core:
        rng = np.random.default_rng(int(case["tseed"]))
        perms = [rng.permutation(I) for I in shape]
        core = X[np.ix_(*perms)]  # core[i..] = X[perm[i]..]
        fm = []
        for p, I in zip(perms, shape):
            Pm = np.zeros((I, I))
            Pm[p, np.arange(I)] = 1.0  # X[a] = sum_i Pm[a, i] core[i]  with a = p[i]
            fm.append(Pm)
    else:
        Q = [orth(case["tseed"] + 31 * k, I, I) for k, I in enumerate(shape)]
        core = ref.den_tucker(X, [q.T for q in Q])
        fm = Q
    if sparse_core:
        c = gen.build_sptensor(gen.sparse_case_from_dense(core))
    else:
        c = ttb.tensor(core.copy(order="F"), tuple(core.shape))
    return ttb.ttensor(c, fm)


# ----------------------------------------------------------------------------------------------------------------
# strategies
# ----------------------------------------------------------------------------------------------------------------


def _limits(tier):
    return (5, 72) if tier == "quick" else (6, 220)


@st.composite
def _shape_with_mode(draw, tier, min_order=1):
    maxsize, maxcells = _limits(tier)
    N = draw(st.sampled_from([n for n in [1, 2, 2, 2, 3, 3, 3, 3, 4, 4] if n >= min_order]))
    n = draw(st.integers(0, N - 1))
    In = draw(st.sampled_from([1, 2, 3, 3, 4, 4, 4, 5, 5, maxsize]))
    shape = [0] * N
    shape[n] = In
    cells = In
    for k in range(N):
        if k != n:
            cap = max(1, min(maxsize, maxcells // cells))
            # singleton modes are kept (they matter) but not allowed to dominate: a unit product of the other modes
            # makes the Gram matrix rank one
            lo = 2 if cap >= 2 and draw(st.integers(0, 5)) > 0 else 1
            shape[k] = draw(st.integers(lo, cap))
            cells *= shape[k]
    return shape, n


SEEDS = st.integers(0, 2 ** 20)


@st.composite
def model_case(draw, tier, families=("spectral", "spectral", "cp", "sparse")):
    fam = draw(st.sampled_from(list(families)))
    shape, n = draw(_shape_with_mode(tier))
    N = len(shape)
    c = dict(family=fam, shape=shape, n=n, np_seed=draw(st.integers(0, 2 ** 31 - 1)), flipsign=draw(st.sampled_from([True, True, False])),
             stored=draw(st.sampled_from(["sorted", "reverse"])), tseed=draw(SEEDS), kmode=draw(st.integers(0, N - 1)))
    I = shape[n]
    if fam == "spectral":
        P = ref.prod(shape) // I
        m = min(I, P)
        kind = draw(st.sampled_from(SPECTRA))
        scale = draw(st.sampled_from([1.0, 1.0, 37.5, 1e3, 1e-3]))
        c.update(spectrum=kind, sing=spectrum(kind, m, scale), useed=draw(SEEDS), wseed=draw(SEEDS))
    elif fam == "cp":
        R = draw(st.integers(1, max(1, min(min(shape), 4))))
        base = draw(st.sampled_from(["geometric", "close-pair", "slow-decay"]))
        sig = spectrum(base, R, draw(st.sampled_from([1.0, 8.0, 0.05])))
        signs = draw(st.lists(st.sampled_from([1.0, 1.0, -1.0]), min_size=R, max_size=R))
        c.update(rank=R, sigma=[a * b for a, b in zip(sig, signs)], fseed=draw(SEEDS), spectrum="cp-" + base)
        if draw(st.booleans()):
            q = draw(st.integers(1, 2))
            c["noise"] = dict(rank=q, weights=[abs(sig[-1]) * 1e-4 * (k + 1) for k in range(q)])
        else:
            c["noise"] = None
    else:
        n_cells = ref.prod(shape)
        pattern = draw(st.sampled_from(["one", "some", "some", "all"]))
        flat = gen._pattern_values(draw, n_cells, pattern, "int")
        if all(v == 0 for v in flat):
            flat[draw(st.integers(0, n_cells - 1))] = 2.0
        A = gen.arr_F(shape, flat)
        s2 = gen.sparse_case_from_dense(A)
        c.update(subs=s2["subs"], vals=s2["vals"], spectrum="sparse-" + pattern)
    # r: both ends and the interior (the interior is the non-trivial class and needs I >= 3)
    inner = list(range(2, I))
    c["r"] = draw(st.sampled_from([1, I, max(1, I - 1)] + inner + inner))
    return c


def enum_models(tier):
    """A fixed list of models x every mode n x every r in 1..I_n x flipsign (the finite part of the quantifier)."""
    shapes = [(3, 4), (4, 3, 2), (2, 5, 3), (1, 4), (3, 3, 3), (5, 2)]
    if tier == "thorough":
        shapes += [(4, 4, 3), (2, 3, 2, 3), (6, 4), (3, 1, 5), (6, 2, 3)]
    seed = 100
    for sh in shapes:
        N = len(sh)
        for n in range(N):
            I = sh[n]
            P = ref.prod(sh) // I
            m = min(I, P)
            for kind in ("geometric", "close-pair", "rank-deficient"):
                seed += 1
                for r in range(1, I + 1):
                    for flip in (True, False):
                        yield dict(family="spectral", shape=list(sh), n=n, r=r, flipsign=flip, np_seed=seed, stored="reverse",
                                   tseed=seed + 5, kmode=(n + 1) % N, spectrum=kind, sing=spectrum(kind, m, 3.0),
                                   useed=seed + 1, wseed=seed + 2)
            if min(sh) >= 2:
                R = min(min(sh), 3)
                seed += 1
                for r in range(1, I + 1):
                    yield dict(family="cp", shape=list(sh), n=n, r=r, flipsign=True, np_seed=seed, stored="sorted", tseed=seed,
                               kmode=0, rank=R, sigma=[(-1.0) ** k * x for k, x in enumerate(spectrum("geometric", R, 2.0))],
                               fseed=seed, spectrum="cp-geometric", noise=dict(rank=1, weights=[1e-5]))


# ----------------------------------------------------------------------------------------------------------------
# the reference
# ----------------------------------------------------------------------------------------------------------------


def reference(X, n):
    G = gram(X, n)
    lam, V = np.linalg.eigh(G)
    order = np.argsort(-lam, kind="stable")
    lam, V = lam[order], V[:, order]
    lam = np.maximum(lam, 0.0)
    return G, lam, V


def separated(lam, r):
    """leading r eigenvalues pairwise separated, and separated from the rest, by SEP * lambda_1"""
    if lam[0] <= 0:
        return False
    upto = min(r + 1, len(lam))
    gaps = -np.diff(lam[:upto])
    return bool((gaps >= SEP * lam[0]).all()) if gaps.size else True
