"""Several live objects (shared by C01, C03, C06): an operation's result and its operands stay alive, one of them is
edited in place through the public interface, and every other one must be exactly what it was.

Nothing here calls a pyttb *operation*: objects are read through the public attributes that define their state and
edited with the documented item assignments (``T[...] = v``, ``S[subs] = v``, ``M[r, c] = v``) or, for plain NumPy /
SciPy arrays a method handed to the caller (``double()``, ``find()``, ``spmatrix()``, factor matrices, weights), with a
NumPy in-place assignment.
"""

from __future__ import annotations

import numpy as np

import pyttb as ttb


def _is_scipy(o):
    return hasattr(o, "toarray") and hasattr(o, "nnz") and hasattr(o, "data")


def state(o):
    """the arrays that make up the state of an object (views, not copies)"""
    if isinstance(o, np.ndarray):
        return [o]
    if isinstance(o, ttb.tensor):
        return [np.asarray(o.data)]
    if isinstance(o, ttb.sptensor):
        return [np.asarray(o.subs), np.asarray(o.vals)]
    if isinstance(o, ttb.tenmat):
        return [np.asarray(o.data), np.asarray(o.rindices), np.asarray(o.cindices), np.asarray(o.tshape)]
    if isinstance(o, ttb.sptenmat):
        return [np.asarray(o.subs), np.asarray(o.vals), np.asarray(o.rdims), np.asarray(o.cdims),
                np.asarray(o.tshape)]
    if isinstance(o, ttb.ktensor):
        return [np.asarray(o.weights)] + [np.asarray(f) for f in o.factor_matrices]
    if isinstance(o, ttb.ttensor):
        out = state(o.core)
        for f in o.factor_matrices:
            out += state(f)
        return out
    if isinstance(o, ttb.sumtensor):
        out = []
        for p in o.parts:
            out += state(p)
        return out
    if _is_scipy(o):
        out = [np.asarray(o.data)]
        for name in ("row", "col", "indices", "indptr"):
            if hasattr(o, name):
                out.append(np.asarray(getattr(o, name)))
        return out
    if isinstance(o, (tuple, list)):
        out = []
        for x in o:
            out += state(x)
        return out
    raise TypeError(type(o).__name__)


def snapshot(o):
    return [np.array(a, copy=True) for a in state(o)]


def same_state(o, snap) -> bool:
    try:
        cur = state(o)
    except Exception:  # noqa: BLE001
        return False
    if len(cur) != len(snap):
        return False
    for a, b in zip(cur, snap):
        if a.shape != b.shape:
            return False
        if a.size == 0:
            continue
        try:
            if a.dtype.kind in "fc" or b.dtype.kind in "fc":
                if not np.array_equal(a, b, equal_nan=True):
                    return False
            elif not np.array_equal(a, b):
                return False
        except Exception:  # noqa: BLE001
            return False
    return True


def _other(a):
    """an array of a's shape and dtype that differs from a in every entry (0/1 valued: fits every dtype)"""
    a = np.asarray(a)
    if a.dtype == bool:
        return ~a
    return np.where(a == 1, 0, 1).astype(a.dtype)


def _other_nz(a):
    """differs from a in every entry and has no zero (stored values of sparse objects)"""
    a = np.asarray(a)
    if a.dtype == bool:
        return np.ones(a.shape, dtype=bool)  # cannot differ and stay nonzero: caller inserts an entry instead
    return np.where(a == 1, 2, 1).astype(a.dtype)


def edit(o) -> bool:
    """Change the object in place through its public interface so that every value it stores is another one
    (empty sparse objects get one entry).  Returns False when nothing could be edited; never raises (assignments are
    judged by their own property)."""
    try:
        if isinstance(o, np.ndarray):
            if o.size == 0 or not o.flags.writeable:
                return False
            o[...] = _other(o)
            return True
        if isinstance(o, ttb.tensor):
            d = np.asarray(o.data)
            if d.size == 0:
                return False
            key = (slice(None),) * d.ndim if d.ndim > 1 else slice(None)
            o[key] = _other(d).astype(float)
            return True
        if isinstance(o, ttb.sptensor):
            N = len(o.shape)
            if N == 0 or any(int(n) == 0 for n in o.shape):
                return False
            if o.subs.size and np.asarray(o.vals).dtype != bool:
                n = o.subs.shape[0] if o.subs.shape[0] <= 500 else 3  # (pyttb matches subscript rows all-pairs)
                o[np.array(o.subs[:n], copy=True)] = _other_nz(o.vals[:n]).astype(float).reshape(-1, 1)
            else:
                o[np.zeros((1, N), dtype=int)] = 5.0
            return True
        if isinstance(o, ttb.tenmat):
            d = np.asarray(o.data)
            if d.size == 0 or d.ndim != 2:
                return False
            o[:, :] = _other(d)
            return True
        if isinstance(o, ttb.sptenmat):
            if any(int(n) == 0 for n in o.shape):
                return False
            if o.subs.size:
                vals = np.asarray(o.vals).reshape(-1)
                new = _other_nz(vals).astype(float)
                for i in range(min(3, o.subs.shape[0])):
                    o[int(o.subs[i, 0]), int(o.subs[i, 1])] = float(new[i])
            else:
                o[0, 0] = 5.0
            return True
        if isinstance(o, ttb.ktensor):
            done = edit(o.weights)
            for f in o.factor_matrices:
                done = edit(f) or done
            return done
        if isinstance(o, ttb.ttensor):
            done = edit(o.core)
            for f in o.factor_matrices:
                done = edit(f) or done
            return done
        if isinstance(o, ttb.sumtensor):
            done = False
            for p in o.parts:
                done = edit(p) or done
            return done
        if _is_scipy(o):
            return edit(o.data)
        if isinstance(o, (tuple, list)):
            done = False
            for x in o:
                done = edit(x) or done
            return done
    except Exception:  # noqa: BLE001
        return True  # something may have been written before the exception
    return False


class Live:
    """The objects a case has obtained so far, each with a copy of its state.

    keep(name, obj, group): remember obj (objects of one *group* are allowed to share state: copy=False forms).
    judge(event): every kept object must still be in the state it was in when kept (or last edited); a change is a
    violation `<name>:changed-by:<event>` (reported once, then the new state is the reference).
    edit_all(): edit every kept object in turn through the public interface and judge all the others after each.
    """

    def __init__(self, ctx, prefix=""):
        self.ctx = ctx
        self.prefix = prefix
        self.items = []

    def keep(self, name, obj, group=None):
        if obj is None:
            return obj
        try:
            snap = snapshot(obj)
        except Exception:  # noqa: BLE001
            return obj
        self.items.append([name, obj, snap, group])
        return obj

    def touched(self, obj):
        """obj was changed on purpose: its present state is the reference from now on"""
        for it in self.items:
            if it[1] is obj:
                try:
                    it[2] = snapshot(obj)
                except Exception:  # noqa: BLE001
                    pass

    def judge(self, event, but=None):
        ok = True
        for it in self.items:
            if it is but:
                continue
            if but is not None and it[3] is not None and it[3] == but[3]:
                self.touched(it[1])
                continue
            if not same_state(it[1], it[2]):
                ok = False
                self.ctx.check(False, f"{self.prefix}{it[0]}:changed-by:{event}")
                self.touched(it[1])
        return ok

    def edit_all(self, only=None):
        n = 0
        for it in list(self.items):
            if only is not None and it[0] not in only:
                continue
            if edit(it[1]):
                n += 1
                try:  # only this entry: the same object kept under another name (an operation that handed back
                    it[2] = snapshot(it[1])  # its operand) is judged like any other object
                except Exception:  # noqa: BLE001
                    pass
                self.judge(f"edit-of-{it[0]}", but=it)
        return n


def run_salt() -> int:
    """Hypothesis starts every run of a cell (every shard) with its simplest example (all draws minimal).  Cells that
    run a handful of large, seed-expanded cases per run mix the seed of the run into the drawn seed - and skip the
    simplest example, which is the same in every shard."""
    import os
    import zlib

    return zlib.crc32(("salt" + os.environ.get("VERIF_SEED", "1")).encode())
