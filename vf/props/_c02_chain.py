"""C02 cells for histories (round 2): results of one multilinear operation fed into the next, and several calls on the
same operand objects.

  C02/chain/<holder>     2-3 operations applied one after the other (ttv, ttm, scale, collapse, contract, permute; the
                         last one may be norm / innerprod / mttkrp / a full contraction); every intermediate result is
                         compared with the defining sum evaluated on the array the case denotes.  Dense and sparse
                         holders are optionally *mirrored* (a slice repeated with sign s) and then contracted with
                         (c, -s*c, 0, ...): exact cancellation, so that a sparse result holds fewer entries than products
                         were formed (and explicitly stored zeros, if the kernel keeps them, go into the next step).
                         Afterwards the first operation is repeated on the original object: same answer.
  C02/sequence/<holder>  2-4 calls (mttkrp for several n, ttv over several mode subsets, innerprod, norm) sharing the
                         receiver, one Kruskal / list operand, one vector list and one second tensor: the k-th call
                         depends on its own arguments only.
"""

from __future__ import annotations

import numpy as np
from hypothesis import strategies as st

import pyttb as ttb

from .. import gen, ref
from ..core import cell
from . import _c02_common as cm
from . import _c02_mttkrp as mk

ARRAY_OPS = ("ttv", "ttv", "ttm", "scale", "collapse", "contract", "permute")
OPS = {"tensor": ARRAY_OPS, "sptensor": ARRAY_OPS, "ktensor": ("ttv", "ttv", "permute"),
       "ttensor": ("ttv", "ttv", "ttm", "permute"), "sumtensor": ("ttv",)}
FINAL = {"tensor": ("norm", "innerprod", "mttkrp", "mttkrp", "ttv-all"), "sptensor": ("norm", "innerprod", "mttkrp", "mttkrp", "ttv-all"),
         "ktensor": ("norm", "innerprod", "mttkrp", "mttkrp", "ttv-all"), "ttensor": ("norm", "innerprod", "mttkrp", "mttkrp", "ttv-all"),
         "sumtensor": ("innerprod", "mttkrp", "mttkrp", "ttv-all")}


def _vec(draw, n, vk, avoid_small, cancel=None):
    """(values, dtype).  cancel=(s, c): the vector (c, -s*c, 0, ...) that cancels a mirrored pair of slices."""
    if cancel is not None and n >= 2:
        s, c = cancel
        return [float(c), float(-s * c)] + [0.0] * (n - 2), draw(st.sampled_from([None, None, "int64", "float64@strided"]))
    pat = draw(st.sampled_from(cm.VEC_PATTERNS))
    return cm.operand_values(draw, n, pat, vk, avoid_small)


def _draw_step(draw, op, shape, vk, small, cancel_mode=None, cancel=None):
    """one operation on an array of the given shape: (step dict, shape afterwards)"""
    N = len(shape)
    if op == "ttv":
        k = draw(st.integers(1, N - 1))
        sel = list(draw(st.permutations(range(N))))[:k]
        if cancel_mode is not None and cancel_mode not in sel:
            sel[0] = cancel_mode
        vecs, vdt = [], []
        for m in sel:
            v, dt = _vec(draw, shape[m], vk, small, cancel if m == cancel_mode else None)
            vecs.append(v)
            vdt.append(dt)
        form = draw(st.sampled_from(["dims", "dims", "int"])) if k == 1 else "dims"
        des = dict(form=form, sel=sel, excl=None, container="array" if form == "dims" else "scalar")
        return dict(op="ttv", des=des, vecs=vecs, vdtypes=vdt), [n for d, n in enumerate(shape) if d not in sel]
    if op == "ttm":
        k = draw(st.integers(1, min(2, N)))
        sel = list(draw(st.permutations(range(N))))[:k]
        if cancel_mode is not None and cancel_mode not in sel:
            sel[0] = cancel_mode
        mats, mdt, new = [], [], list(shape)
        for m in sel:
            J = draw(st.integers(1, 3))
            rows = []
            for r in range(J):
                v, _ = _vec(draw, shape[m], vk, True, cancel if (m == cancel_mode and r == 0) else None)
                rows.append(v)
            mats.append(rows)
            mdt.append(cm.operand_dtype(draw, vk, True))
            new[m] = J
        return dict(op="ttm", sel=sel, mats=mats, mdtypes=mdt, transpose=draw(st.booleans())), new
    if op == "scale":
        m = draw(st.integers(0, N - 1))
        pat = draw(st.sampled_from(["all", "some", "some", "one"]))  # zeros in the factor: stored zeros in a sparse result
        f, dt = cm.operand_values(draw, shape[m], pat, vk, small)
        return dict(op="scale", mode=m, factor=f, fdtype=dt), list(shape)
    if op == "collapse":
        k = draw(st.integers(1, N - 1))
        dims = list(draw(st.permutations(range(N))))[:k]
        if cancel_mode is not None and cancel_mode not in dims:
            dims[0] = cancel_mode
        return dict(op="collapse", dims=dims), [n for d, n in enumerate(shape) if d not in dims]
    if op == "contract":
        pairs = [(i, j) for i in range(N) for j in range(N) if i != j and shape[i] == shape[j]]
        if not pairs or N < 3:
            return None, shape
        i, j = draw(st.sampled_from(pairs))
        return dict(op="contract", i=i, j=j), [n for d, n in enumerate(shape) if d not in (i, j)]
    if op == "permute":
        p = list(draw(st.permutations(range(N))))
        return dict(op="permute", perm=p), [shape[i] for i in p]
    raise ValueError(op)


def _draw_final(draw, op, shape, vk, small):
    N = len(shape)
    if op == "norm":
        return dict(op="norm")
    if op == "innerprod":
        Y = draw(cm.dense_holder(list(shape), vk, patterns=("some", "all", "all")))
        if small:
            Y.pop("dtype", None)
        return dict(op="innerprod", Y=Y)
    if op == "mttkrp":
        if N < 2:
            return None
        return dict(op="mttkrp", n=draw(st.integers(0, N - 1)), U=draw(mk._operand(list(shape), vk)))
    vecs, vdt = [], []
    for n in shape:
        v, dt = _vec(draw, n, vk, small)
        vecs.append(v)
        vdt.append(dt)
    return dict(op="ttv", des=dict(form="all", sel=list(range(N)), excl=None, container="none"), vecs=vecs, vdtypes=vdt)


def _mirror(h, m, sign, mask):
    """slice 1 of mode m := sign * slice 0 on the fibres selected by mask (a flat list cycled over the fibres)"""
    A = cm.den_case(h)
    if A.shape[m] < 2 or h["holder"] not in ("tensor", "sptensor"):
        return h
    idx0 = [slice(None)] * A.ndim
    idx1 = list(idx0)
    idx0[m], idx1[m] = 0, 1
    a0, a1 = A[tuple(idx0)], A[tuple(idx1)].copy()
    sel = np.resize(np.array(mask, dtype=bool), a0.size).reshape(a0.shape) if a0.size else np.zeros(a0.shape, dtype=bool)
    a1[sel] = sign * a0[sel]
    if h.get("dtype") == "uint8":
        a1 = np.abs(a1)
    A[tuple(idx1)] = a1
    h = dict(h)
    if h["holder"] == "tensor":
        h["data"] = [float(A[s]) for s in ref.all_subs_F(A.shape)]
    else:
        old = [tuple(s) for s in h["subs"]]
        keep = [s for s in old if A[s] != 0]
        new = [s for s in ref.all_subs_F(A.shape) if A[s] != 0 and s not in set(old)]
        subs = keep + new
        h["subs"], h["vals"] = [list(s) for s in subs], [float(A[s]) for s in subs]
        st_ = dict(h.get("state") or {})
        if "at" in st_:
            st_["at"] = [min(a, len(subs)) for a in st_["at"]]
        h["state"] = st_
    return h


def _tame_uint8(h):
    """uint8 storage only while no sum of entries can pass 255: sparse reductions add the values up in their own dtype
    (known finding C02-KF20, judged in C02/collapse); here a wrapped intermediate result would only blur the chain"""
    if h["holder"] == "sumtensor":
        for p in h["parts"]:
            _tame_uint8(p)
    elif h.get("dtype") == "uint8" and sum(abs(v) for v in (h.get("data") or h.get("vals") or [])) > 255:
        h["dtype"] = "int64"


def _chain_strategy(kind):
    @st.composite
    def s(draw, tier):
        h = draw(cm.holder(tier, kind, min_order=2))
        _tame_uint8(h)
        vk = h["vkind"]
        small = cm.has_small_dtype(h)
        shape = list(h["shape"])
        cancel_mode = cancel = None
        if kind in ("tensor", "sptensor") and draw(st.integers(0, 2)) == 0:
            cand = [m for m in range(len(shape)) if shape[m] >= 2]
            if cand and h.get("dtype") != "uint8":
                cancel_mode = draw(st.sampled_from(cand))
                sign = draw(st.sampled_from([1, -1]))
                mask = draw(st.lists(st.booleans(), min_size=1, max_size=8))
                h = _mirror(h, cancel_mode, sign, mask)
                cancel = (sign, draw(st.sampled_from([1, 2, -3])))
        steps = []
        nsteps = draw(st.integers(2, 3))
        for i in range(nsteps):
            if len(shape) < 2:
                break
            if i == 0 and cancel_mode is not None:
                op = draw(st.sampled_from(["ttv", "ttm"] + (["collapse"] if cancel[0] == -1 else [])))
                step, new = _draw_step(draw, op, shape, vk, small, cancel_mode, cancel)
            else:
                step, new = _draw_step(draw, draw(st.sampled_from(OPS[kind])), shape, vk, small)
            if step is None:
                continue
            steps.append(step)
            shape = new
        if draw(st.booleans()) or not steps:
            fin = _draw_final(draw, draw(st.sampled_from(FINAL[kind])), shape, vk, small)
            if fin is not None:
                steps.append(fin)
        return dict(X=h, steps=steps, mirrored=cancel_mode is not None)

    return s


# --------------------------------------------------------------------------
# applying one step: pyttb call, reference, bound
# --------------------------------------------------------------------------


_BUILT = {}  # id(operand case dict) -> (operand object, defining parameters), per body run


def _operand(u):
    if id(u) not in _BUILT:
        _BUILT[id(u)] = mk.build_operand(u, [len(f) for f in u["factors"]])
    return _BUILT[id(u)]


def _call(X, step):
    """the pyttb call of a step on the current object"""
    op = step["op"]
    if op == "ttv":
        des = step["des"]
        vecs = {m: cm.cast(v, dt) for m, v, dt in zip(des["sel"], step["vecs"], step["vdtypes"])}
        arg, kw = cm.call_args(des, len(vecs) if des["form"] == "all" else max(des["sel"]) + 1, vecs, lambda m: np.array([]))
        return X.ttv(arg, **kw)
    if op == "ttm":
        mats = [cm.cast(np.array(M, dtype=float), dt) for M, dt in zip(step["mats"], step["mdtypes"])]
        if step["transpose"]:
            mats = [np.ascontiguousarray(M.T) for M in mats]
        return X.ttm(mats, dims=np.array(step["sel"], dtype=int), transpose=bool(step["transpose"]))
    if op == "scale":
        return X.scale(cm.cast(step["factor"], step["fdtype"]), int(step["mode"]))
    if op == "collapse":
        return X.collapse(np.array(step["dims"], dtype=int))
    if op == "contract":
        return X.contract(int(step["i"]), int(step["j"]))
    if op == "permute":
        return X.permute(np.array(step["perm"], dtype=int))
    if op == "norm":
        return X.norm()
    if op == "innerprod":
        return X.innerprod(cm.build(step["Y"]))
    if op == "mttkrp":
        return X.mttkrp(_operand(step["U"])[0], int(step["n"]))
    raise ValueError(op)


def _ref(A, B, step):
    """(reference, bound, terms summed per entry, result is exact for integer data) of a step applied to the array A
    with absolute-value companion B"""
    op = step["op"]
    if op == "ttv":
        vecs = {m: np.array(v, dtype=float) for m, v in zip(step["des"]["sel"], step["vecs"])}
        n = ref.prod(A.shape[m] for m in vecs) * (len(vecs) + 1)
        return cm.ref_ttv(A, vecs), cm.ref_ttv(B, {m: np.abs(v) for m, v in vecs.items()}), n
    if op == "ttm":
        mats = {m: np.array(M, dtype=float) for m, M in zip(step["sel"], step["mats"])}
        n = ref.prod(A.shape[m] for m in mats) * (len(mats) + 1)
        return cm.ref_ttm(A, mats), cm.ref_ttm(B, {m: np.abs(M) for m, M in mats.items()}), n
    if op == "scale":
        f = np.array(step["factor"], dtype=float).reshape([-1 if d == step["mode"] else 1 for d in range(A.ndim)])
        return A * f, B * np.abs(f), 2
    if op == "collapse":
        ax = tuple(sorted(step["dims"]))
        return A.sum(axis=ax), B.sum(axis=ax), ref.prod(A.shape[d] for d in ax) + 1
    if op == "contract":
        return (np.trace(A, axis1=step["i"], axis2=step["j"]), np.trace(B, axis1=step["i"], axis2=step["j"]),
                A.shape[step["i"]] + 1)
    if op == "permute":
        return np.transpose(A, step["perm"]), np.transpose(B, step["perm"]), 1
    if op == "innerprod":
        Y = cm.den_case(step["Y"])
        return np.array(float(np.sum(A * Y))), np.array(float(np.sum(B * np.abs(Y)))), A.size + 1
    if op == "mttkrp":
        fm, w = _operand(step["U"])[1]
        return (cm.ref_mttkrp(A, fm, step["n"], w), cm.ref_mttkrp(B, [np.abs(m) for m in fm], step["n"], np.abs(w)),
                A.size * (A.ndim + 2))
    raise ValueError(op)


def _step_exact(step):
    if step["op"] == "mttkrp":
        return mk.operand_exact(step["U"])
    if step["op"] == "innerprod":
        return cm.intvalued(step["Y"])
    return True


def _apply(ctx, X, A, B, nterms, exact, step, tag):
    """run one step, compare; returns (result object, reference, bound, nterms)"""
    op = step["op"]
    what = f"{type(X).__name__}.{op}{tag}"
    with ctx.sut(what):
        R = _call(X, step)
    ctx.label("step-" + op, "step-" + op + "-on-" + type(X).__name__, cm.result_kind(R) if op not in ("norm",) else "result-norm")
    if op == "norm":
        ctx.require(isinstance(R, cm.SCALAR_TYPES) and not isinstance(R, bool), f"norm{tag}-returns-scalar", type(R).__name__)
        S, Bq = float(np.sum(A * A)), float(np.sum(B * B))
        tol = 64 * (2 * nterms + A.size + 1) * ref.EPS * Bq + 8 * ref.EPS * S + 1e-290
        ctx.check(abs(float(R) ** 2 - S) <= tol, f"norm{tag}-value", f"norm^2 {float(R) ** 2!r} vs {S!r} tol {tol:.3g}")
        return R, None, None, nterms
    expect, bound, n = _ref(A, B, step)
    allow = ("tensor", "sptensor", "ktensor", "ttensor", "sumtensor", "scalar") + (("ndarray",) if op in ("mttkrp", "collapse") else ())  # sptensor.collapse hands a one-mode result back as an array
    got = cm.result_array(ctx, R, f"{op}{tag}-result", allow=allow)
    if isinstance(R, ttb.sptensor):
        ctx.label("result-sparse-with-stored-zeros" if R.vals.size and (R.vals == 0).any() else "result-sparse-no-stored-zeros")
    if expect.ndim == 0 and op in ("ttv", "innerprod"):
        ctx.check(isinstance(R, cm.SCALAR_TYPES), f"{op}{tag}-full-contraction-gives-scalar", type(R).__name__)
    total = nterms * n + nterms + n  # roundings of the input carried through the sum, plus the sum's own
    cm.compare(ctx, got, expect, bound, total, exact and _step_exact(step), f"{op}{tag}-value", f"step={ {k: v for k, v in step.items() if k not in ('vecs', 'mats', 'factor', 'Y', 'U')} }")
    return R, expect, bound, total


def chain_body(ctx, case):
    _BUILT.clear()
    h, steps = case["X"], case["steps"]
    X0 = cm.build(h)
    A, B = cm.den_case(h), cm.den_case(h, absolute=True)
    exact = cm.intvalued(h)
    nterms = cm.terms(h)
    ctx.label(*cm.holder_labels(h), *cm.object_labels(X0), f"steps{len(steps)}", "mirrored" if case.get("mirrored") else "plain")
    X = X0
    cancelled = False
    for i, step in enumerate(steps):
        tag = f"[{i}]"
        if not hasattr(X, step["op"] if step["op"] != "ttv-all" else "ttv"):
            ctx.label("chain-stopped:" + type(X).__name__ + "-has-no-" + step["op"])
            break
        if step["op"] not in ("norm", "innerprod", "mttkrp", "permute", "scale"):
            # exact cancellation: products were formed for an entry whose sum is exactly zero
            e, b, _ = _ref(A, B, step)
            cancelled = cancelled or bool(np.any((e == 0) & (b != 0)))
        R, e, b, nterms = _apply(ctx, X, A, B, nterms, exact, step, tag)
        exact = exact and _step_exact(step)
        if e is None or e.ndim == 0 or isinstance(R, (np.ndarray,) + cm.SCALAR_TYPES):
            break
        X, A, B = R, e, b
    ctx.label("exact-cancellation" if cancelled else "no-cancellation")
    ctx.nt = len(steps) >= 2 and len(set(h["shape"])) >= 2 and bool(np.any(A != 0))
    # the first operation once more on the original object: the answer does not depend on what happened since
    if steps:
        _apply(ctx, X0, cm.den_case(h), cm.den_case(h, absolute=True), cm.terms(h), cm.intvalued(h), steps[0], "[again]")


for _k, (_q, _t) in {"tensor": (500, 8000), "sptensor": (700, 10000), "ktensor": (300, 5000), "ttensor": (400, 6000),
                     "sumtensor": (300, 4000)}.items():
    cell(f"C02/chain/{_k}", strategy=_chain_strategy(_k), quick=_q, thorough=_t, shards=(2, 8))(chain_body)


# --------------------------------------------------------------------------
# several calls on the same operand objects
# --------------------------------------------------------------------------


def _sequence_strategy(kind):
    @st.composite
    def s(draw, tier):
        h = draw(cm.holder(tier, kind, min_order=2))
        shape, vk = h["shape"], h["vkind"]
        N = len(shape)
        small = cm.has_small_dtype(h)
        U = draw(mk._operand(shape, vk))
        vecs, vdt = [], []
        for n in shape:
            v, dt = _vec(draw, n, vk, small)
            vecs.append(v)
            vdt.append(dt)
        Y = draw(cm.holder_with_shape(shape, vk, draw(st.sampled_from(["tensor", "sptensor", "ktensor"]))))
        if small:
            Y.pop("dtype", None)
        calls = []
        for _ in range(draw(st.integers(2, 4))):
            op = draw(st.sampled_from(["mttkrp", "mttkrp", "ttv", "ttv", "innerprod"] + ([] if kind == "sumtensor" else ["norm"])))
            if op == "mttkrp":
                calls.append(dict(op=op, n=draw(st.integers(0, N - 1))))
            elif op == "ttv":
                # a proper subset of the modes in any listed order (multiplicands indexed by mode), or all of them
                k = draw(st.integers(1, N))
                calls.append(dict(op=op, sel=list(draw(st.permutations(range(N))))[:k] if k < N else None))
            else:
                calls.append(dict(op=op))
        return dict(X=h, U=U, vecs=vecs, vdtypes=vdt, Y=Y, calls=calls)

    return s


def sequence_body(ctx, case):
    h, u = case["X"], case["U"]
    shape = h["shape"]
    N = len(shape)
    _BUILT.clear()
    X = cm.build(h)
    U = _operand(u)[0]
    Y = cm.build(case["Y"])
    vlist = [cm.cast(v, dt) for v, dt in zip(case["vecs"], case["vdtypes"])]  # one list object, one entry per mode
    A, B = cm.den_case(h), cm.den_case(h, absolute=True)
    exact = cm.intvalued(h)
    ctx.label(*cm.holder_labels(h), *cm.object_labels(X), f"calls{len(case['calls'])}",
              "U-" + u["kind"] + ("-weighted" if any(w != 1.0 for w in u["weights"]) else ""))
    ops = [c["op"] for c in case["calls"]]
    ctx.label("repeats-an-operation" if len(set(ops)) < len(ops) else "all-different")
    ctx.nt = len(set(shape)) >= 2 and bool(np.any(A != 0))
    for i, c in enumerate(case["calls"]):
        tag = f"[{i}]"
        if c["op"] == "mttkrp":
            step = dict(op="mttkrp", n=c["n"], U=u)
            with ctx.sut(f"{h['holder']}.mttkrp{tag}"):
                R = X.mttkrp(U, int(c["n"]))
            ctx.require(isinstance(R, np.ndarray), f"mttkrp{tag}-returns-ndarray", type(R).__name__)
            e, b, n = _ref(A, B, step)
            cm.compare(ctx, R, e, b, cm.terms(h) * n, exact and _step_exact(step), f"mttkrp{tag}-value", f"n={c['n']}")
        elif c["op"] == "ttv":
            sel = c["sel"] if c["sel"] is not None else list(range(N))
            with ctx.sut(f"{h['holder']}.ttv{tag}"):
                # one multiplicand per tensor mode, indexed by mode
                R = X.ttv(vlist, dims=np.array(sel, dtype=int)) if c["sel"] is not None else X.ttv(vlist)
            vecs = {m: np.array(case["vecs"][m], dtype=float) for m in sel}
            e = cm.ref_ttv(A, vecs)
            b = cm.ref_ttv(B, {m: np.abs(v) for m, v in vecs.items()})
            got = cm.result_array(ctx, R, f"ttv{tag}-result")
            n = cm.terms(h) * ref.prod(shape[m] for m in sel) * (len(sel) + 1)
            cm.compare(ctx, got, e, b, n, exact, f"ttv{tag}-value", f"sel={sel}")
        elif c["op"] == "innerprod":
            with ctx.sut(f"{h['holder']}.innerprod{tag}"):
                r = X.innerprod(Y)
            ctx.require(isinstance(r, cm.SCALAR_TYPES) and not isinstance(r, bool), f"innerprod{tag}-returns-scalar",
                        type(r).__name__)
            Yd, Yb = cm.den_case(case["Y"]), cm.den_case(case["Y"], absolute=True)
            n = cm.terms(h) * cm.terms(case["Y"]) * A.size + 1
            cm.compare(ctx, np.array(float(r)), np.array(float(np.sum(A * Yd))), np.array(float(np.sum(B * Yb))), n,
                       cm.intvalued(h, case["Y"]), f"innerprod{tag}-value")
        else:
            with ctx.sut(f"{h['holder']}.norm{tag}"):
                r = X.norm()
            ctx.require(isinstance(r, cm.SCALAR_TYPES) and not isinstance(r, bool), f"norm{tag}-returns-scalar", type(r).__name__)
            S, Bq = float(np.sum(A * A)), float(np.sum(B * B))
            tol = 64 * ((cm.terms(h) ** 2) * A.size + 1) * ref.EPS * Bq + 8 * ref.EPS * S + 1e-290
            ctx.check(abs(float(r) ** 2 - S) <= tol, f"norm{tag}-value", f"norm^2 {float(r) ** 2!r} vs {S!r}")


for _k, (_q, _t) in {"tensor": (300, 5000), "sptensor": (300, 5000), "ktensor": (300, 5000), "ttensor": (300, 5000),
                     "sumtensor": (200, 3000)}.items():
    cell(f"C02/sequence/{_k}", strategy=_sequence_strategy(_k), quick=_q, thorough=_t, shards=(2, 8))(sequence_body)
