"""Helpers for C12 (and C13): the ten GCP losses as data (domain, parameters, rounding scales),
differentiation oracles, generators of models / data / weights, NumPy references for the tensor-level
objective, its gradient and the sampled estimator.

Nothing in here calls pyttb except ``fg_setup.setup`` (to obtain the handle pair under test) and the
constructors in ``build_*``.
"""

from __future__ import annotations

import math
from typing import Dict, List, Optional, Sequence

import numpy as np
from hypothesis import strategies as st

import pyttb as ttb
from pyttb.gcp.handles import Objectives

from .. import gen, ref

EPS = np.finfo(float).eps
SHIFT = 1e-10  # the documented regularisation constant of pyttb.gcp.handles (EPS there)

# --------------------------------------------------------------------------
# the ten losses: data domain, model domain (lower bound), extra parameter
# --------------------------------------------------------------------------

LOSSES: Dict[str, dict] = {
    "gaussian": dict(obj="GAUSSIAN", data="real", lb=-math.inf, param=None),
    "bernoulli_odds": dict(obj="BERNOULLI_ODDS", data="binary", lb=0.0, param=None),
    "bernoulli_logit": dict(obj="BERNOULLI_LOGIT", data="binary", lb=-math.inf, param=None),
    "poisson": dict(obj="POISSON", data="count", lb=0.0, param=None),
    "poisson_log": dict(obj="POISSON_LOG", data="count", lb=-math.inf, param=None),
    "rayleigh": dict(obj="RAYLEIGH", data="nonneg", lb=0.0, param=None),
    "gamma": dict(obj="GAMMA", data="nonneg", lb=0.0, param=None),
    "huber": dict(obj="HUBER", data="real", lb=-math.inf, param="threshold"),
    "negative_binomial": dict(obj="NEGATIVE_BINOMIAL", data="count", lb=0.0, param="num_trials"),
    "beta": dict(obj="BETA", data="nonneg", lb=0.0, param="b"),
}
LOSS_NAMES = list(LOSSES)
ANALYTIC = [n for n in LOSS_NAMES if n != "huber"]


def objective(name: str):
    return getattr(Objectives, LOSSES[name]["obj"])


def param_strategy(name: str):
    p = LOSSES[name]["param"]
    if p is None:
        return st.none()
    if p == "threshold":
        return st.one_of(st.sampled_from([0.25, 0.5, 1.0, 2.0]), st.floats(0.05, 20.0, allow_nan=False),
                         st.floats(0.05, 20.0, allow_nan=False), st.floats(1e-4, 0.05, allow_nan=False),
                         st.floats(20.0, 1e4, allow_nan=False))
    if p == "num_trials":
        return st.one_of(st.integers(1, 20).map(float), st.floats(0.1, 50.0, allow_nan=False),
                         st.integers(20, 10**4).map(float))
    # beta: b not in {0, 1} (the loss divides by b and b-1); b in (0,1) is the usual range
    return st.one_of(
        st.sampled_from([0.5, 0.25, 0.75, 1.5, 2.0, 3.0, -0.5, -1.0]),
        st.floats(0.05, 0.95, allow_nan=False),
        st.floats(1.05, 3.0, allow_nan=False),
    )


def sfloats(lo: float, hi: float):
    """floats of either sign with magnitude in [lo, hi] (no subnormal / tiny magnitudes: the complex step
    h = 1e-30 times such a value would underflow in *my* derivative, not in pyttb)."""
    return st.one_of(st.floats(lo, hi, allow_nan=False), st.floats(-hi, -lo, allow_nan=False))


def data_value(kind: str, small: bool = False):
    """One data value in the loss's data domain."""
    if kind == "binary":
        return st.sampled_from([0.0, 1.0])
    if kind == "count":
        big = st.integers(7, 40 if small else 1000).map(float)
        if small:
            return st.one_of(st.just(0.0), st.just(1.0), st.integers(2, 6).map(float), big)
        return st.one_of(st.just(0.0), st.just(1.0), st.integers(2, 6).map(float), big, big,
                         st.integers(1000, 10**6).map(float))
    if kind == "nonneg":
        hi = 20.0 if small else 1e3
        base = [st.just(0.0), st.just(1.0), st.integers(2, 6).map(float),
                st.floats(1e-2 if small else 1e-3, hi, allow_nan=False)]
        if not small:  # magnitudes 1e-6 .. 1e+6
            base += [st.floats(1e-2, hi, allow_nan=False), st.floats(1e-6, 1e-3, allow_nan=False),
                     st.floats(1e3, 1e6, allow_nan=False), st.floats(1e-12, 1e-6, allow_nan=False)]
        return st.one_of(*base)
    hi = 10.0 if small else 1e3
    base = [st.just(0.0), st.integers(-6, 6).map(float), sfloats(1e-3, hi)]
    if not small:
        base += [sfloats(1e-3, hi), sfloats(1e-6, 1e-3), sfloats(1e3, 1e6), sfloats(1e-12, 1e-6)]
    return st.one_of(*base)


def data_class(x: float) -> str:
    if x == 0:
        return "x=0"
    if x == 1:
        return "x=1"
    if x < 0:
        return "x<0"
    if x == round(x):
        return "x>1-int"
    return "x>0-nonint"


def model_value(name: str):
    """One model value in the loss's domain (lower bound 0 => m >= 0, including 0 itself: the handles
    add 1e-10 inside log / division, so they are defined and differentiable at 0)."""
    lb = LOSSES[name]["lb"]
    if lb == 0.0:
        return st.one_of(st.just(0.0), st.floats(1e-8, 1e-3), st.floats(1e-3, 1.0), st.floats(1.0, 1e3), st.floats(1e-3, 1.0),
                         st.floats(1.0, 1e3), st.floats(1e3, 1e6), st.floats(1e-15, 1e-8))
    if name in ("bernoulli_logit", "poisson_log"):
        return st.one_of(st.just(0.0), sfloats(1e-6, 5), sfloats(1e-3, 30))
    return st.one_of(st.just(0.0), sfloats(1e-6, 5), sfloats(1e-3, 1e3), sfloats(1e-3, 1e3), sfloats(1e3, 1e6), sfloats(1e-12, 1e-6))


# --------------------------------------------------------------------------
# rounding scales: sum of the absolute values of the terms of f and of df/dm
# (used only to size floating-point tolerances; both sides are evaluated in
# double precision with a handful of operations)
# --------------------------------------------------------------------------


def scale_g(name: str, x, m, p=None):
    x = np.abs(np.asarray(x, dtype=float))
    m = np.asarray(m, dtype=float)
    e = np.abs(m + SHIFT)
    if name == "gaussian":
        return 2 * (np.abs(m) + x)
    if name == "bernoulli_odds":
        return 1 / np.abs(m + 1) + x / e
    if name == "bernoulli_logit":
        return 1 + x
    if name == "poisson":
        return 1 + x / e
    if name == "poisson_log":
        return np.exp(m) + x
    if name == "rayleigh":
        return 2 / e + (np.pi / 2) * x**2 / e**3
    if name == "gamma":
        return x / e**2 + 1 / e
    if name == "huber":
        return 2 * (np.abs(m) + x + p)
    if name == "negative_binomial":
        return (p + x) / np.abs(1 + m) + x / e
    if name == "beta":
        return e ** (p - 1) + x * e ** (p - 2)
    raise KeyError(name)


def scale_f(name: str, x, m, p=None):
    x = np.abs(np.asarray(x, dtype=float))
    m = np.asarray(m, dtype=float)
    e = np.abs(m + SHIFT)
    if name == "gaussian":
        return (np.abs(m) + x) ** 2
    if name == "bernoulli_odds":
        return np.abs(np.log(np.abs(m + 1))) + x * np.abs(np.log(e))
    if name == "bernoulli_logit":
        return np.log(np.exp(m) + 1) + x * np.abs(m)
    if name == "poisson":
        return np.abs(m) + x * np.abs(np.log(e))
    if name == "poisson_log":
        return np.exp(m) + x * np.abs(m)
    if name == "rayleigh":
        return 2 * np.abs(np.log(e)) + (np.pi / 4) * (x / e) ** 2
    if name == "gamma":
        return x / e + np.abs(np.log(e))
    if name == "huber":
        return (np.abs(m) + x + p) ** 2
    if name == "negative_binomial":
        return (p + x) * np.abs(np.log(np.abs(m + 1))) + x * np.abs(np.log(e))
    if name == "beta":
        return abs(1 / p) * e**p + abs(1 / (p - 1)) * x * e ** (p - 1)
    raise KeyError(name)


def param_loss(name: str, x, m, p):
    """the three parameterised losses written out from their definitions (used to tell which parameter a handle
    pair carries; the derivative oracles never use this)"""
    x, m = np.asarray(x, dtype=float), np.asarray(m, dtype=float)
    if name == "huber":
        d = np.abs(x - m)
        return np.where(d < p, d * d, 2 * p * d - p * p)
    if name == "negative_binomial":
        return (p + x) * np.log(m + 1) - x * np.log(m + SHIFT)
    if name == "beta":
        return (m + SHIFT) ** p / p - x * (m + SHIFT) ** (p - 1) / (p - 1)
    raise KeyError(name)


# --------------------------------------------------------------------------
# differentiation oracles
# --------------------------------------------------------------------------

CS_H = 1e-30


def complex_step(fh, x: np.ndarray, m: np.ndarray) -> np.ndarray:
    """d/dm fh(x, m) by complex-step differentiation: Im f(x, m + i h) / h, h = 1e-30.  No subtractive
    cancellation: accurate to a few ulp of the sum of the absolute term derivatives for analytic f."""
    return np.imag(fh(x, np.asarray(m, dtype=float) + 1j * CS_H)) / CS_H


def richardson(fun, m: np.ndarray, h: np.ndarray):
    """Richardson-extrapolated central difference of ``fun`` at m with steps h and h/2; returns the
    estimate (exact for piecewise polynomials of degree <= 4 without a breakpoint in [m-h, m+h], up to
    rounding).  The realised step (mp - mm) is used as denominator."""

    def cd(hh):
        mp, mm = m + hh, m - hh
        return (fun(mp) - fun(mm)) / (mp - mm)

    return (4 * cd(h / 2) - cd(h)) / 3


# --------------------------------------------------------------------------
# models, data, weights
# --------------------------------------------------------------------------


@st.composite
def model_shape(draw, tier, min_order=2, max_order=None):
    """shape with N >= 2 (MTTKRP, hence the GCP gradient, is undefined for 1-way tensors)."""
    mo = max_order or (4 if tier == "quick" else 5)
    return draw(gen.shapes(tier, min_order=min_order, max_order=mo, max_cells=48 if tier == "quick" else 160))


def factor_value(name: str):
    """Factor-matrix entries: >= 0 for losses with lower bound 0 (zeros included), either sign otherwise."""
    if LOSSES[name]["lb"] == 0.0:
        return st.one_of(st.just(0.0), st.sampled_from([0.5, 1.0, 2.0]), st.floats(0.05, 3.0), st.floats(0.05, 3.0))
    return st.one_of(st.just(0.0), st.integers(-2, 2).map(float), sfloats(0.01, 2.0), sfloats(0.01, 2.0))


# next to 0 and below every absolute tolerance.  One magnitude class per case, so that no product of entries is a
# subnormal number (whose rounding would depend on the order of the factors): 1e-290 / 1e-200 - the product of two
# of them underflows to exactly 0 in every order, times ordinary entries (>= 0.01 each, at most 4 of them) it stays
# normal; or 1e-12 - all products stay normal
TINY_CLASSES = [[1e-290, 1e-200], [1e-12]]
FACTOR_CLASSES = ["generic"] * 5 + ["tiny", "tiny", "identity", "near-identity", "near-identity"]


@st.composite
def factors_for(draw, name, shape, rank, classes=FACTOR_CLASSES):
    """factor matrices in one of the classes: generic (exact zeros included), tiny (some entries 1e-300 / 1e-200 /
    1e-12 - such entries are NOT zeros), identity (every factor is the leading block of an identity matrix: exactly
    orthogonal unit columns), near-identity (identity plus a perturbation of 1e-9 / 1e-6 / 1e-4 in every entry)"""
    fv = factor_value(name)
    cls = draw(st.sampled_from(list(classes)))
    if cls == "tiny":
        tiny = draw(st.sampled_from(TINY_CLASSES))
        tv = st.sampled_from(tiny) if LOSSES[name]["lb"] == 0.0 else st.sampled_from(tiny + [-t for t in tiny])
        fv = st.one_of(tv, fv, fv, fv)
    if cls in ("identity", "near-identity"):
        eps = 0.0 if cls == "identity" else draw(st.sampled_from([1e-9, 1e-6, 1e-4]))
        noise = st.floats(0.01, 1.0) if LOSSES[name]["lb"] == 0.0 else sfloats(0.01, 1.0)  # (no subnormal noise)
        out = []
        for n in shape:
            E = [[(1.0 if i == j else 0.0) + (eps * draw(noise) if eps else 0.0) for j in range(rank)] for i in range(n)]
            out.append(E)
        return out
    return [draw(st.lists(st.lists(fv, min_size=rank, max_size=rank), min_size=n, max_size=n)) for n in shape]


def factor_class(case) -> str:
    """label: the structure class of a case's factor matrices, read off the values"""
    fm = [np.array(f, dtype=float).reshape(n, case["rank"]) for f, n in zip(case["factors"], case["shape"])]
    if all(np.array_equal(f, np.eye(*f.shape)) for f in fm):
        return "factors-identity"
    if all(np.all(np.abs(f - np.eye(*f.shape)) <= 1e-3) for f in fm):
        return "factors-near-identity"
    if any(np.any((f != 0) & (np.abs(f) < 1e-10)) for f in fm):
        return "factors-tiny-entries"
    return "factors-generic"


@st.composite
def column_scaling(draw, shape, rank):
    """extreme but exactly balanced dynamic range: per component, the column of one mode is multiplied by 2**E and the
    column of another mode by 2**-E (E = 60, 200, 480: 1e18, 1e60, 1e144).  Powers of two: the model values and every
    leave-one-out product are changed by exact factors only, and no partial product leaves the normal range."""
    if len(shape) < 2 or not draw(st.sampled_from([False, False, False, True])):
        return None
    out = []
    for _ in range(rank):
        i = draw(st.integers(0, len(shape) - 1))
        j = draw(st.integers(0, len(shape) - 2))
        j = j if j < i else j + 1
        out.append([i, j, draw(st.sampled_from([0, 60, 200, 480]))])
    return out


def scaled_direction(V: np.ndarray, A: Sequence[np.ndarray], k: int) -> np.ndarray:
    """a direction for factor k that moves the model by O(|V|): every column of V is divided by the power of two
    nearest to the product of the largest magnitudes of the same column in the other factors, when that product lies
    outside [2**-30, 2**30] (otherwise the column is left as it is)"""
    V = np.array(V, dtype=float, copy=True)
    for c in range(V.shape[1]):
        m = 1.0
        for j, a in enumerate(A):
            if j != k:
                m *= float(np.max(np.abs(a[:, c]))) if a.shape[0] else 0.0
        if m > 0 and np.isfinite(m):
            e = int(np.round(np.log2(m)))
            if abs(e) > 30:
                V[:, c] = np.ldexp(V[:, c], -e)
    return V


def build_factors(case) -> List[np.ndarray]:
    r = case["rank"]
    fm = [np.array(f, dtype=float).reshape(n, r) for f, n in zip(case["factors"], case["shape"])]
    if case.get("mscale"):
        for c, (i, j, e) in enumerate(case["mscale"]):
            # (tiny entries stay inside the normal range: they are left out of the down-scaling)
            if e and not any(np.any((f[:, c] != 0) & (np.abs(f[:, c]) < 1e-100)) for f in fm):
                fm[i][:, c] = np.ldexp(fm[i][:, c], e)
                fm[j][:, c] = np.ldexp(fm[j][:, c], -e)
    return fm


MODEL_PROV = ["ctor", "ctor", "ctor", "copy", "absorbed", "permuted", "weighted", "normalized", "arranged"]
UNIT_PROV = ["ctor", "ctor", "copy", "absorbed", "permuted"]


@st.composite
def model_state(draw, name, shape, rank, allow_weighted=True):
    """how the Kruskal model comes into being: fresh from the constructor (unit weights), or in a state an earlier
    public operation left it in - copy(), weights absorbed into a factor (normalize(0): C-ordered factor), modes
    permuted, and, where weighted models are admissible, explicit weights / normalize() / arrange()"""
    prov = draw(st.sampled_from(MODEL_PROV if allow_weighted else UNIT_PROV))
    out = dict(mprov=prov, mperm=list(draw(st.permutations(range(len(shape))))), mmode=draw(st.integers(0, len(shape) - 1)))
    out["mscale"] = draw(column_scaling(shape, rank))
    if prov in ("weighted", "absorbed"):
        if LOSSES[name]["lb"] == 0.0:
            wv = st.one_of(st.sampled_from([0.5, 2.0, 1.0]), st.floats(0.1, 4.0))
        else:
            wv = st.one_of(st.sampled_from([0.5, 2.0, 1.0, -1.0]), sfloats(0.1, 4.0))
        out["mweights"] = draw(st.lists(wv, min_size=rank, max_size=rank))
        if draw(st.sampled_from([False, False, False, True])):  # weights that are almost, but not, all ones
            d = draw(st.sampled_from([1e-9, 1e-7, 1e-5]))
            out["mweights"] = [1.0 + d * draw(st.sampled_from([-1.0, 0.0, 0.5, 1.0])) for _ in range(rank)]
    return out


def build_model(case) -> ttb.ktensor:
    """the model object in the drawn state (public API only); old cases without 'mprov' get the constructor"""
    fm = build_factors(case)
    prov = case.get("mprov", "ctor")
    w = np.array(case["mweights"], dtype=float) if case.get("mweights") is not None else np.ones(case["rank"])
    plain = ttb.ktensor([f.copy() for f in fm])
    try:
        if prov == "copy":
            K = plain.copy()
        elif prov == "absorbed":
            K = ttb.ktensor([f.copy() for f in fm], w.copy())
            K.normalize(weight_factor=case.get("mmode", 0))
        elif prov == "permuted":
            p = list(case["mperm"])
            K = ttb.ktensor([fm[i].copy() for i in p]).permute(np.argsort(p))
        elif prov == "weighted":
            K = ttb.ktensor([f.copy() for f in fm], w.copy())
        elif prov == "normalized":
            K = ttb.ktensor([f.copy() for f in fm])
            K.normalize()
        elif prov == "arranged":
            K = ttb.ktensor([f.copy() for f in fm])
            K.arrange()
        else:
            K = plain
    except Exception:  # noqa: BLE001  (these routes are judged by other properties)
        K = plain
    if prov in ("absorbed", "weighted", "normalized", "arranged") and any(np.any((f != 0) & (np.abs(f) < 1e-150)) for f in fm):
        # (the square of such an entry underflows: column 2-norms, hence normalize(), are not meaningful for it)
        K = plain
    ok = (isinstance(K, ttb.ktensor) and tuple(K.shape) == tuple(case["shape"]) and K.ncomponents == case["rank"]
          and all(np.all(np.isfinite(f)) for f in K.factor_matrices) and bool(np.all(np.isfinite(K.weights))))
    if ok and LOSSES[case["loss"]]["lb"] == 0.0:
        ok = bool(np.all(K.weights >= 0)) and all(bool(np.all(f >= 0)) for f in K.factor_matrices)
    return K if ok else plain


def read_model(K):
    """(weights, factor matrices) as they stand - copies"""
    return np.array(K.weights, dtype=float, copy=True), [np.array(f, dtype=float, copy=True) for f in K.factor_matrices]


def absorb(lam, A):
    """factor list denoting the same tensor with unit weights (weights multiplied into mode 0)"""
    return [A[0] * np.asarray(lam)[None, :]] + [a for a in A[1:]]


def normalize0_ref(lam, A):
    """reference for ktensor.normalize(0) as documented: columns scaled to unit 2-norm, norms collected in the
    weights, negative weights flipped into mode 0, weights absorbed into mode 0"""
    lam = np.array(lam, dtype=float, copy=True)
    B = [np.array(a, dtype=float, copy=True) for a in A]
    for k in range(len(B)):
        for r in range(B[k].shape[1]):
            t = np.linalg.norm(B[k][:, r])
            if t > 0:
                B[k][:, r] = B[k][:, r] / t
            lam[r] = lam[r] * t
    neg = lam < 0
    B[0][:, neg] = -B[0][:, neg]
    lam[neg] = -lam[neg]
    B[0] = B[0] * lam[None, :]
    return B


def kruskal_c(factors: Sequence[np.ndarray]) -> np.ndarray:
    """einsum of factor matrices with unit weights; works for complex factors."""
    n = len(factors)
    letters = "abcdefghij"[:n]
    spec = ",".join(f"{c}r" for c in letters) + "->" + letters
    return np.einsum(spec, *factors)


def mttkrp_ref(Y: np.ndarray, factors: Sequence[np.ndarray], k: int) -> np.ndarray:
    """sum over all modes but k of Y times the other factors' rows: the definition of MTTKRP."""
    n = Y.ndim
    letters = "abcdefghij"[:n]
    others = [i for i in range(n) if i != k]
    spec = letters + "," + ",".join(f"{letters[i]}r" for i in others) + "->" + letters[k] + "r"
    return np.einsum(spec, Y, *[factors[i] for i in others])


@st.composite
def weights_for(draw, ncells):
    kind = draw(st.sampled_from(["none", "mask", "mask", "positive", "sparse-mask", "sparse-positive", "near-one"]))
    if kind == "none":
        return kind, None
    if kind == "mask":
        w = draw(st.lists(st.sampled_from([0.0, 1.0, 1.0]), min_size=ncells, max_size=ncells))
    elif kind == "near-one":
        # almost, but not, unit weights: 1 + d with |d| = 1e-9 .. 1e-5 (some entries exactly 1)
        d = draw(st.sampled_from([1e-9, 1e-7, 1e-5]))
        w = [1.0 + d * draw(st.sampled_from([-1.0, 0.0, 0.5, 1.0])) for _ in range(ncells)]
    elif kind.startswith("sparse"):
        # mostly missing: 0, 1, 2, ... observed entries, at most a quarter of the cells
        k = draw(st.one_of(st.sampled_from([0, 1, 2, 3]), st.integers(0, max(0, ncells // 4))))
        k = min(k, ncells)
        pos = draw(st.lists(st.integers(0, ncells - 1), min_size=k, max_size=k, unique=True))
        wv = st.just(1.0) if kind == "sparse-mask" else st.floats(0.1, 5.0)
        w = [0.0] * ncells
        for i in pos:
            w[i] = draw(wv)
    else:
        w = draw(st.lists(st.one_of(st.just(0.0), st.floats(0.1, 5.0), st.floats(0.1, 5.0)),
                          min_size=ncells, max_size=ncells))
    return kind, w


WEIGHT_DTYPES = ["float64", "float64", "int64", "bool", "uint8"]  # (integer / boolean arrays: masks only)
DATA_DTYPES = ["float64", "float64", "float64", "int64", "int32", "uint8", "uint16", "bool"]
DTYPE_MAX = {"uint8": 255, "uint16": 65535, "int32": 2**31 - 1, "bool": 1}


def data_dtypes(name):
    """dtypes in which data of this loss is ordinarily held (boolean arrays: the two Bernoulli losses only)"""
    if name == "huber":
        return ["float64"]
    return DATA_DTYPES if LOSSES[name]["data"] == "binary" else [d for d in DATA_DTYPES if d != "bool"]


def typed(values, dtype):
    """the array in the requested dtype when that represents every value exactly, else float64"""
    a = np.asarray(values, dtype=float)
    if dtype in (None, "float64"):
        return a
    if a.size and (np.any(a != np.round(a)) or np.any(np.abs(a) > DTYPE_MAX.get(dtype, 2**53))):
        return a
    if a.size and np.any(a < 0) and (dtype.startswith("uint") or dtype == "bool"):
        return a
    return a.astype(dtype)


HUBER_MARGIN = 0.02  # |x-m|/threshold stays outside [1-margin, 1+margin]


@st.composite
def huber_ratio(draw):
    """(sign, |x-m| / threshold) away from the kink at 1."""
    s = draw(st.sampled_from([-1.0, 1.0]))
    rho = draw(st.one_of(st.just(0.0), st.floats(0.0, 1 - HUBER_MARGIN), st.floats(1 + HUBER_MARGIN, 8.0)))
    return [s, rho]


@st.composite
def problem(draw, tier, losses=LOSS_NAMES, holders=("dense", "sparse"), with_weights=True, max_order=None,
            weighted_models=True):
    """loss + parameter + unit-weight Kruskal model + data in the loss's data domain (+ weights).
    For Huber the data are given as offsets from the model values so that no entry sits on the kink."""
    name = draw(st.sampled_from(list(losses)))
    p = draw(param_strategy(name))
    shape = draw(model_shape(tier, max_order=max_order))
    rank = draw(st.integers(1, 4))
    factors = draw(factors_for(name, shape, rank))
    ncells = ref.prod(shape)
    case = dict(loss=name, param=p, shape=shape, rank=rank, factors=factors)
    if name == "huber":
        case["offsets"] = draw(st.lists(huber_ratio(), min_size=ncells, max_size=ncells))
        case["data"] = None
    else:
        dv = data_value(LOSSES[name]["data"], small=True)
        pattern = draw(st.sampled_from(["const", "mixed", "mixed", "mixed"]))
        if pattern == "const":
            v = draw(dv)
            case["data"] = [v] * ncells
        else:
            case["data"] = draw(st.lists(dv, min_size=ncells, max_size=ncells))
    case["holder"] = draw(st.sampled_from(list(holders)))
    if case["holder"] == "sparse":
        case["stored"] = draw(st.sampled_from(["sorted", "reverse", "random"]))
        case["perm_seed"] = draw(st.integers(0, 2**31 - 1))
    if with_weights:
        case["wkind"], case["weights"] = draw(weights_for(ncells))
        case["worder"] = draw(st.sampled_from(["F", "C"]))
        case["wdtype"] = draw(st.sampled_from(WEIGHT_DTYPES)) if case["wkind"] in ("mask", "sparse-mask") else "float64"
    else:
        case["wkind"], case["weights"] = "none", None
    case["ddtype"] = draw(st.sampled_from(data_dtypes(name)))
    if case["holder"] == "dense":
        case["dprov"] = draw(st.sampled_from(["ctor", "ctor", "grown", "c-order"]))
    else:
        case["dprov"] = draw(st.sampled_from(["ctor", "ctor", "np-shape", "explicit-zeros"]))
    case.update(draw(model_state(name, shape, rank, allow_weighted=weighted_models)))
    return case


def data_array(case, M: np.ndarray) -> np.ndarray:
    """The dense data array of a problem (F-order flat list, or model + offsets for Huber)."""
    shape = tuple(case["shape"])
    if case["loss"] == "huber":
        off = np.array([s * r for s, r in case["offsets"]], dtype=float) * case["param"]
        return M + np.reshape(off, shape, order="F")
    return gen.arr_F(shape, case["data"])


def build_data(case, X: np.ndarray):
    """data tensor holding X: dtype 'ddtype' where that is exact, in the drawn provenance state"""
    shape = tuple(case["shape"])
    Xt = typed(X, case.get("ddtype"))
    prov = case.get("dprov", "ctor")
    if case["holder"] == "dense":
        T = None
        if prov == "grown" and Xt.dtype == np.float64:  # (growth turns integer data into float data)
            T = gen.build_tensor(dict(shape=list(shape), data=[float(v) for v in X.flatten(order="F")], prov="grown"))
        elif prov == "c-order":
            T = ttb.tensor(np.ascontiguousarray(Xt), shape)
        if T is None or tuple(int(n) for n in T.shape) != shape or not np.array_equal(np.asarray(T.data, dtype=float), X):
            T = ttb.tensor(Xt.copy(order="F"), shape)
        return T
    sc = gen.sparse_case_from_dense(X)
    n = len(sc["subs"])
    spshape = tuple(np.array(shape, dtype=np.int64)) if prov == "np-shape" else shape
    if n == 0:
        return ttb.sptensor(shape=shape)
    order = list(range(n))
    if case.get("stored") == "reverse":
        order = order[::-1]
    elif case.get("stored") == "random":
        order = list(np.random.RandomState(case.get("perm_seed", 0)).permutation(n))
    subs = np.array([sc["subs"][i] for i in order], dtype=int).reshape(n, len(shape))
    vals = typed([sc["vals"][i] for i in order], case.get("ddtype")).reshape(n, 1)
    if prov == "explicit-zeros":
        zs = np.argwhere(X == 0)
        if len(zs):
            rs = np.random.RandomState(case.get("perm_seed", 0))
            zs = zs[rs.permutation(len(zs))[: max(1, len(zs) // 2)]]
            subs = np.vstack((subs, zs))
            vals = np.vstack((vals, np.zeros((len(zs), 1), dtype=vals.dtype)))
            p = rs.permutation(len(subs))
            subs, vals = subs[p], vals[p]
    return ttb.sptensor(subs, vals, spshape)


def weight_array(case) -> Optional[np.ndarray]:
    if case.get("weights") is None:
        return None
    w = gen.arr_F(tuple(case["shape"]), case["weights"])
    w = typed(w, case.get("wdtype")) if case.get("wkind") in ("mask", "sparse-mask") else w
    return np.ascontiguousarray(w) if case.get("worder", "C") == "C" else np.asfortranarray(w)


def model_rounding(factors: Sequence[np.ndarray]) -> np.ndarray:
    """Entry-wise bound on the difference between two floating-point evaluations of the Kruskal sum."""
    n = len(factors)
    r = factors[0].shape[1]
    return 8 * (n + r) * EPS * kruskal_c([np.abs(f) for f in factors])


class PointwiseRef:
    """Reference values Y_f = f(X, M), Y_g = g(X, M) with entry-wise tolerances that cover (i) rounding of
    the handle itself (64 eps x sum of absolute terms) and (ii) the handle's sensitivity to the rounding
    of the model value (difference of the handle between M - dM and M + dM)."""

    def __init__(self, name, p, fh, gh, X, M, dM):
        self.f = fh(X, M) if fh is not None else None
        self.g = gh(X, M) if gh is not None else None
        lo, hi = M - dM, M + dM
        if LOSSES[name]["lb"] == 0.0:
            lo = np.maximum(lo, 0.0)
        if fh is not None:
            self.tol_f = np.abs(fh(X, hi) - fh(X, lo)) + 64 * EPS * scale_f(name, X, M, p)
        if gh is not None:
            self.tol_g = np.abs(gh(X, hi) - gh(X, lo)) + 64 * EPS * scale_g(name, X, M, p)


def within(got, want, tol) -> bool:
    got, want, tol = np.asarray(got, dtype=float), np.asarray(want, dtype=float), np.asarray(tol, dtype=float)
    if got.shape != want.shape:
        return False
    with np.errstate(all="ignore"):
        return bool(np.all((np.abs(got - want) <= tol) | (got == want)))


def worst(got, want, tol) -> str:
    got, want, tol = np.asarray(got, dtype=float), np.asarray(want, dtype=float), np.asarray(tol, dtype=float)
    if got.shape != want.shape:
        return f"shape {got.shape} vs {want.shape}"
    with np.errstate(all="ignore"):
        d = np.abs(got - want) - tol
    if d.size == 0:
        return "empty"
    i = np.unravel_index(int(np.nanargmax(np.where(np.isnan(d), np.inf, d))), d.shape) if d.ndim else ()
    return f"at {tuple(int(v) for v in i)}: got {got[i]!r} want {want[i]!r} tol {np.broadcast_to(tol, got.shape)[i]!r}"


# --------------------------------------------------------------------------
# a few large cases per run: described by seeds, expanded deterministically into an ordinary case
# --------------------------------------------------------------------------

LARGE_SHAPES = [[40, 50, 30], [250, 240], [16, 15, 25, 10], [3, 20000], [1, 300, 200]]  # 60000 cells each


@st.composite
def large_problem(draw, holders=("sparse", "sparse", "dense")):
    """compact description of a problem with 60000 cells and 1e4..3e4 non-zero data entries"""
    name = draw(st.sampled_from([n for n in LOSS_NAMES if n != "huber"]))
    c = dict(loss=name, param=draw(param_strategy(name)), shape=draw(st.sampled_from(LARGE_SHAPES)), rank=draw(st.integers(1, 3)),
             large=True, seed=draw(st.integers(0, 2**31 - 1)), fill=draw(st.sampled_from([0.17, 0.2, 0.28, 0.34, 0.5])),
             holder=draw(st.sampled_from(list(holders))), stored=draw(st.sampled_from(["sorted", "reverse", "random"])),
             perm_seed=draw(st.integers(0, 2**31 - 1)), dprov=draw(st.sampled_from(["ctor", "ctor", "np-shape"])),
             wkind=draw(st.sampled_from(["none", "sparse-mask", "sparse-mask", "sparse-positive", "mask", "positive"])),
             wdensity=draw(st.sampled_from([0.0, 0.0005, 0.01, 0.1, 0.24])), worder=draw(st.sampled_from(["F", "C"])),
             ddtype=draw(st.sampled_from(["float64", "float64", "int64", "uint8"])), mprov=draw(st.sampled_from(["ctor", "ctor", "copy", "permuted"])),
             mmode=0)
    c["mperm"] = list(draw(st.permutations(range(len(c["shape"])))))
    c["wdtype"] = draw(st.sampled_from(WEIGHT_DTYPES)) if c["wkind"] in ("mask", "sparse-mask") else "float64"
    if c["holder"] == "dense":
        c["dprov"] = draw(st.sampled_from(["ctor", "c-order"]))
    return c


def _seeded_factor(rs, n, r, name):
    f = rs.uniform(0.05, 2.0, size=(n, r))
    if LOSSES[name]["lb"] != 0.0:
        f = f * rs.choice([-1.0, 1.0], size=(n, r))
    f[rs.uniform(size=(n, r)) < 0.2] = 0.0  # exact zeros are ordinary entries
    return f


def _seeded_values(rs, n, name):
    kind = LOSSES[name]["data"]
    if kind == "binary":
        return np.ones(n)
    if kind == "count":
        return rs.randint(1, 7, size=n).astype(float)
    v = rs.uniform(0.1, 3.0, size=n)
    return v if kind == "nonneg" else v * rs.choice([-1.0, 1.0], size=n)


def expand_large(case) -> dict:
    """the ordinary case dict (factors / data / weights / directions as lists) a compact large case stands for"""
    if not case.get("large"):
        return case
    rs = np.random.RandomState(case["seed"])
    shape, r, name = case["shape"], case["rank"], case["loss"]
    n = ref.prod(shape)
    c = dict(case)
    # (the model of a 60000-cell problem: entries scaled so that model values stay O(1))
    c["factors"] = [_seeded_factor(rs, m, r, name).tolist() for m in shape]
    c["dirs"] = [rs.uniform(-1.0, 1.0, size=(m, r)).tolist() for m in shape]
    vals = _seeded_values(rs, n, name)
    c["data"] = np.where(rs.uniform(size=n) < case["fill"], vals, 0.0).tolist()
    if case["wkind"] == "none":
        c["weights"] = None
    else:
        dens = case["wdensity"] if case["wkind"].startswith("sparse") else 0.67
        w = (rs.uniform(size=n) < dens).astype(float)
        if case["wkind"].endswith("positive"):
            w = w * rs.uniform(0.1, 5.0, size=n)
        c["weights"] = w.tolist()
    return c


@st.composite
def large_samples(draw):
    """compact description of a sample set of 1e4..3e4 samples (block edges included) of a large model"""
    name = draw(st.sampled_from([n for n in LOSS_NAMES if n != "huber"]))
    edges = [b + d for b in (10000, 16384) for d in (-1, 0, 1)]
    return dict(loss=name, param=draw(param_strategy(name)), shape=draw(st.sampled_from(LARGE_SHAPES)), rank=draw(st.integers(1, 3)),
                large=True, seed=draw(st.integers(0, 2**31 - 1)), ns=draw(st.one_of(st.sampled_from(edges), st.integers(10000, 30000))),
                size="large", crng_kind=draw(st.sampled_from(["none", "empty", "prefix"])), crng_len=draw(st.integers(0, 10000)),
                outputs=draw(st.sampled_from(["both", "both", "F", "G"])), lambda_check=draw(st.sampled_from(["default", True, False])),
                mprov=draw(st.sampled_from(["ctor", "ctor", "copy", "permuted"])), mmode=0, unit_sweights=draw(st.booleans()),
                vdtype=draw(st.sampled_from(DATA_DTYPES[:-1])), sdtype=draw(st.sampled_from(["int64", "int64", "int32", "uint32"])),
                swdtype=draw(st.sampled_from(["float64", "float64", "int64"])), mperm_seed=draw(st.integers(0, 9999)))


def expand_large_samples(case) -> dict:
    if not case.get("large"):
        return case
    rs = np.random.RandomState(case["seed"])
    shape, r, name, ns = case["shape"], case["rank"], case["loss"], case["ns"]
    c = dict(case)
    c["factors"] = [_seeded_factor(rs, m, r, name).tolist() for m in shape]
    lin = rs.randint(0, ref.prod(shape), size=ns)  # with repeats
    c["subs"] = np.array(np.unravel_index(lin, tuple(shape), order="F")).T.reshape(ns, len(shape)).tolist()
    v = _seeded_values(rs, ns, name)
    c["vals"] = np.where(rs.uniform(size=ns) < 0.5, v, 0.0).tolist()
    c["sweights"] = ([1.0] * ns) if case["unit_sweights"] else np.round(rs.uniform(0.1, 50.0, size=ns), 3).tolist()
    c["crng"] = None if case["crng_kind"] == "none" else ([] if case["crng_kind"] == "empty" else list(range(min(ns, case["crng_len"]))))
    c["mperm"] = list(np.random.RandomState(case["mperm_seed"]).permutation(len(shape)))
    return c


# --------------------------------------------------------------------------
# round 4: how a caller presents valid arguments (subscripts / values / weights in other dtypes and memory layouts),
# models with one long mode (mode length x rank above what a narrow subscript dtype holds), process environment
# --------------------------------------------------------------------------

DTYPE_MAX.update({"int8": 127, "int16": 32767, "uint32": 2**32 - 1, "uint64": 2**53, "int64": 2**53})
EPS32 = float(np.finfo(np.float32).eps)
SLACK32 = EPS32 / EPS  # a tolerance sized for double precision becomes the same bound in single precision
NARROW_MAX = {"int8": 127, "uint8": 255, "int16": 32767, "uint16": 65535}
SUB_DTYPES = ["int8", "uint8", "uint8", "int16", "uint16", "uint16", "int32", "int32", "uint32", "uint64", "int64"]
LAYOUTS = [None, None, "F", "strided", "readonly"]
VAL_DTYPES = DATA_DTYPES[:-1] + ["float32", "float32", "int16", "uint64"]
SW_DTYPES = ["float64", "float64", "float32", "int64", "int32", "uint8", "uint16"]
ENVS = [None, None, None, "debug-logging"]


def present_array(a: np.ndarray, layout) -> np.ndarray:
    """the same array (values, dtype, shape) in another memory presentation: Fortran order, a strided view (every
    second element of a larger buffer along every axis; the skipped elements hold other values), a read-only array"""
    a = np.asarray(a)
    if layout == "F":
        return np.asfortranarray(a)
    if layout == "readonly":
        b = a.copy(order="K")
        b.setflags(write=False)
        return b
    if layout == "strided" and a.ndim >= 1:
        big = np.ones(tuple(2 * n for n in a.shape), dtype=a.dtype)
        v = big[tuple(slice(None, None, 2) for _ in a.shape)]
        v[...] = a
        return v
    return a


def as_presented(values: np.ndarray, dtype):
    """(array in the requested dtype, float64 image of what that array holds).  float32: the request *is* the rounded
    data (its float64 image is the reference); integer dtypes only when they hold every value exactly (see typed)"""
    v = np.asarray(values, dtype=float)
    if dtype == "float32":
        a = v.astype(np.float32)
        return a, a.astype(float)
    a = typed(v, dtype)
    return a, v


@st.composite
def long_shape(draw, sdtype, max_other=3):
    """(shape, rank, position of the long mode): the subscripts of the long mode fit the dtype `sdtype`, but
    (mode length x rank) - the size of that mode's factor matrix - mostly does not"""
    cap = NARROW_MAX.get(sdtype) or draw(st.sampled_from([255, 255, 65535]))
    rank = draw(st.sampled_from([1, 2, 2, 3, 4, 4]))
    lo = cap // max(rank, 2) + 1
    L = draw(st.one_of(st.integers(lo, cap + 1), st.sampled_from([cap + 1, cap, lo])))
    others = draw(st.lists(st.integers(1, 3), min_size=1, max_size=max_other))
    while ref.prod(others) > 6:
        others = others[:-1]
    pos = draw(st.integers(0, len(others)))
    return others[:pos] + [L] + others[pos:], rank, pos


def expand_long(case) -> dict:
    """a compact long-mode case -> ordinary case: factor matrices (and, for the all-entries cell, the data) from a seed"""
    if not case.get("long"):
        return case
    rs = np.random.RandomState(case["seed"])
    c = dict(case)
    c["factors"] = [_seeded_factor(rs, m, case["rank"], case["loss"]) for m in case["shape"]]
    if case.get("full"):
        n = ref.prod(case["shape"])
        v = _seeded_values(rs, n, case["loss"])
        c["data"] = np.where(rs.uniform(size=n) < 0.6, v, 0.0)
    return c
